import Tv.GenAgg
import Tv.Model.Basic
import Tv.Spec.C04
import Tv.Thm.C12GenA
/-!
# C08 — nulls are transparent to the aggregations regenerated from agg.rs

For the functions of `GenAgg.lean` (regenerated from tea-core/src/agg.rs on every run): the result
is a function of the non-null elements in order (resp. of the pairwise-complete pairs) only — two
inputs with the same non-null elements give the **same** result, whatever the number and the
positions of their nulls, and whichever encoding (NaN / `None`) produced them (both are `none`
here; the encodings are the subject of `C08.decode_*`).  The proofs use only the structure of the
regenerated code (it reaches the data through `vapply_n` / `vfold_n` / `vfold` / a pairwise
`not_none` guard), not its closed forms.
-/
set_option linter.unusedSimpArgs false
namespace Tv.C08Gen
open Tv

theorem valid_cons_none {α : Type} (xs : List (Option α)) : valid (none :: xs) = valid xs := by simp [valid]
theorem valid_cons_some {α : Type} (x : α) (xs : List (Option α)) : valid (some x :: xs) = x :: valid xs := by simp [valid]

/-- `vapply_n` sees only the non-null elements -/
theorem vapplyN_valid {σ : Type} (f : σ → Rat → σ) (init : σ) (xs : List (Option Rat)) :
    Gen.vapplyN f init xs = ((valid xs).foldl f init, (valid xs).length) := by
  unfold Gen.vapplyN
  rw [show ((valid xs).foldl f init, (valid xs).length)
      = ((valid xs).foldl f (init, 0).1, (init, 0).2 + (valid xs).length) by simp]
  generalize (init, 0) = p
  induction xs generalizing p with
  | nil => simp [valid]
  | cons v xs ih =>
    cases v with
    | none => rw [List.foldl_cons, valid_cons_none]; exact ih p
    | some x =>
      rw [List.foldl_cons, valid_cons_some, ih]
      simp [Nat.add_assoc, Nat.add_comm]

theorem vfoldN_valid {σ : Type} (f : σ → Rat → σ) (init : σ) (xs : List (Option Rat)) :
    Gen.vfoldN f init xs = ((valid xs).length, (valid xs).foldl f init) := by
  unfold Gen.vfoldN
  rw [show ((valid xs).length, (valid xs).foldl f init)
      = ((0, init).1 + (valid xs).length, (valid xs).foldl f (0, init).2) by simp]
  generalize (0, init) = p
  induction xs generalizing p with
  | nil => simp [valid]
  | cons v xs ih =>
    cases v with
    | none => rw [List.foldl_cons, valid_cons_none]; exact ih p
    | some x =>
      rw [List.foldl_cons, valid_cons_some, ih]
      simp [Nat.add_assoc, Nat.add_comm]

theorem vfold_valid {σ : Type} (f : σ → Rat → σ) (init : σ) (xs : List (Option Rat)) :
    Gen.vfold f init xs = (valid xs).foldl f init := by
  unfold Gen.vfold
  induction xs generalizing init with
  | nil => simp [valid]
  | cons v xs ih =>
    cases v with
    | none => rw [List.foldl_cons, valid_cons_none]; exact ih init
    | some x => rw [List.foldl_cons, valid_cons_some, ih]; rfl

/-! nulls are transparent to the regenerated aggregations: the result depends on the non-null
elements (in order) only — whatever the positions and number of nulls -/

theorem vsum_nulls (sqrt : Rat → Rat) (xs ys : List (Option Rat)) (h : valid xs = valid ys) :
    GenAgg.vsum.run sqrt xs = GenAgg.vsum.run sqrt ys := by
  simp only [GenAgg.vsum.run, vfoldN_valid, h]
theorem vmean_nulls (sqrt : Rat → Rat) (xs ys : List (Option Rat)) (h : valid xs = valid ys) :
    GenAgg.vmean.run sqrt xs = GenAgg.vmean.run sqrt ys := by
  simp only [GenAgg.vmean.run, vfoldN_valid, h]
theorem vmean_var_nulls (sqrt : Rat → Rat) (xs ys : List (Option Rat)) (mp : Nat) (h : valid xs = valid ys) :
    GenAgg.vmean_var.run sqrt xs mp = GenAgg.vmean_var.run sqrt ys mp := by
  simp only [GenAgg.vmean_var.run, vapplyN_valid, h]
theorem vvar_nulls (sqrt : Rat → Rat) (xs ys : List (Option Rat)) (mp : Nat) (h : valid xs = valid ys) :
    GenAgg.vvar.run sqrt xs mp = GenAgg.vvar.run sqrt ys mp := by
  simp only [GenAgg.vvar.run, vmean_var_nulls sqrt xs ys mp h]
theorem vstd_nulls (sqrt : Rat → Rat) (xs ys : List (Option Rat)) (mp : Nat) (h : valid xs = valid ys) :
    GenAgg.vstd.run sqrt xs mp = GenAgg.vstd.run sqrt ys mp := by
  simp only [GenAgg.vstd.run, vvar_nulls sqrt xs ys mp h]
theorem vskew_nulls (sqrt : Rat → Rat) (xs ys : List (Option Rat)) (mp : Nat) (h : valid xs = valid ys) :
    GenAgg.vskew.run sqrt xs mp = GenAgg.vskew.run sqrt ys mp := by
  simp only [GenAgg.vskew.run, vapplyN_valid, h]
theorem vmax_nulls (sqrt : Rat → Rat) (xs ys : List (Option Rat)) (h : valid xs = valid ys) :
    GenAgg.vmax.run sqrt xs = GenAgg.vmax.run sqrt ys := by
  simp only [GenAgg.vmax.run, vfold_valid, h]
theorem vmin_nulls (sqrt : Rat → Rat) (xs ys : List (Option Rat)) (h : valid xs = valid ys) :
    GenAgg.vmin.run sqrt xs = GenAgg.vmin.run sqrt ys := by
  simp only [GenAgg.vmin.run, vfold_valid, h]

/-- a `zip … for_each` closure that acts on pairwise-complete pairs only sees `complete (xs.zip ys)` -/
theorem fold_complete {σ : Type} (L : σ → Option Rat × Option Rat → σ) (g : σ → Rat → Rat → σ)
    (hL : ∀ st va vb, L st (va, vb) = match va, vb with
      | some a, some b => g st a b
      | _, _ => st)
    (st : σ) (l : List (Option Rat × Option Rat)) :
    List.foldl L st l = List.foldl (fun st p => g st p.1 p.2) st (C04.Spec.complete l) := by
  induction l generalizing st with
  | nil => simp [C04.Spec.complete]
  | cons p l ih =>
    obtain ⟨va, vb⟩ := p
    rw [List.foldl_cons, hL]
    cases va <;> cases vb <;> simp [C04.Spec.complete, ih]

theorem vcov_nulls (sqrt : Rat → Rat) (xs ys xs' ys' : List (Option Rat)) (mp : Nat)
    (h : C04.Spec.complete (xs.zip ys) = C04.Spec.complete (xs'.zip ys')) :
    GenAgg.vcov.run sqrt xs ys mp = GenAgg.vcov.run sqrt xs' ys' mp := by
  unfold GenAgg.vcov.run
  simp only []
  rw [fold_complete _ (fun (st : Nat × Rat × Rat × Rat) a b => (st.1 + 1, st.2.1 + a, st.2.2.1 + b, st.2.2.2 + a * b))
        (fun st va vb => by obtain ⟨n, a, b, c⟩ := st; cases va <;> cases vb <;> rfl),
      fold_complete _ (fun (st : Nat × Rat × Rat × Rat) a b => (st.1 + 1, st.2.1 + a, st.2.2.1 + b, st.2.2.2 + a * b))
        (fun st va vb => by obtain ⟨n, a, b, c⟩ := st; cases va <;> cases vb <;> rfl), h]

theorem vcorr_nulls (sqrt : Rat → Rat) (xs ys xs' ys' : List (Option Rat)) (mp : Nat)
    (h : C04.Spec.complete (xs.zip ys) = C04.Spec.complete (xs'.zip ys')) :
    GenAgg.vcorr_pearson.run sqrt xs ys mp = GenAgg.vcorr_pearson.run sqrt xs' ys' mp := by
  unfold GenAgg.vcorr_pearson.run
  simp only []
  rw [fold_complete _ (fun (st : Nat × Rat × Rat × Rat × Rat × Rat) a b =>
          (st.1 + 1, st.2.1 + a, st.2.2.1 + a * a, st.2.2.2.1 + b, st.2.2.2.2.1 + b * b, st.2.2.2.2.2 + a * b))
        (fun st va vb => by obtain ⟨n, a, aa, b, bb, c⟩ := st; cases va <;> cases vb <;> rfl),
      fold_complete _ (fun (st : Nat × Rat × Rat × Rat × Rat × Rat) a b =>
          (st.1 + 1, st.2.1 + a, st.2.2.1 + a * a, st.2.2.2.1 + b, st.2.2.2.2.1 + b * b, st.2.2.2.2.2 + a * b))
        (fun st va vb => by obtain ⟨n, a, aa, b, bb, c⟩ := st; cases va <;> cases vb <;> rfl), h]
/-! ## order statistics regenerated from tea-agg/src/vec_valid.rs -/

/-- nulls are transparent to the regenerated `count_valid` -/
theorem count_valid_nulls (xs ys : List (Option Rat)) (h : valid xs = valid ys) :
    GenAgg.count_valid.run (fun x => x) xs = GenAgg.count_valid.run (fun x => x) ys := by
  rw [C12GenA.count_valid_len, C12GenA.count_valid_len, h]

/-- **nulls are transparent to the regenerated `vquantile`**: two series with the same non-null
elements (nulls inserted or deleted anywhere) have the same `q`-quantile under every interpolation,
whatever permutation std's selection produces -/
theorem vquantile_nulls {S : C12.Std} (hS : S.Ok) (xs ys : List (Option Rat)) (q : Rat) (m : C12.QMethod)
    (h0 : 0 ≤ q) (h1 : q ≤ 1) (h : valid xs = valid ys) :
    GenQuant.vquantile.run S xs q m = GenQuant.vquantile.run S ys q m := by
  have e : C12.Spec.quantile xs q (C12.toInterp m) = C12.Spec.quantile ys q (C12.toInterp m) := by
    unfold C12.Spec.quantile C12.Spec.sortedValid
    rw [h]
  rw [C12GenA.vquantile_from_source hS xs q m h0 h1, C12GenA.vquantile_from_source hS ys q m h0 h1, e]

/-- … and to the median -/
theorem vmedian_nulls {S : C12.Std} (hS : S.Ok) (xs ys : List (Option Rat)) (h : valid xs = valid ys) :
    GenQuant.vquantile.run S xs (1 / 2) .linear = GenQuant.vquantile.run S ys (1 / 2) .linear :=
  vquantile_nulls hS xs ys (1 / 2) .linear (by norm_num) (by norm_num) h

end Tv.C08Gen
