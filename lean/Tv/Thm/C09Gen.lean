import Tv.GenMap
import Tv.Thm.C13Gen
import Mathlib.Tactic.SplitIfs
set_option linter.unusedSimpArgs false
set_option linter.unusedVariables false
/-!
# C09 — the mapping iterators regenerated from tea-map yield exactly the length they announce

`Tv.GenMap.<fn>.run` is the list of items the returned iterator yields and `Tv.GenMap.<fn>.announced`
the length its `TrustedLen` contract announces, both written by translator/maps.py from the same
Rust source on every run (`to_trust(n)` / `TrustIter::new(_, n)` *claim* `n`; `chain` adds, `take`
is `min`, `skip` subtracts, `zip` is `min`, `repeat_n(v, k)` is `k`, `map` / `rev` keep the length, a
collected `Vec` announces its own length).  For each function: `yielded = announced` for every
series and parameter (`*_trusted`), and the announced length is the series length (`*_announced`).
-/
namespace Tv.C09Gen
open Tv Tv.Gen

theorem mapSt_length {σ α β : Type} (f : σ → α → σ × β) (s : σ) (l : List α) : (mapSt f s l).length = l.length := by
  induction l generalizing s with
  | nil => rfl
  | cons x l ih => simp [mapSt, ih]

theorem shift_trusted (xs : List (Option Rat)) (n : Int) (v : Option Rat) :
    (GenMap.shift.run xs n v).length = GenMap.shift.announced xs n v := by
  simp only [GenMap.shift.run, GenMap.shift.announced]
  split_ifs <;> simp at * <;> omega
theorem shift_announced (xs : List (Option Rat)) (n : Int) (v : Option Rat) :
    GenMap.shift.announced xs n v = xs.length := by
  simp only [GenMap.shift.announced]; split_ifs <;> rfl

theorem vshift_trusted (xs : List (Option Rat)) (n : Int) (v : Option (Option Rat)) :
    (GenMap.vshift.run xs n v).length = GenMap.vshift.announced xs n v := by
  simp only [GenMap.vshift.run, GenMap.vshift.announced]
  split_ifs <;> simp at * <;> omega
theorem vshift_announced (xs : List (Option Rat)) (n : Int) (v : Option (Option Rat)) :
    GenMap.vshift.announced xs n v = xs.length := by
  simp only [GenMap.vshift.announced]; split_ifs <;> rfl

theorem vdiff_trusted (xs : List (Option Rat)) (n : Int) (v : Option (Option Rat)) :
    (GenMap.vdiff.run xs n v).length = GenMap.vdiff.announced xs n v := by
  simp only [GenMap.vdiff.run, GenMap.vdiff.announced]
  split_ifs <;> simp at * <;> omega
theorem vdiff_announced (xs : List (Option Rat)) (n : Int) (v : Option (Option Rat)) :
    GenMap.vdiff.announced xs n v = xs.length := by
  simp only [GenMap.vdiff.announced]; split_ifs <;> rfl

theorem vpct_change_trusted (xs : List (Option Rat)) (n : Int) :
    (GenMap.vpct_change.run xs n).length = GenMap.vpct_change.announced xs n := by
  simp only [GenMap.vpct_change.run, GenMap.vpct_change.announced]
  split_ifs <;> simp at * <;> omega
theorem vpct_change_announced (xs : List (Option Rat)) (n : Int) :
    GenMap.vpct_change.announced xs n = xs.length := by
  simp only [GenMap.vpct_change.announced]; split_ifs <;> rfl

theorem vclip_trusted (xs : List (Option Rat)) (lo hi : Option Rat) :
    (GenMap.vclip.run xs lo hi).length = GenMap.vclip.announced xs lo hi := by
  rw [C13Gen.vclip_eq]
  simp only [GenMap.vclip.announced, C13.vclip]
  cases lo <;> cases hi <;> simp
theorem vclip_announced (xs : List (Option Rat)) (lo hi : Option Rat) :
    GenMap.vclip.announced xs lo hi = xs.length := by
  simp only [GenMap.vclip.announced]
  cases lo <;> cases hi <;> simp

theorem fill_mask_trusted (xs : List (Option Rat)) (m : Option Rat → Bool) (v : Option Rat) :
    (GenMap.fill_mask.run xs m v).length = GenMap.fill_mask.announced xs m v := by
  simp [GenMap.fill_mask.run, GenMap.fill_mask.announced]
theorem fill_trusted (xs : List (Option Rat)) (v : Option Rat) :
    (GenMap.fill.run xs v).length = GenMap.fill.announced xs v := by
  simp [GenMap.fill.run, GenMap.fill.announced, fill_mask_trusted]
theorem ffill_mask_trusted (xs : List (Option Rat)) (m : Option Rat → Bool) (v : Option (Option Rat)) :
    (GenMap.ffill_mask.run xs m v).length = GenMap.ffill_mask.announced xs m v := by
  simp [GenMap.ffill_mask.run, GenMap.ffill_mask.announced, mapSt_length]
theorem ffill_trusted (xs : List (Option Rat)) (v : Option (Option Rat)) :
    (GenMap.ffill.run xs v).length = GenMap.ffill.announced xs v := by
  simp [GenMap.ffill.run, GenMap.ffill.announced, ffill_mask_trusted]
theorem bfill_mask_trusted (xs : List (Option Rat)) (m : Option Rat → Bool) (v : Option (Option Rat)) :
    (GenMap.bfill_mask.run xs m v).length = GenMap.bfill_mask.announced xs m v := by
  simp [GenMap.bfill_mask.run, GenMap.bfill_mask.announced]
theorem bfill_mask_announced (xs : List (Option Rat)) (m : Option Rat → Bool) (v : Option (Option Rat)) :
    GenMap.bfill_mask.announced xs m v = xs.length := by
  simp [GenMap.bfill_mask.announced, mapSt_length]
theorem bfill_trusted (xs : List (Option Rat)) (v : Option (Option Rat)) :
    (GenMap.bfill.run xs v).length = GenMap.bfill.announced xs v := by
  simp [GenMap.bfill.run, GenMap.bfill.announced, bfill_mask_trusted]
theorem abs_trusted (xs : List (Option Rat)) : (GenMap.abs.run xs).length = GenMap.abs.announced xs := by
  simp [GenMap.abs.run, GenMap.abs.announced]
theorem vabs_trusted (xs : List (Option Rat)) : (GenMap.vabs.run xs).length = GenMap.vabs.announced xs := by
  simp [GenMap.vabs.run, GenMap.vabs.announced]

/-- `vcut`: the call fails exactly when no length is announced, and otherwise yields what it announces -/
theorem vcut_trusted (xs : List (Option Rat)) (MIN MAX : Rat) (bins : List Rat) (labels : List (Option Rat))
    (right ab : Bool) :
    (GenMap.vcut.run xs MIN MAX bins labels right ab).map List.length
      = GenMap.vcut.announced xs MIN MAX bins labels right ab := by
  simp only [GenMap.vcut.run, GenMap.vcut.announced]
  cases ab <;> cases right <;> simp <;> split_ifs <;> simp

theorem announced_present :
    GenMap.shift.announcedParsed = true ∧ GenMap.vshift.announcedParsed = true ∧ GenMap.vdiff.announcedParsed = true ∧
    GenMap.vpct_change.announcedParsed = true ∧ GenMap.vclip.announcedParsed = true ∧
    GenMap.fill_mask.announcedParsed = true ∧ GenMap.fill.announcedParsed = true ∧
    GenMap.ffill_mask.announcedParsed = true ∧ GenMap.ffill.announcedParsed = true ∧
    GenMap.bfill_mask.announcedParsed = true ∧ GenMap.bfill.announcedParsed = true ∧
    GenMap.abs.announcedParsed = true ∧ GenMap.vabs.announcedParsed = true ∧ GenMap.vcut.announcedParsed = true := by
  decide
end Tv.C09Gen
