import Tv.Lemmas.Driver
import Tv.Lemmas.Window
/-!
# C02 — rolling drivers call back once per position with exactly the right window

Property theorems only (helper lemmas live in `Tv/Lemmas`). `Shape.to` is the two-phase
`*_to` loop used by Vec / array / slice / ndarray and by every caller-buffer path;
`Shape.iter` is the default iterator body used by VecDeque, Polars and the option view.
-/
namespace Tv.C02
open Tv

/-- the window size a shape effectively slides: `*_to` clamps it to the length -/
def effW : Shape → Nat → Nat → Nat
  | .to, w, len => min w len
  | .iter, w, _ => w

/-- **once per position, increasing order, with the start index `i-w+1` once `i ≥ w-1`**:
the `(start?, end)` sequence of either shape is `i ↦ (startAt W i, i)` over `0..len`. -/
theorem idx_spec (sh : Shape) (len w : Nat) (hw : 1 ≤ w) :
    sh.idx len w = (List.range len).map (fun i => (startAt (effW sh w len) i, i)) := by
  cases sh
  · exact toIdx_eq len w hw
  · exact iterIdx_eq len w hw

/-- every output slot `0..len` is written exactly once, in increasing order -/
theorem writes_eq_range (sh : Shape) (len w : Nat) (hw : 1 ≤ w) :
    writes sh len w = List.range len := by
  unfold writes
  rw [idx_spec sh len w hw, List.map_map]
  simp [Function.comp_def]

/-- the start reported at position `i` is the specified one (`i-w+1` when `i ≥ w-1`, nothing
when `i < min(w,len)-1`), except possibly at the final position when `w > len` -/
theorem start_spec (sh : Shape) (len w i : Nat) (hi : i < len) (h : w ≤ len ∨ i + 1 < len) :
    startAt (effW sh w len) i = startAt w i := by
  cases sh
  · exact startAt_clamp len w i h
  · rfl

theorem start_none_in_warmup (sh : Shape) (len w i : Nat) (h : i < min w len - 1) :
    startAt (effW sh w len) i = none := by
  cases sh <;> simp [effW, startAt] <;> omega

/-- `rolling_apply(_to)`: callback arguments are `(element at window start?, element i)` -/
theorem applyCalls_spec (sh : Shape) (xs : List α) (w : Nat) (hw : 1 ≤ w) :
    applyCalls sh xs w = callsFrom xs (effW sh w xs.length) 0 xs.length := by
  unfold applyCalls callsFrom
  rw [idx_spec sh _ w hw, List.filterMap_map, ← List.range_eq_range']
  apply filterMap_congr'
  intro i hi
  have hi' : i < xs.length := by simpa using hi
  simp only [Function.comp_def, List.getElem?_eq_getElem hi', Option.map_some]
  congr 2
  unfold startAt callAt
  split <;> simp

theorem applyCalls_length (sh : Shape) (xs : List α) (w : Nat) (hw : 1 ≤ w) :
    (applyCalls sh xs w).length = xs.length := by
  rw [applyCalls_spec sh xs w hw]
  unfold callsFrom
  rw [← List.range_eq_range']
  have : ∀ l : List Nat, (∀ i ∈ l, i < xs.length) →
      (l.filterMap (fun i => xs[i]?.map (fun v => (callAt xs (effW sh w xs.length) i, v)))).length = l.length := by
    intro l
    induction l with
    | nil => simp
    | cons a l ih =>
      intro h
      have ha : a < xs.length := h a (by simp)
      simp only [List.filterMap_cons, List.getElem?_eq_getElem ha, Option.map_some, List.length_cons]
      rw [ih (fun i hi => h i (by simp [hi]))]
  exact (this _ (by intro i hi; simpa using hi)).trans (by simp)

/-- `rolling_apply_idx(_to)`: `(start?, i, element i)` -/
theorem idxCalls_spec (sh : Shape) (xs : List α) (w : Nat) (hw : 1 ≤ w) :
    idxCalls sh xs w =
      (List.range xs.length).filterMap (fun i => xs[i]?.map fun v => (startAt (effW sh w xs.length) i, i, v)) := by
  unfold idxCalls
  rw [idx_spec sh _ w hw, List.filterMap_map]
  rfl

/-- the slice drivers (`rolling_custom`, `rolling_custom_to`, `rolling_custom_iter`) pass
exactly the sub-sequence `max(0,i-w+1) ..= i` -/
theorem customCalls_spec (sh : Shape) (xs : List α) (w : Nat) (hw : 1 ≤ w) :
    customCalls sh xs w = (List.range xs.length).map (fun i => window xs i w) := by
  unfold customCalls
  rw [idx_spec sh _ w hw, List.map_map]
  apply List.map_congr_left
  intro i hi
  have hi' : i < xs.length := by simpa using hi
  have hW : window xs i (effW sh w xs.length) = window xs i w := by
    cases sh
    · exact window_clamp xs i w hi'
    · rfl
  rw [← hW]
  simp only [Function.comp_def, window, startAt, List.extract_eq_take_drop]
  have hW1 : 1 ≤ effW sh w xs.length := by cases sh <;> simp [effW] <;> omega
  split
  · rename_i h
    simp only [Option.getD_some]
    have e1 : i + 1 - effW sh w xs.length = i - (effW sh w xs.length - 1) := by omega
    rw [e1, List.drop_take]
  · rename_i h
    simp only [Option.getD_none]
    have e1 : i + 1 - effW sh w xs.length = 0 := by omega
    rw [e1]
    simp

/-- two-series slice driver: the same window of each series -/
theorem custom2Calls_spec (sh : Shape) (xs : List α) (ys : List β) (w : Nat) (hw : 1 ≤ w)
    (hlen : ys.length = xs.length) :
    custom2Calls sh xs ys w = (List.range xs.length).map (fun i => (window xs i w, window ys i w)) := by
  have h1 := customCalls_spec sh xs w hw
  have h2 := customCalls_spec sh ys w hw
  unfold customCalls at h1 h2
  unfold custom2Calls
  rw [hlen] at h2
  have hl : (sh.idx xs.length w).length = xs.length := by simp [idx_spec sh _ w hw]
  apply List.ext_getElem
  · simp [hl]
  · intro n hn1 hn2
    have a1 := congrArg (fun l => l[n]?) h1
    have a2 := congrArg (fun l => l[n]?) h2
    simp only [List.getElem?_map] at a1 a2
    have hn : n < (sh.idx xs.length w).length := by simpa using hn1
    have hn' : n < xs.length := by simpa using hn2
    simp only [List.getElem?_eq_getElem hn, Option.map_some, List.getElem?_range hn'] at a1 a2
    simp only [List.getElem_map, List.getElem_range]
    injection a1 with a1
    injection a2 with a2
    rw [← a1, ← a2]

/-- every unchecked element read of the `*_to` loops is in bounds (also used by C10) -/
theorem reads_in_bounds (sh : Shape) (len w : Nat) (hw : 1 ≤ w) :
    ∀ i ∈ reads sh len w, i < len := by
  intro i hi
  unfold reads at hi
  rw [idx_spec sh len w hw] at hi
  simp only [List.mem_flatMap, List.mem_map, List.mem_range] at hi
  obtain ⟨⟨s, e⟩, ⟨j, hj, hje⟩, hmem⟩ := hi
  injection hje with h1 h2
  subst h2
  simp only [List.mem_append, Option.mem_toList, List.mem_singleton] at hmem
  rcases hmem with h | h
  · rw [← h1] at h
    unfold startAt at h
    split at h
    · injection h with h; omega
    · cases h
  · omega

/-- a stateful callback therefore sees the positions in increasing order and its `k`-th
result lands in slot `k`: for any state-passing callback the produced output is the
left-to-right `mapAccum` over the specified call list. -/
theorem stateful_output (sh : Shape) (xs : List α) (w : Nat) (hw : 1 ≤ w)
    (f : σ → (Option α × α) → σ × β) (s0 : σ) :
    runSt f s0 (applyCalls sh xs w) = runSt f s0 (callsFrom xs (effW sh w xs.length) 0 xs.length) := by
  rw [applyCalls_spec sh xs w hw]

/-! non-vacuity: a concrete series, both shapes, window shorter and longer than the series -/
example : applyCalls .to [10, 11, 12, 13] 3 = [(none, 10), (none, 11), (some 10, 12), (some 11, 13)] := by decide
example : applyCalls .iter [10, 11, 12, 13] 3 = [(none, 10), (none, 11), (some 10, 12), (some 11, 13)] := by decide
example : applyCalls .to [10, 11] 5 = [(none, 10), (some 10, 11)] := by decide
example : applyCalls .iter [10, 11] 5 = [(none, 10), (none, 11)] := by decide
example : customCalls .to [10, 11, 12] 2 = [[10], [10, 11], [11, 12]] := by decide

end Tv.C02
