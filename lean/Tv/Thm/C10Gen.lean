import Tv.Thm.C02Gen
/-!
# C10 — the regenerated rolling drivers write every slot exactly once and read in bounds

For the five two-phase drivers regenerated from view.rs (`GenDrv`, see `C02Gen`): whenever the
driver does not reject its arguments, the positions it writes are exactly `0, 1, …, len-1`, each
once and in this order, and every unchecked read (`uget` index, `uslice` bounds) lies inside the
series — for every length and every window `≥ 1`.
-/
set_option linter.unusedSimpArgs false
namespace Tv.C10Gen
open Tv

theorem startAt_lt (W i s : Nat) (h : startAt W i = some s) : s ≤ i := by
  simp only [startAt] at h
  split at h
  · injection h with h; omega
  · cases h

theorem rolling_apply_to_safe (len w : Nat) (hw : 1 ≤ w) :
    ∃ log, GenDrv.rolling_apply_to.run len w = some log ∧ log.map (·.1) = List.range len ∧
      (∀ ev ∈ log, ev.2.2 < len ∧ ∀ s, ev.2.1 = some s → s < len) :=
  C02Gen.rolling_apply_to_safe len w hw

theorem rolling2_apply_to_safe (len len2 w : Nat) (hw : 1 ≤ w) (h2 : len ≤ len2) :
    ∃ log, GenDrv.rolling2_apply_to.run len len2 w = some log ∧ log.map (·.1) = List.range len ∧
      (∀ ev ∈ log, ev.2.2.1 < len ∧ ev.2.2.2 < len2 ∧ ∀ p, ev.2.1 = some p → p.1 < len ∧ p.2 < len2) := by
  refine ⟨_, C02Gen.rolling2_apply_to_eq len len2 w (Or.inl hw) h2, ?_, ?_⟩
  · rw [toIdx_eq len w hw]; simp [List.map_map, Function.comp_def]
  · rw [toIdx_eq len w hw]
    intro ev hev
    simp only [List.map_map, List.mem_map, List.mem_range, Function.comp_def] at hev
    obtain ⟨i, hi, rfl⟩ := hev
    refine ⟨hi, by simp only []; omega, ?_⟩
    intro p hp
    simp only [Option.map_eq_some_iff] at hp
    obtain ⟨s, hs, rfl⟩ := hp
    have := startAt_lt _ _ _ hs
    exact ⟨by simp only []; omega, by simp only []; omega⟩

theorem rolling_apply_idx_to_safe (len w : Nat) (hw : 1 ≤ w) :
    ∃ log, GenDrv.rolling_apply_idx_to.run len w = some log ∧ log.map (·.1) = List.range len ∧
      (∀ ev ∈ log, ev.2.2.2 < len) := by
  refine ⟨_, C02Gen.rolling_apply_idx_to_eq len w (Or.inl hw), ?_, ?_⟩
  · rw [toIdx_eq len w hw]; simp [List.map_map, Function.comp_def]
  · rw [toIdx_eq len w hw]
    intro ev hev
    simp only [List.map_map, List.mem_map, List.mem_range, Function.comp_def] at hev
    obtain ⟨i, hi, rfl⟩ := hev
    exact hi

theorem rolling2_apply_idx_to_safe (len len2 w : Nat) (hw : 1 ≤ w) (h2 : len ≤ len2) :
    ∃ log, GenDrv.rolling2_apply_idx_to.run len len2 w = some log ∧ log.map (·.1) = List.range len ∧
      (∀ ev ∈ log, ev.2.2.2.1 < len ∧ ev.2.2.2.2 < len2) := by
  refine ⟨_, C02Gen.rolling2_apply_idx_to_eq len len2 w (Or.inl hw) h2, ?_, ?_⟩
  · rw [toIdx_eq len w hw]; simp [List.map_map, Function.comp_def]
  · rw [toIdx_eq len w hw]
    intro ev hev
    simp only [List.map_map, List.mem_map, List.mem_range, Function.comp_def] at hev
    obtain ⟨i, hi, rfl⟩ := hev
    exact ⟨hi, by simp only []; omega⟩

/-- the slice handed to a `rolling_custom` closure is non-empty and inside the series -/
theorem rolling_custom_to_safe (len w : Nat) (hw : 1 ≤ w) :
    ∃ log, GenDrv.rolling_custom_to.run len w = some log ∧ log.map (·.1) = List.range len ∧
      (∀ ev ∈ log, ev.2.1 < ev.2.2 ∧ ev.2.2 ≤ len) := by
  refine ⟨_, C02Gen.rolling_custom_to_eq len w (Or.inl hw), ?_, ?_⟩
  · rw [toIdx_eq len w hw]; simp [List.map_map, Function.comp_def]
  · rw [toIdx_eq len w hw]
    intro ev hev
    simp only [List.map_map, List.mem_map, List.mem_range, Function.comp_def] at hev
    obtain ⟨i, hi, rfl⟩ := hev
    simp only []
    cases hs : startAt (min w len) i with
    | none => simp; omega
    | some s =>
      have := startAt_lt _ _ _ hs
      simp; omega

end Tv.C10Gen
