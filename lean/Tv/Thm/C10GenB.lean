import Tv.GenRank
import Tv.Thm.C12GenB
set_option linter.unusedSimpArgs false
set_option linter.unusedVariables false
/-!
# C10 — the ranking kernel regenerated from source never indexes out of bounds

`Tv.GenRank.vrank.trace` (translator/ranks.py, instrumented variant) is the body of `vrank`
statement by statement with every unchecked access — `self.uget(i)`, `idx_sorted.uget(i)`,
`out.uset(i, v)`: 29 sites — logged as `(index, length of the container)` in execution order, and
with the `usize` subtractions inside the loops (`i - j`) read as a release build computes them
(`Gen.wsub`: wrapping modulo 2^64). `trace_in_bounds` proves, for every series, `pct`, `rev` and
every sort satisfying std's contract (`S.Ok`: the argsort is a permutation of `0..len`), that every
logged index is below the length of the container it is applied to: the loop bounds `0..len-1`,
`idx..len`, `len - repeat_num..len`, the look-ahead `i + 1`, the back-references `i - j`
(`repeat_num ≤ i + 1` is the loop invariant that keeps them from wrapping) and the positions taken
from the argsort are all in range, however long the history of ties and nulls.
-/
namespace Tv.C10GenB
open Tv Tv.C12 Tv.Gen Tv.C12GenB

/-- every logged access is in range -/
def Good (l : List (Nat × Nat)) : Prop := ∀ e ∈ l, e.1 < e.2

theorem good_nil : Good [] := by intro e h; cases h

theorem good_snoc (l : List (Nat × Nat)) (i n : Nat) : Good (l ++ [(i, n)]) ↔ Good l ∧ i < n := by
  unfold Good
  constructor
  · intro h
    exact ⟨fun e he => h e (List.mem_append_left _ he), h (i, n) (by simp)⟩
  · rintro ⟨h1, h2⟩ e he
    rcases List.mem_append.mp he with he | he
    · exact h1 e he
    · simp at he; subst he; exact h2

theorem wsub_le (a b : Nat) (h : b ≤ a) : wsub a b = a - b := by simp [wsub, h]

/-- invariant reasoning for `forBreak` over a range: the body moves the invariant from `i` to
`i + 1`; the loop ends (by exhaustion or `break`) with the invariant at some `k ≤ a + n` -/
theorem forBreak_inv {σ : Type} (Inv : σ → Nat → Prop) (body : σ → Nat → σ × Bool) :
    ∀ (n a : Nat) (s : σ), Inv s a →
      (∀ st i, a ≤ i → i < a + n → Inv st i → Inv (body st i).1 (i + 1)) →
      ∃ k, a ≤ k ∧ k ≤ a + n ∧ Inv (forBreak (List.range' a n) body s) k := by
  intro n
  induction n with
  | zero => intro a s h _; exact ⟨a, Nat.le_refl _, Nat.le_refl _, h⟩
  | succ n ih =>
    intro a s h hstep
    rw [List.range'_succ, forBreak_cons]
    have h1 := hstep s a (Nat.le_refl _) (by omega) h
    cases hb : (body s a).2
    · simp only [Bool.false_eq_true, if_false]
      obtain ⟨k, hk1, hk2, hk3⟩ := ih (a + 1) (body s a).1 h1
        (fun st i hi1 hi2 hinv => hstep st i (by omega) (by omega) hinv)
      exact ⟨k, by omega, by omega, hk3⟩
    · simp only [if_true]
      exact ⟨a + 1, by omega, by omega, h1⟩

/-- … with the loop given by an equation (the generated lambda is found by unification) -/
theorem loop_inv {σ : Type} {body : σ → Nat → σ × Bool} {n a : Nat} {s w : σ}
    (hw : forBreak (List.range' a n) body s = w) (Inv : σ → Nat → Prop) (h0 : Inv s a)
    (hstep : ∀ st i, a ≤ i → i < a + n → Inv st i → Inv (body st i).1 (i + 1)) :
    ∃ k, a ≤ k ∧ k ≤ a + n ∧ Inv w k := by
  rw [← hw]; exact forBreak_inv Inv body n a s h0 hstep

/-- a write loop `for i in a..a+n { out.uset(idx_sorted.uget(g i), v) }` with `g i < len` -/
theorem write_loop (s : List Nat) (len : Nat) (hs : s.length = len) (hsv : ∀ k, s.getD k 0 < len)
    (g : Nat → Nat) (v : Option Rat)
    {G : List (Nat × Nat) × List (Option (Option Rat)) → Nat → (List (Nat × Nat) × List (Option (Option Rat))) × Bool}
    {n a : Nat} {l : List (Nat × Nat)} {o : List (Option (Option Rat))}
    {w : List (Nat × Nat) × List (Option (Option Rat))}
    (hw : forBreak (List.range' a n) G (l, o) = w)
    (hG : ∀ l o j, G (l, o) j =
      (((l ++ [(g j, s.length)]) ++ [(s.getD (g j) 0, o.length)], o.set (s.getD (g j) 0) (some v)), false))
    (hg : ∀ j, a ≤ j → j < a + n → g j < len) (hl : Good l) (ho : o.length = len) :
    Good w.1 ∧ w.2.length = len := by
  obtain ⟨k, _, _, hk⟩ := loop_inv hw (fun st _ => Good st.1 ∧ st.2.length = len) ⟨hl, ho⟩
    (by
      rintro ⟨l', o'⟩ j hj1 hj2 ⟨h1, h2⟩
      rw [hG]
      simp only [good_snoc, List.length_set]
      exact ⟨⟨⟨h1, by rw [hs]; exact hg j hj1 hj2⟩, by rw [h2]; exact hsv _⟩, h2⟩)
  exact hk

theorem perm_range_facts {s : List Nat} {len : Nat} (hp : s.Perm (List.range len)) (hlen : 0 < len) :
    s.length = len ∧ ∀ k, s.getD k 0 < len := by
  refine ⟨by simpa using hp.length_eq, ?_⟩
  intro k
  rw [List.getD_eq_getElem?_getD]
  cases h : s[k]? with
  | none => simpa using hlen
  | some v =>
    have : v ∈ s := List.mem_of_getElem? h
    have := (hp.mem_iff).mp this
    simpa using this

theorem trace_in_bounds {S : Std} (hS : S.Ok) (xs : List (Option Rat)) (pct rev : Bool) :
    Good (GenRank.vrank.trace S xs pct rev) := by
  unfold GenRank.vrank.trace
  simp only []
  by_cases h0 : xs.length = 0
  · simp [h0, good_nil]
  · by_cases h1 : xs.length = 1
    · simp only [h0, h1, decide_false, decide_true, Bool.false_eq_true, if_false, if_true]
      split <;> simp [Good, h1]
    · simp only [h0, h1, decide_false, Bool.false_eq_true, if_false]
      have hlen : 1 ≤ xs.length := by omega
      have hlen2 : 2 ≤ xs.length := by omega
      cases rev <;> simp only [Bool.not_true, Bool.not_false, if_true, if_false, Bool.false_eq_true]
      all_goals
        generalize hsd : S.sort (leIdx _ xs) (List.range xs.length) = s
        have hperm : s.Perm (List.range xs.length) := hsd ▸ hS.sort_perm _ _
        obtain ⟨hs, hsv⟩ := perm_range_facts hperm (by omega)
        by_cases hn : (xs.getD (s.getD 0 0) none).isNone = true
        · simp only [hn, if_true]
          simp only [good_snoc, hs]
          exact ⟨⟨good_nil, by omega⟩, hsv _⟩
        · simp only [hn, if_false, Bool.false_eq_true]
          have hg0 : Good ([] ++ [(0, s.length)] ++ [(s.getD 0 0, xs.length)]) := by
            simp only [good_snoc, hs]
            exact ⟨⟨good_nil, by omega⟩, hsv _⟩
          cases pct <;> simp only [Bool.not_false, Bool.not_true, if_true, if_false, Bool.false_eq_true, hlen, decide_true]
          all_goals
            generalize hw : forBreak (List.range' 0 (xs.length - 1 - 0)) _
              (_, List.replicate xs.length (none : Option (Option Rat)), 1, false, 1, 0, 0) = w
            obtain ⟨k, _, hk, hgw, how, hrw⟩ := loop_inv hw
              (fun st i => Good st.1 ∧ st.2.1.length = xs.length ∧ st.2.2.1 ≤ i + 1)
              ⟨hg0, by simp, by simp⟩
              (by
                rintro ⟨l, o, rep, nan, cur, sum, idx⟩ i _ hi ⟨hg, ho, hr⟩
                simp only [] at hg ho hr ⊢
                have hi' : i + 1 < xs.length := by omega
                have hg4 : Good (l ++ [(i, s.length)] ++ [(i + 1, s.length)] ++ [(s.getD i 0, xs.length)] ++
                    [(s.getD (i + 1) 0, xs.length)]) := by
                  simp only [good_snoc, hs]
                  exact ⟨⟨⟨⟨hg, by omega⟩, hi'⟩, hsv _⟩, hsv _⟩
                have hgj : ∀ j, 0 ≤ j → j < 0 + (rep - 0) → (fun j => wsub i j) j < xs.length := by
                  intro j _ hj
                  simp only []
                  rw [wsub_le i j (by omega)]
                  omega
                by_cases c1 : (xs.getD (s.getD (i + 1) 0) none).isNone = true
                · simp only [c1, if_true]
                  generalize hwi : forBreak (List.range' 0 (rep - 0)) _ (_, o) = wi
                  have := write_loop s xs.length hs hsv (fun j => wsub i j) _ hwi (by intro l o j; rfl) hgj hg4 ho
                  exact ⟨this.1, this.2, by omega⟩
                · simp only [c1, if_false, Bool.false_eq_true]
                  cases c2 : decide (xs.getD (s.getD i 0) none = xs.getD (s.getD (i + 1) 0) none)
                  · simp only [Bool.false_eq_true, if_false]
                    cases c3 : decide (rep = 1)
                    · simp only [Bool.false_eq_true, if_false]
                      generalize hwi : forBreak (List.range' 0 (rep - 0)) _ (_, o) = wi
                      have := write_loop s xs.length hs hsv (fun j => wsub i j) _ hwi (by intro l o j; rfl) hgj hg4 ho
                      exact ⟨this.1, this.2, by omega⟩
                    · simp only [if_true]
                      refine ⟨(good_snoc _ _ _).mpr ⟨hg4, by rw [ho]; exact hsv _⟩, ?_, by omega⟩
                      simp only [List.length_set]; exact ho
                  · simp only [if_true]
                    exact ⟨hg4, ho, by omega⟩)
            by_cases hnan : w.2.2.2.1 = true
            · simp only [hnan, if_true]
              generalize hwf : forBreak (List.range' w.2.2.2.2.2.2 (xs.length - w.2.2.2.2.2.2)) _ (w.1, w.2.1) = wf
              exact (write_loop s xs.length hs hsv (fun j => j) _ hwf (by intro l o j; rfl)
                (by intro j h1 h2; show j < xs.length; omega) hgw how).1
            · simp only [hnan, if_false, Bool.false_eq_true]
              have hr : w.2.2.1 ≤ xs.length := by omega
              simp only [hr, decide_true, if_true]
              generalize hwf : forBreak (List.range' (xs.length - w.2.2.1) (xs.length - (xs.length - w.2.2.1))) _ (w.1, w.2.1) = wf
              exact (write_loop s xs.length hs hsv (fun j => j) _ hwf (by intro l o j; rfl)
                (by intro j h1 h2; show j < xs.length; omega) hgw how).1

/-- the instrumented variant has the 29 access sites of the source (an added or removed unchecked
access changes this number) -/
theorem trace_present : GenRank.vrank.accessSites = 29 ∧ GenRank.vrank.parsed = true := ⟨rfl, rfl⟩

/-- non-vacuity: a series with ties, a null and both flags — 39 accesses, all in range -/
example : (GenRank.vrank.trace Std.exec [some 3, some 1, some 3, none, some 2, some 1, some 1] true true).length = 39 := by
  decide +kernel

end Tv.C10GenB
