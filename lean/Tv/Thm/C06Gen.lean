import Tv.Thm.C06
import Tv.Thm.C01Gen
import Tv.Thm.C03Gen
import Tv.Thm.C04Gen
set_option linter.unusedVariables false
/-!
# C06 — no look-ahead and window locality of the closures regenerated from source

`Tv/Thm/C06.lean` proves the two clauses for the hand-written model. Here they are proved for the
step functions that `translator/closures.py` regenerates from tea-rolling on every run: the
regenerated closure, driven over the callbacks of either driver shape, was shown (C01Gen, C03Gen,
C04Gen) to produce at every position a value that `Agree`s with a function of that position's
window alone. Hence

* run on a prefix it produces values agreeing with the *prefix of the whole series' windowed
  statistics* (`*_gen_prefix`): nothing to the right of the cursor is read, and
* on two equally long series that coincide on the window of position `i`, both runs agree at `i`
  with one and the same windowed statistic (`*_gen_prewindow`).

An edit of a closure that makes an accumulator depend on anything but the current window breaks
the `*_exact` theorem these are instances of, and with it this module.
-/
namespace Tv.C06Gen
open Tv Tv.GenSim
open Tv.C03Gen (genRunIdx)

/-- generic: a run that agrees position by position with `i ↦ F (window xs i w)` for every series,
evaluated on a prefix, agrees with the prefix of the windowed statistics of the whole series -/
theorem prefix_of_agree {β γ : Type} (R : β → γ → Prop) (G : List (Option Rat) → List β)
    (F : List (Option Rat) → γ) (w : Nat)
    (hG : ∀ xs, List.Forall₂ R (G xs) ((List.range xs.length).map fun i => F (window xs i w)))
    (xs : List (Option Rat)) (k : Nat) :
    List.Forall₂ R (G (xs.take k)) (((List.range xs.length).map fun i => F (window xs i w)).take k) := by
  rw [← windowed_prefix F xs w k]
  exact hG _

/-- generic: … and on two equally long series that coincide on the window of `i`, the outputs at
`i` of the two runs agree with the same value `F (window xs i w)` -/
theorem local_of_agree {β γ : Type} (R : β → γ → Prop) (G : List (Option Rat) → List β)
    (F : List (Option Rat) → γ) (w : Nat)
    (hG : ∀ xs, List.Forall₂ R (G xs) ((List.range xs.length).map fun i => F (window xs i w)))
    (xs ys : List (Option Rat)) (hlen : xs.length = ys.length) (i : Nat) (hi : i < xs.length)
    (h : ∀ j, i + 1 - w ≤ j → j ≤ i → xs[j]? = ys[j]?) :
    ∃ a b, (G xs)[i]? = some a ∧ (G ys)[i]? = some b ∧ R a (F (window xs i w)) ∧ R b (F (window xs i w)) := by
  have hx := hG xs
  have hy := hG ys
  have lx : (G xs).length = xs.length := by simpa using hx.length_eq
  have ly : (G ys).length = ys.length := by simpa using hy.length_eq
  have hix : i < (G xs).length := by omega
  have hiy : i < (G ys).length := by omega
  refine ⟨(G xs)[i], (G ys)[i], List.getElem?_eq_getElem hix, List.getElem?_eq_getElem hiy, ?_, ?_⟩
  · have := List.forall₂_iff_get.mp hx |>.2 i hix (by simpa using hi)
    simpa using this
  · have := List.forall₂_iff_get.mp hy |>.2 i hiy (by simpa using (hlen ▸ hi))
    rw [window_congr xs ys i w h]
    simpa using this

/-! ## feature family (features.rs), regenerated -/

theorem ts_vsum_gen_prefix (sqrt : Rat → Rat) (sh : Shape) (xs : List (Option Rat)) (w : Nat) (mp : Option Nat)
    (hw : 1 ≤ w) (k : Nat) :
    List.Forall₂ (Agree sqrt)
      (genRun (Gen.ts_vsum.step sqrt w (Gen.ts_vsum.minPeriods w mp)) (Gen.ts_vsum.init w) (applyCalls sh (xs.take k) w))
      (((List.range xs.length).map fun i => Spec.feat .sum w mp (vwin xs i w)).take k) :=
  prefix_of_agree (Agree sqrt) _ (fun l => Spec.feat .sum w mp (valid l)) w
    (fun zs => C01Gen.ts_vsum_exact sqrt sh zs w mp hw) xs k

theorem ts_vstd_gen_prefix (sqrt : Rat → Rat) (sh : Shape) (xs : List (Option Rat)) (w : Nat) (mp : Option Nat)
    (hw : 1 ≤ w) (k : Nat) :
    List.Forall₂ (Agree sqrt)
      (genRun (Gen.ts_vstd.step sqrt w (Gen.ts_vstd.minPeriods w mp)) (Gen.ts_vstd.init w) (applyCalls sh (xs.take k) w))
      (((List.range xs.length).map fun i => Spec.feat .std w mp (vwin xs i w)).take k) :=
  prefix_of_agree (Agree sqrt) _ (fun l => Spec.feat .std w mp (valid l)) w
    (fun zs => C01Gen.ts_vstd_exact sqrt sh zs w mp hw) xs k

theorem ts_vsum_gen_prewindow (sqrt : Rat → Rat) (sh : Shape) (xs ys : List (Option Rat)) (w : Nat) (mp : Option Nat)
    (hw : 1 ≤ w) (hlen : xs.length = ys.length) (i : Nat) (hi : i < xs.length)
    (h : ∀ j, i + 1 - w ≤ j → j ≤ i → xs[j]? = ys[j]?) :
    ∃ a b,
      (genRun (Gen.ts_vsum.step sqrt w (Gen.ts_vsum.minPeriods w mp)) (Gen.ts_vsum.init w) (applyCalls sh xs w))[i]? = some a ∧
      (genRun (Gen.ts_vsum.step sqrt w (Gen.ts_vsum.minPeriods w mp)) (Gen.ts_vsum.init w) (applyCalls sh ys w))[i]? = some b ∧
      Agree sqrt a (Spec.feat .sum w mp (vwin xs i w)) ∧ Agree sqrt b (Spec.feat .sum w mp (vwin xs i w)) :=
  local_of_agree (Agree sqrt) _ (fun l => Spec.feat .sum w mp (valid l)) w
    (fun zs => C01Gen.ts_vsum_exact sqrt sh zs w mp hw) xs ys hlen i hi h

/-! ## extrema / arg-extrema / rank (cmp.rs), regenerated: explicit `min_periods` -/

theorem ts_vmin_gen_prefix (sqrt : Rat → Rat) (sh : Shape) (xs : List (Option Rat)) (w m : Nat) (hw : 1 ≤ w) (k : Nat) :
    List.Forall₂ (Agree sqrt)
      (genRunIdx (Gen.ts_vmin.step sqrt (xs.take k) (xs.take k).length w (Gen.ts_vmin.minPeriods (xs.take k).length w (some m)))
        (Gen.ts_vmin.init (xs.take k).length w) (idxCalls sh (xs.take k) (Gen.ts_vmin.effWindow (xs.take k).length w)))
      (((List.range xs.length).map fun i => C03.Spec.tsMin m (window xs i w)).take k) :=
  prefix_of_agree (Agree sqrt) _ (C03.Spec.tsMin m) w
    (fun zs => C03Gen.ts_vmin_exact sqrt sh zs w (some m) hw) xs k

theorem ts_vmax_gen_prefix (sqrt : Rat → Rat) (sh : Shape) (xs : List (Option Rat)) (w m : Nat) (hw : 1 ≤ w) (k : Nat) :
    List.Forall₂ (Agree sqrt)
      (genRunIdx (Gen.ts_vmax.step sqrt (xs.take k) (xs.take k).length w (Gen.ts_vmax.minPeriods (xs.take k).length w (some m)))
        (Gen.ts_vmax.init (xs.take k).length w) (idxCalls sh (xs.take k) (Gen.ts_vmax.effWindow (xs.take k).length w)))
      (((List.range xs.length).map fun i => C03.Spec.tsMax m (window xs i w)).take k) :=
  prefix_of_agree (Agree sqrt) _ (C03.Spec.tsMax m) w
    (fun zs => C03Gen.ts_vmax_exact sqrt sh zs w (some m) hw) xs k

theorem ts_vargmin_gen_prefix (sqrt : Rat → Rat) (sh : Shape) (xs : List (Option Rat)) (w m : Nat) (hw : 1 ≤ w) (k : Nat) :
    List.Forall₂ (Agree sqrt)
      (genRunIdx (Gen.ts_vargmin.step sqrt (xs.take k) (xs.take k).length w (Gen.ts_vargmin.minPeriods (xs.take k).length w (some m)))
        (Gen.ts_vargmin.init (xs.take k).length w) (idxCalls sh (xs.take k) (Gen.ts_vargmin.effWindow (xs.take k).length w)))
      (((List.range xs.length).map fun i => C03.Spec.tsArgmin m (window xs i w)).take k) :=
  prefix_of_agree (Agree sqrt) _ (C03.Spec.tsArgmin m) w
    (fun zs => C03Gen.ts_vargmin_exact sqrt sh zs w (some m) hw) xs k

theorem ts_vargmax_gen_prefix (sqrt : Rat → Rat) (sh : Shape) (xs : List (Option Rat)) (w m : Nat) (hw : 1 ≤ w) (k : Nat) :
    List.Forall₂ (Agree sqrt)
      (genRunIdx (Gen.ts_vargmax.step sqrt (xs.take k) (xs.take k).length w (Gen.ts_vargmax.minPeriods (xs.take k).length w (some m)))
        (Gen.ts_vargmax.init (xs.take k).length w) (idxCalls sh (xs.take k) (Gen.ts_vargmax.effWindow (xs.take k).length w)))
      (((List.range xs.length).map fun i => C03.Spec.tsArgmax m (window xs i w)).take k) :=
  prefix_of_agree (Agree sqrt) _ (C03.Spec.tsArgmax m) w
    (fun zs => C03Gen.ts_vargmax_exact sqrt sh zs w (some m) hw) xs k

theorem ts_vrank_gen_prefix (sqrt : Rat → Rat) (sh : Shape) (xs : List (Option Rat)) (w m : Nat) (pct rev : Bool)
    (hw : 1 ≤ w) (k : Nat) :
    List.Forall₂ (Agree sqrt)
      (genRunIdx (Gen.ts_vrank.step sqrt (xs.take k) (xs.take k).length w (Gen.ts_vrank.minPeriods (xs.take k).length w (some m)) pct rev)
        (Gen.ts_vrank.init (xs.take k).length w) (idxCalls sh (xs.take k) (Gen.ts_vrank.effWindow (xs.take k).length w)))
      (((List.range xs.length).map fun i => C03.Spec.tsRank m pct rev (window xs i w)).take k) :=
  prefix_of_agree (Agree sqrt) _ (C03.Spec.tsRank m pct rev) w
    (fun zs => C03Gen.ts_vrank_exact sqrt sh zs w (some m) pct rev hw) xs k

/-- **exactly not at all**: the regenerated `ts_vmax`, run over two equally long series that
coincide on the window of position `i`, yields at `i` values agreeing with one and the same
window maximum — whatever the pre-window history made the accumulator go through -/
theorem ts_vmax_gen_prewindow (sqrt : Rat → Rat) (sh : Shape) (xs ys : List (Option Rat)) (w m : Nat)
    (hw : 1 ≤ w) (hlen : xs.length = ys.length) (i : Nat) (hi : i < xs.length)
    (h : ∀ j, i + 1 - w ≤ j → j ≤ i → xs[j]? = ys[j]?) :
    ∃ a b,
      (genRunIdx (Gen.ts_vmax.step sqrt xs xs.length w (Gen.ts_vmax.minPeriods xs.length w (some m)))
        (Gen.ts_vmax.init xs.length w) (idxCalls sh xs (Gen.ts_vmax.effWindow xs.length w)))[i]? = some a ∧
      (genRunIdx (Gen.ts_vmax.step sqrt ys ys.length w (Gen.ts_vmax.minPeriods ys.length w (some m)))
        (Gen.ts_vmax.init ys.length w) (idxCalls sh ys (Gen.ts_vmax.effWindow ys.length w)))[i]? = some b ∧
      Agree sqrt a (C03.Spec.tsMax m (window xs i w)) ∧ Agree sqrt b (C03.Spec.tsMax m (window xs i w)) :=
  local_of_agree (Agree sqrt) _ (C03.Spec.tsMax m) w
    (fun zs => C03Gen.ts_vmax_exact sqrt sh zs w (some m) hw) xs ys hlen i hi h

theorem ts_vmin_gen_prewindow (sqrt : Rat → Rat) (sh : Shape) (xs ys : List (Option Rat)) (w m : Nat)
    (hw : 1 ≤ w) (hlen : xs.length = ys.length) (i : Nat) (hi : i < xs.length)
    (h : ∀ j, i + 1 - w ≤ j → j ≤ i → xs[j]? = ys[j]?) :
    ∃ a b,
      (genRunIdx (Gen.ts_vmin.step sqrt xs xs.length w (Gen.ts_vmin.minPeriods xs.length w (some m)))
        (Gen.ts_vmin.init xs.length w) (idxCalls sh xs (Gen.ts_vmin.effWindow xs.length w)))[i]? = some a ∧
      (genRunIdx (Gen.ts_vmin.step sqrt ys ys.length w (Gen.ts_vmin.minPeriods ys.length w (some m)))
        (Gen.ts_vmin.init ys.length w) (idxCalls sh ys (Gen.ts_vmin.effWindow ys.length w)))[i]? = some b ∧
      Agree sqrt a (C03.Spec.tsMin m (window xs i w)) ∧ Agree sqrt b (C03.Spec.tsMin m (window xs i w)) :=
  local_of_agree (Agree sqrt) _ (C03.Spec.tsMin m) w
    (fun zs => C03Gen.ts_vmin_exact sqrt sh zs w (some m) hw) xs ys hlen i hi h

/-! ## normalisation (norm.rs), regenerated: any `min_periods` -/

theorem ts_vzscore_gen_prefix (sqrt : Rat → Rat) (sh : Shape) (xs : List (Option Rat)) (w : Nat) (mp : Option Nat)
    (hw : 1 ≤ w) (k : Nat) :
    List.Forall₂ AgreeW
      (genRun (Gen.ts_vzscore.step sqrt w (Gen.ts_vzscore.minPeriods w mp)) (Gen.ts_vzscore.init w) (applyCalls sh (xs.take k) w))
      (((List.range xs.length).map fun i => C03.Spec.tsZscore (C03.normMp mp w) (window xs i w)).take k) :=
  prefix_of_agree AgreeW _ (C03.Spec.tsZscore (C03.normMp mp w)) w
    (fun zs => C03Gen.ts_vzscore_exact sqrt sh zs w mp hw) xs k

theorem ts_vminmaxnorm_gen_prefix (sqrt : Rat → Rat) (sh : Shape) (xs : List (Option Rat)) (w : Nat) (mp : Option Nat)
    (hw : 1 ≤ w) (k : Nat) :
    List.Forall₂ (Agree sqrt)
      (genRunIdx (Gen.ts_vminmaxnorm.step sqrt (xs.take k) (xs.take k).length w (Gen.ts_vminmaxnorm.minPeriods (xs.take k).length w mp))
        (Gen.ts_vminmaxnorm.init (xs.take k).length w) (idxCalls sh (xs.take k) (Gen.ts_vminmaxnorm.effWindow (xs.take k).length w)))
      (((List.range xs.length).map fun i => C03.Spec.tsMinmaxnorm (C03.normMp mp w) (window xs i w)).take k) :=
  prefix_of_agree (Agree sqrt) _ (C03.Spec.tsMinmaxnorm (C03.normMp mp w)) w
    (fun zs => C03Gen.ts_vminmaxnorm_exact sqrt sh zs w mp hw) xs k

/-! ## covariance / regression family (binary.rs, reg.rs): the proofs are part of this module's closure -/

/-- every regenerated closure of the three families has its `*_from_source` theorem in the
import closure of this module (C01Gen, C03Gen, C04Gen): the C06 check re-proves them all -/
theorem closures_in_scope (sqrt : Rat → Rat) (xs ys : List (Option Rat)) (w : Nat) (mp : Option Nat) (hw : 1 ≤ w)
    (hlen : ys.length = xs.length) :
    C02Gen.E2E2 (fun cs => List.Forall₂ (Agree sqrt)
      (genRun (Gen.ts_vcov.step sqrt w (Gen.ts_vcov.minPeriods w mp)) (Gen.ts_vcov.init w) cs)
      (C04.Spec.rolling2 (C04.Spec.cov (effMp mp w 2)) xs ys w)) xs ys w :=
  C04Gen.ts_vcov_from_source sqrt xs ys w mp hw hlen

end Tv.C06Gen
