import Tv.Thm.C01
import Tv.Lemmas.Local
/-!
# C05 — rolling outputs are input-length and null exactly during warm-up

Part 1 (this section): the 16 feature entry points. The parts for the extrema / rank /
normalisation / binary / regression families live next to their `_exact` theorems and are
re-exported at the end of this file as they are merged.
-/
namespace Tv.C05
open Tv

/-- **translator tie**: the mask expression, window clamp, intrinsic minimum and driver of every
`ts_*` entry point, regenerated from the Rust sources on this run, are the ones the model uses. -/
theorem maskTable_matches : Generated.maskTable = Model.maskTable := by decide

/-- effective `min_periods` of the feature family: `max k (min (mp or w/2) w)` -/
theorem effMp_def (mp : Option Nat) (w k : Nat) : effMp mp w k = max (min (mp.getD (w / 2)) w) k := rfl

/-- one output per input; empty in, empty out (model outcome is a list, never a panic) -/
theorem feat_len (f : Feat) (sh : Shape) (xs : List (Option Rat)) (w : Nat) (mp : Option Nat) (hw : 1 ≤ w) :
    (tsFeat f sh xs w mp).length = xs.length := C01.tsFeat_length f sh xs w mp hw

theorem feat_empty (f : Feat) (sh : Shape) (w : Nat) (mp : Option Nat) (hw : 1 ≤ w) :
    tsFeat f sh [] w mp = [] := by
  have := feat_len f sh [] w mp hw
  simpa using this

/-- the from-scratch value is null exactly below the effective minimum -/
theorem spec_null_iff (f : Feat) (w : Nat) (mp : Option Nat) (l : List Rat) :
    Spec.feat f w mp l = .null ↔ l.length < effMp mp w f.minK := by
  cases f <;> simp only [Spec.feat, Spec.tsSum, Spec.tsMean, Spec.tsEwm, Spec.tsWma, Spec.tsStd, Spec.tsVar,
    Spec.tsSkew, Spec.tsKurt, Spec.masked, Out.div, ge_iff_le] <;>
  · constructor
    · intro h
      by_contra hc
      have hc' : effMp mp w _ ≤ l.length := Nat.le_of_not_lt hc
      simp only [hc', if_true] at h
      repeat (first | split at h | cases h)
    · intro h
      have : ¬ effMp mp w _ ≤ l.length := Nat.not_le_of_lt h
      simp [this]

/-- **mask law**: output `i` is null iff the number of non-null observations in its window is
below `max k (min (min_periods or w/2) w)`, `k` = 2 for variance-type, 3 skewness, 4 kurtosis;
in particular it is non-null (a value, or a zero-denominator `degenerate`) once the count is
reached. -/
theorem feat_null_iff (f : Feat) (sh : Shape) (xs : List (Option Rat)) (w : Nat) (mp : Option Nat)
    (hw : 1 ≤ w) (i : Nat) (hi : i < xs.length) :
    (tsFeat f sh xs w mp)[i]? = some .null ↔ (vwin xs i w).length < effMp mp w f.minK := by
  rw [C01.tsFeat_exact f sh xs w mp hw]
  simp only [List.getElem?_map, List.getElem?_range hi, Option.map_some, Option.some.injEq]
  exact spec_null_iff f w mp _

/-- the intrinsic minimum really is a lower bound of the effective one -/
theorem minK_le_eff (f : Feat) (w : Nat) (mp : Option Nat) : f.minK ≤ effMp mp w f.minK :=
  Nat.le_max_right _ _

example : (tsFeat .var .iter [some 1, none, some 3, some 7] 3 none)[1]? = some .null :=
  (feat_null_iff .var .iter _ 3 none (by decide) 1 (by decide)).mpr (by decide)

end Tv.C05
