import Tv.Thm.C05Reg
import Tv.Thm.C01
import Tv.Lemmas.Local
import Tv.Thm.C03
/-!
# C05 — rolling outputs are input-length and null exactly during warm-up

Part 1 (this section): the 16 feature entry points. The parts for the extrema / rank /
normalisation / binary / regression families live next to their `_exact` theorems and are
re-exported at the end of this file as they are merged.
-/
namespace Tv.C05
open Tv

/-- **translator tie**: the mask expression, window clamp, intrinsic minimum and driver of every
`ts_*` entry point, regenerated from the Rust sources on this run, are the ones the model uses. -/
theorem maskTable_matches : Generated.maskTable = Model.maskTable := by decide

/-- effective `min_periods` of the feature family: `max k (min (mp or w/2) w)` -/
theorem effMp_def (mp : Option Nat) (w k : Nat) : effMp mp w k = max (min (mp.getD (w / 2)) w) k := rfl

/-- one output per input; empty in, empty out (model outcome is a list, never a panic) -/
theorem feat_len (f : Feat) (sh : Shape) (xs : List (Option Rat)) (w : Nat) (mp : Option Nat) (hw : 1 ≤ w) :
    (tsFeat f sh xs w mp).length = xs.length := C01.tsFeat_length f sh xs w mp hw

theorem feat_empty (f : Feat) (sh : Shape) (w : Nat) (mp : Option Nat) (hw : 1 ≤ w) :
    tsFeat f sh [] w mp = [] := by
  have := feat_len f sh [] w mp hw
  simpa using this

/-- the from-scratch value is null exactly below the effective minimum -/
theorem spec_null_iff (f : Feat) (w : Nat) (mp : Option Nat) (l : List Rat) :
    Spec.feat f w mp l = .null ↔ l.length < effMp mp w f.minK := by
  cases f <;> simp only [Spec.feat, Spec.tsSum, Spec.tsMean, Spec.tsEwm, Spec.tsWma, Spec.tsStd, Spec.tsVar,
    Spec.tsSkew, Spec.tsKurt, Spec.masked, Out.div, ge_iff_le] <;>
  · constructor
    · intro h
      by_contra hc
      have hc' : effMp mp w _ ≤ l.length := Nat.le_of_not_lt hc
      simp only [hc', if_true] at h
      repeat (first | split at h | cases h)
    · intro h
      have : ¬ effMp mp w _ ≤ l.length := Nat.not_le_of_lt h
      simp [this]

/-- **mask law**: output `i` is null iff the number of non-null observations in its window is
below `max k (min (min_periods or w/2) w)`, `k` = 2 for variance-type, 3 skewness, 4 kurtosis;
in particular it is non-null (a value, or a zero-denominator `degenerate`) once the count is
reached. -/
theorem feat_null_iff (f : Feat) (sh : Shape) (xs : List (Option Rat)) (w : Nat) (mp : Option Nat)
    (hw : 1 ≤ w) (i : Nat) (hi : i < xs.length) :
    (tsFeat f sh xs w mp)[i]? = some .null ↔ (vwin xs i w).length < effMp mp w f.minK := by
  rw [C01.tsFeat_exact f sh xs w mp hw]
  simp only [List.getElem?_map, List.getElem?_range hi, Option.map_some, Option.some.injEq]
  exact spec_null_iff f w mp _

/-- the intrinsic minimum really is a lower bound of the effective one -/
theorem minK_le_eff (f : Feat) (w : Nat) (mp : Option Nat) : f.minK ≤ effMp mp w f.minK :=
  Nat.le_max_right _ _

example : (tsFeat .var .iter [some 1, none, some 3, some 7] 3 none)[1]? = some .null :=
  (feat_null_iff .var .iter _ 3 none (by decide) 1 (by decide)).mpr (by decide)


/-! ## Part 2 — extrema / arg-extrema / rank / normalisation family (from the C03 `_exact` theorems)

Effective minimum: `cmpMp mp w len = mp.getD (min len w / 2)` for the five cmp.rs functions (the
window is clamped to the length *before* the default is taken and an explicit `min_periods` is
not clamped — DESIGN 5.3), `normMp mp w = min (mp.getD (w/2)) w` for the two norm.rs functions.
The count is the number of non-null elements of the window. -/

open Tv.C03 in
/-- below the effective minimum every one of the seven specs is null -/
theorem c03_spec_null_below (m : Nat) (l : List (Option Rat)) (h : (C03.Spec.vals l).length < m) :
    C03.Spec.tsMin m l = .null ∧ C03.Spec.tsMax m l = .null ∧ C03.Spec.tsArgmin m l = .null ∧
    C03.Spec.tsArgmax m l = .null ∧ (∀ pct rev, C03.Spec.tsRank m pct rev l = .null) ∧
    C03.Spec.tsMinmaxnorm m l = .null ∧ C03.Spec.tsZscore m l = .null := by
  have hm : ∀ o, C03.Spec.masked m l o = .null := by
    intro o; simp [C03.Spec.masked, Nat.not_le_of_lt h]
  refine ⟨hm _, hm _, hm _, hm _, ?_, ?_, ?_⟩
  · intro pct rev; unfold C03.Spec.tsRank; split <;> simp [hm]
  · unfold C03.Spec.tsMinmaxnorm; split <;> simp [hm]
  · unfold C03.Spec.tsZscore; split <;> simp [hm]

/-- once the count is reached (and at least one valid element exists) minimum and maximum are non-null -/
theorem c03_minmax_nonnull (m : Nat) (l : List (Option Rat)) (h : m ≤ (C03.Spec.vals l).length)
    (h1 : 1 ≤ (C03.Spec.vals l).length) :
    C03.Spec.tsMin m l ≠ .null ∧ C03.Spec.tsMax m l ≠ .null := by
  have hne : C03.Spec.vals l ≠ [] := by
    intro h0; rw [h0] at h1; simp at h1
  constructor
  · simp only [C03.Spec.tsMin, C03.Spec.masked, ge_iff_le, h, if_true]
    cases hl : C03.Spec.least (C03.Spec.vals l) with
    | none => exact absurd ((C03.least_none_iff _).mp hl) hne
    | some q => simp [C03.Spec.ofOpt]
  · simp only [C03.Spec.tsMax, C03.Spec.masked, ge_iff_le, h, if_true]
    cases hl : C03.Spec.greatest (C03.Spec.vals l) with
    | none =>
      exfalso
      -- greatest = none only for the empty list
      cases hv : C03.Spec.vals l with
      | nil => exact hne hv
      | cons x r =>
        rw [hv] at hl
        simp only [C03.Spec.greatest] at hl
        split at hl <;> simp at hl
    | some q => simp [C03.Spec.ofOpt]

/-- **length** of every output of the family = length of the input (`[]` for `[]`) -/
theorem c03_len (sh : Shape) (xs : List (Option Rat)) (w : Nat) (mp : Option Nat) (hw : 1 ≤ w) :
    (C03.tsVmin sh xs w mp).length = xs.length ∧ (C03.tsVmax sh xs w mp).length = xs.length ∧
    (C03.tsVargmin sh xs w mp).length = xs.length ∧ (C03.tsVargmax sh xs w mp).length = xs.length ∧
    (∀ pct rev, (C03.tsVrank sh xs w mp pct rev).length = xs.length) ∧
    (C03.tsVminmaxnorm sh xs w mp).length = xs.length ∧ (C03.tsVzscore sh xs w mp).length = xs.length := by
  refine ⟨?_, ?_, ?_, ?_, ?_, ?_, ?_⟩
  · rw [C03.vmin_exact sh xs w mp hw]; simp
  · rw [C03.vmax_exact sh xs w mp hw]; simp
  · rw [C03.vargmin_exact sh xs w mp hw]; simp
  · rw [C03.vargmax_exact sh xs w mp hw]; simp
  · intro pct rev; rw [C03.vrank_exact sh xs w mp pct rev hw]; simp
  · rw [C03.vminmaxnorm_exact sh xs w mp hw]; simp
  · rw [C03.vzscore_exact sh xs w mp hw]; simp

/-- **mask law, extrema / rank family**: output `i` is null whenever the window holds fewer than
`cmpMp mp w len` non-null elements -/
theorem c03_cmp_null_below (sh : Shape) (xs : List (Option Rat)) (w : Nat) (mp : Option Nat)
    (hw : 1 ≤ w) (i : Nat) (hi : i < xs.length)
    (h : (C03.Spec.vals (window xs i w)).length < C03.cmpMp mp w xs.length) :
    (C03.tsVmin sh xs w mp)[i]? = some .null ∧ (C03.tsVmax sh xs w mp)[i]? = some .null ∧
    (C03.tsVargmin sh xs w mp)[i]? = some .null ∧ (C03.tsVargmax sh xs w mp)[i]? = some .null ∧
    (∀ pct rev, (C03.tsVrank sh xs w mp pct rev)[i]? = some .null) := by
  have hs := c03_spec_null_below _ _ h
  refine ⟨?_, ?_, ?_, ?_, ?_⟩
  · rw [C03.vmin_exact sh xs w mp hw]; simp [List.getElem?_range hi, hs.1]
  · rw [C03.vmax_exact sh xs w mp hw]; simp [List.getElem?_range hi, hs.2.1]
  · rw [C03.vargmin_exact sh xs w mp hw]; simp [List.getElem?_range hi, hs.2.2.1]
  · rw [C03.vargmax_exact sh xs w mp hw]; simp [List.getElem?_range hi, hs.2.2.2.1]
  · intro pct rev
    rw [C03.vrank_exact sh xs w mp pct rev hw]; simp [List.getElem?_range hi, hs.2.2.2.2.1]

/-- **mask law, normalisation family** -/
theorem c03_norm_null_below (sh : Shape) (xs : List (Option Rat)) (w : Nat) (mp : Option Nat)
    (hw : 1 ≤ w) (i : Nat) (hi : i < xs.length)
    (h : (C03.Spec.vals (window xs i w)).length < C03.normMp mp w) :
    (C03.tsVminmaxnorm sh xs w mp)[i]? = some .null ∧ (C03.tsVzscore sh xs w mp)[i]? = some .null := by
  have hs := c03_spec_null_below _ _ h
  constructor
  · rw [C03.vminmaxnorm_exact sh xs w mp hw]; simp [List.getElem?_range hi, hs.2.2.2.2.2.1]
  · rw [C03.vzscore_exact sh xs w mp hw]; simp [List.getElem?_range hi, hs.2.2.2.2.2.2]

/-- minimum / maximum are non-null once the count is reached and the window has a valid element -/
theorem c03_minmax_nonnull_at (sh : Shape) (xs : List (Option Rat)) (w : Nat) (mp : Option Nat)
    (hw : 1 ≤ w) (i : Nat) (hi : i < xs.length)
    (h : C03.cmpMp mp w xs.length ≤ (C03.Spec.vals (window xs i w)).length)
    (h1 : 1 ≤ (C03.Spec.vals (window xs i w)).length) :
    (C03.tsVmin sh xs w mp)[i]? ≠ some .null ∧ (C03.tsVmax sh xs w mp)[i]? ≠ some .null := by
  have hs := c03_minmax_nonnull _ _ h h1
  constructor
  · rw [C03.vmin_exact sh xs w mp hw]; simp [List.getElem?_range hi, hs.1]
  · rw [C03.vmax_exact sh xs w mp hw]; simp [List.getElem?_range hi, hs.2]

end Tv.C05
