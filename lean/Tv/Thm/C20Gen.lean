import Tv.GenFin
import Tv.Thm.C20
import Tv.Thm.C13Gen
import Tv.Thm.C11Gen
import Tv.Thm.C12GenB
set_option linter.unusedSimpArgs false
set_option linter.unusedVariables false
/-!
# C20 — `half_life` regenerated from tevec/src/agg.rs is the model's

`Tv.GenFin.half_life.run` (translator/finals.py) is the body of `half_life` statement by
statement: the two `while` loops are `Gen.whileFuel` over the tuple of assigned variables, every
`usize` subtraction carries its underflow guard, the lag autocorrelation is the parameter
`corrAt lag min_periods`.  The theorems below prove that this regenerated function *is*
`Tv.C20.halfLife` run on the classification of those correlations — so termination, absence of
the underflow panic, range, crossing and threshold theorems of `Tv/Thm/C20.lean` are theorems
about the code that is in the tree now, not about a transcription checked by text comparison.
-/
namespace Tv.C20Gen
open Tv Tv.C20 Tv.Gen

/-- classification of a lag autocorrelation (`none` = NaN) against 0.5 -/
def clsOf : Option Rat → Cls
  | none => .nan
  | some q => if q > 1 / 2 then .above else if q = 1 / 2 then .half else .below

/-- the model's outcome type as the translator's -/
def toRun : Res → Run Nat
  | .ok n => .ok n
  | .panic => .panic
  | .timeout => .timeout

theorem clsOf_above (o : Option Rat) : (clsOf o = .above) ↔ fGt o ((1 : Rat) / 2) = true := by
  cases o with
  | none => constructor <;> intro h <;> cases h
  | some q =>
    by_cases h : q > 1 / 2
    · simp only [clsOf, fGt, h, if_true, decide_true]
    · simp only [clsOf, fGt, h, if_false, decide_false]
      by_cases h2 : q = 1 / 2
      · simp only [h2, if_true]; constructor <;> intro hh <;> cases hh
      · simp only [h2, if_false]; constructor <;> intro hh <;> cases hh

theorem clsOf_not_above (o : Option Rat) :
    (clsOf o = .above) ↔ (fLe o ((1 : Rat) / 2) || o.isNone) = false := by
  cases o with
  | none => constructor <;> intro h <;> cases h
  | some q =>
    by_cases h : q > 1 / 2
    · have h' : ¬ q ≤ 1 / 2 := not_le.mpr h
      simp only [clsOf, fLe, h, h', if_true, decide_false, Option.isNone_some, Bool.or_false]
    · have h' : q ≤ 1 / 2 := not_lt.mp h
      simp only [clsOf, fLe, h, h', if_false, decide_true, Option.isNone_some, Bool.or_false]
      by_cases h2 : q = 1 / 2
      · simp only [h2, if_true]; constructor <;> intro hh <;> cases hh
      · simp only [h2, if_false]; constructor <;> intro hh <;> cases hh

/-- the doubling loop: a `whileFuel` whose guard, condition and body satisfy the equations of the
source loop is the model's `doubling` (the exponent `i` is dropped by the model) -/
theorem loop1_sim (c : Nat → Cls) (len : Nat) {G C : Nat × Nat × Nat → Bool}
    {B : Nat × Nat × Nat → (Nat × Nat × Nat) × Bool} :
    ∀ {fuel n l i : Nat} {w : Run (Nat × Nat × Nat)}, whileFuel G C B fuel (n, l, i) = w →
      (∀ s, G s = true) → (∀ n l i, C (n, l, i) = decide (n < len)) →
      (∀ n l i, B (n, l, i) =
        if c (2 ^ i) = .above then ((2 ^ i, 2 ^ i, i + 1), false) else ((2 ^ i, l, i), true)) →
      (doubling c len fuel n l i = none ∧ w = .timeout) ∨
      (∃ n' l' i', doubling c len fuel n l i = some (n', l') ∧ w = .ok (n', l', i')) := by
  intro fuel
  induction fuel with
  | zero =>
    intro n l i w hw hG hC hB
    left
    exact ⟨rfl, by rw [← hw]; rfl⟩
  | succ f ih =>
    intro n l i w hw hG hC hB
    unfold whileFuel at hw
    rw [hG, hC, hB] at hw
    unfold doubling
    by_cases hn : n < len
    · simp only [hn, decide_true, if_true] at hw ⊢
      by_cases ha : c (2 ^ i) = .above
      · simp only [ha, if_true, Bool.false_eq_true, if_false] at hw ⊢
        exact ih hw hG hC hB
      · simp only [ha, if_false, if_true] at hw ⊢
        right
        exact ⟨_, _, _, rfl, hw.symm⟩
    · simp only [hn, decide_false, Bool.false_eq_true, if_false, if_true] at hw ⊢
      right
      exact ⟨_, _, _, rfl, hw.symm⟩

/-- the bisection loop is the model's `bisect` (the final `last_n` is dropped by the model) -/
theorem loop2_sim (c : Nat → Cls) {G C : Nat × Nat → Bool} {B : Nat × Nat → (Nat × Nat) × Bool} :
    ∀ {fuel n l : Nat} {w : Run (Nat × Nat)}, whileFuel G C B fuel (n, l) = w →
      (∀ n l, G (n, l) = decide (l ≤ n)) → (∀ n l, C (n, l) = decide (n - l > 1)) →
      (∀ n l, B (n, l) =
        if c ((n + l) / 2) = .above then ((n, (n + l) / 2), false) else (((n + l) / 2, l), false)) →
      (bisect c fuel n l = .timeout ∧ w = .timeout) ∨ (bisect c fuel n l = .panic ∧ w = .panic) ∨
      (∃ r l', bisect c fuel n l = .ok r ∧ w = .ok (r, l')) := by
  intro fuel
  induction fuel with
  | zero =>
    intro n l w hw hG hC hB
    left
    exact ⟨rfl, by rw [← hw]; rfl⟩
  | succ f ih =>
    intro n l w hw hG hC hB
    unfold whileFuel at hw
    rw [hG, hC, hB] at hw
    unfold bisect
    by_cases h1 : n < l
    · have : ¬ l ≤ n := by omega
      simp only [h1, this, decide_false, Bool.false_eq_true, if_false, if_true] at hw ⊢
      right; left
      exact ⟨trivial, hw.symm⟩
    · have h1' : l ≤ n := by omega
      simp only [h1, h1', decide_true, if_true, if_false] at hw ⊢
      by_cases h2 : n - l > 1
      · simp only [h2, decide_true, if_true] at hw ⊢
        by_cases ha : c ((n + l) / 2) = .above
        · simp only [ha, if_true, Bool.false_eq_true, if_false] at hw ⊢
          exact ih hw hG hC hB
        · simp only [ha, if_false, Bool.false_eq_true] at hw ⊢
          exact ih hw hG hC hB
      · simp only [h2, decide_false, Bool.false_eq_true, if_false] at hw ⊢
        right; right
        exact ⟨_, _, rfl, hw.symm⟩

/-- one more unit of fuel does not change a bisection that had enough -/
theorem bisect_fuel_succ (c : Nat → Cls) :
    ∀ fuel n l, bisect c fuel n l ≠ .timeout → bisect c (fuel + 1) n l = bisect c fuel n l := by
  intro fuel
  induction fuel with
  | zero => intro n l h; exact absurd rfl h
  | succ f ih =>
    intro n l h
    unfold bisect at h ⊢
    by_cases h1 : n < l
    · simp [h1]
    · simp only [h1, if_false] at h ⊢
      by_cases h2 : n - l > 1
      · simp only [h2, if_true] at h ⊢
        by_cases ha : c ((n + l) / 2) = .above
        · simp only [ha, if_true] at h ⊢
          exact ih _ _ h
        · simp only [ha, if_false] at h ⊢
          exact ih _ _ h
      · simp [h2]

/-- the regenerated `half_life`, run with any fuel `f`, is the model's two loops run with `f` -/
theorem half_life_run (corrAt : Nat → Nat → Option Rat) (len : Nat) (mp : Option Nat) (f : Nat) :
    GenFin.half_life.run corrAt len mp f =
      if len = 0 then .ok 0 else
        match doubling (fun l => clsOf (corrAt l (mp.getD (len / 2)))) len f 0 0 0 with
        | none => .timeout
        | some (n, last) =>
          toRun (bisect (fun l => clsOf (corrAt l (mp.getD (len / 2)))) f (min n (len - 1)) last) := by
  unfold GenFin.half_life.run
  by_cases h0 : len = 0
  · simp [h0]
  · have h1 : 1 ≤ len := by omega
    simp only [h0, h1, decide_false, decide_true, Bool.false_eq_true, if_false, if_true]
    generalize hw : whileFuel _ _ _ f ((0 : Nat), (0 : Nat), (0 : Nat)) = w
    rcases loop1_sim (fun l => clsOf (corrAt l (mp.getD (len / 2)))) len hw (by intro s; rfl)
        (by intro n l i; rfl)
        (by
          intro n l i
          by_cases ha : clsOf (corrAt (2 ^ i) (mp.getD (len / 2))) = .above
          · have := (clsOf_not_above _).mp ha
            have h1 : fLe (corrAt (2 ^ i) (mp.getD (len / 2))) ((1 : Rat) / 2) = false ∧
                (corrAt (2 ^ i) (mp.getD (len / 2))).isNone = false := by
              simpa [Bool.or_eq_false_iff] using this
            simp only [ha, if_true]
            -- either order of the two disjuncts in the source
            simp only [h1.1, h1.2, Bool.or_false, Bool.or_self, Bool.false_eq_true, if_false]
          · have : fLe (corrAt (2 ^ i) (mp.getD (len / 2))) ((1 : Rat) / 2) = true ∨
                (corrAt (2 ^ i) (mp.getD (len / 2))).isNone = true := by
              cases hb : (fLe (corrAt (2 ^ i) (mp.getD (len / 2))) ((1 : Rat) / 2) ||
                (corrAt (2 ^ i) (mp.getD (len / 2))).isNone)
              · exact absurd ((clsOf_not_above _).mpr hb) ha
              · simpa [Bool.or_eq_true] using hb
            simp only [ha, if_false]
            rcases this with h | h <;> simp only [h, Bool.true_or, Bool.or_true, if_true])
      with ⟨hd, rfl⟩ | ⟨n', l', i', hd, rfl⟩
    · rw [hd]
    · rw [hd]
      simp only []
      generalize hw2 : whileFuel _ _ _ f (Nat.min n' (len - 1), l') = w2
      rcases loop2_sim (fun l => clsOf (corrAt l (mp.getD (len / 2)))) hw2 (by intro n l; rfl)
          (by intro n l; rfl)
          (by
            intro n l
            by_cases ha : clsOf (corrAt ((n + l) / 2) (mp.getD (len / 2))) = .above
            · have := (clsOf_above _).mp ha
              simp only [ha, if_true]
              simp only [this, if_true]
            · have : fGt (corrAt ((n + l) / 2) (mp.getD (len / 2))) ((1 : Rat) / 2) = false := by
                cases hb : fGt (corrAt ((n + l) / 2) (mp.getD (len / 2))) ((1 : Rat) / 2)
                · rfl
                · exact absurd ((clsOf_above _).mpr hb) ha
              simp only [ha, if_false]
              simp only [this, Bool.false_eq_true, if_false])
        with ⟨hb, rfl⟩ | ⟨hb, rfl⟩ | ⟨r, l'', hb, rfl⟩
      · show _ = toRun (bisect _ f (min n' (len - 1)) l')
        rw [show min n' (len - 1) = Nat.min n' (len - 1) from rfl, hb]; rfl
      · show _ = toRun (bisect _ f (min n' (len - 1)) l')
        rw [show min n' (len - 1) = Nat.min n' (len - 1) from rfl, hb]; rfl
      · show _ = toRun (bisect _ f (min n' (len - 1)) l')
        rw [show min n' (len - 1) = Nat.min n' (len - 1) from rfl, hb]; rfl

/-- **the regenerated `half_life` is the model**: with `len + 1` units of fuel per loop it returns
what `Tv.C20.halfLife` returns on the classification of the lag autocorrelations -/
theorem half_life_eq (corrAt : Nat → Nat → Option Rat) (len : Nat) (mp : Option Nat) :
    GenFin.half_life.run corrAt len mp (len + 1) =
      toRun (halfLife (fun l => clsOf (corrAt l (mp.getD (len / 2)))) len) := by
  rw [half_life_run]
  unfold halfLife
  by_cases h0 : len = 0
  · simp [h0, toRun]
  · simp only [h0, if_false]
    obtain ⟨⟨r0, hr0⟩, hb⟩ := halfLife_fuel_suffices (fun l => clsOf (corrAt l (mp.getD (len / 2)))) len h0
    rw [hr0]
    obtain ⟨n, last⟩ := r0
    simp only []
    rw [bisect_fuel_succ _ _ _ _ (hb _ _ (Nat.min_le_right _ _))]

/-- the regenerated `half_life` never runs out of fuel: both source loops terminate -/
theorem half_life_terminates (corrAt : Nat → Nat → Option Rat) (len : Nat) (mp : Option Nat) :
    GenFin.half_life.run corrAt len mp (len + 1) ≠ .timeout := by
  rw [half_life_eq]
  have := halfLife_terminates (fun l => clsOf (corrAt l (mp.getD (len / 2)))) len
  cases h : halfLife (fun l => clsOf (corrAt l (mp.getD (len / 2)))) len <;> simp_all [toRun]

/-- an autocorrelation above 0.5 needs two valid pairs (`OracleOk`): then the regenerated code
returns a lag, i.e. no `usize` subtraction underflows, and the lag is in range -/
theorem half_life_ok_range (corrAt : Nat → Nat → Option Rat) (len : Nat) (mp : Option Nat)
    (h : OracleOk (fun l => clsOf (corrAt l (mp.getD (len / 2)))) len) :
    ∃ r, GenFin.half_life.run corrAt len mp (len + 1) = .ok r ∧ r ≤ len - 1 ∧ (r = 0 ↔ len < 2) := by
  rw [half_life_eq]
  obtain ⟨r, hr⟩ := halfLife_no_panic _ len h
  refine ⟨r, by rw [hr]; rfl, ?_⟩
  exact halfLife_range _ len r h hr

/-! ## the lag autocorrelation of the source: no oracle hypothesis left -/

theorem pairs_le_aux (xs ys : List (Option Rat)) :
    ((xs.zip ys).filterMap C11.Spec.pairOf).length ≤ (ys.filterMap fun x => x).length := by
  induction xs generalizing ys with
  | nil => simp
  | cons x xs ih =>
    cases ys with
    | nil => simp
    | cons y ys =>
      have := ih ys
      cases x <;> cases y <;>
        simp only [List.zip_cons_cons, List.filterMap_cons, C11.Spec.pairOf, List.length_cons] <;> omega

theorem pairsValid_le_valid (xs ys : List (Option Rat)) :
    (C11.Spec.pairsValid xs ys).length ≤ (valid ys).length := pairs_le_aux xs ys

theorem valid_replicate_none (k : Nat) (t : List (Option Rat)) :
    valid (List.replicate k (none : Option Rat) ++ t) = valid t := by
  unfold valid
  induction k with
  | zero => simp
  | succ k ih => simp [List.replicate_succ, ih]

theorem valid_length_le (t : List (Option Rat)) : (valid t).length ≤ t.length := by
  unfold valid; exact List.length_filterMap_le _ _

/-- the series shifted by `l ≥ 0` has at most `len - l` valid elements -/
theorem valid_vshift_le (xs : List (Option Rat)) (l : Nat) :
    (valid (GenMap.vshift.run xs (Int.ofNat l) none)).length ≤ xs.length - l := by
  unfold GenMap.vshift.run
  simp only [Int.ofNat_eq_natCast, Int.natAbs_natCast, Option.getD_none, decide_eq_true_eq]
  by_cases h : xs.length ≤ l
  · simp only [h, if_true]
    have : valid (List.replicate xs.length (none : Option Rat)) = [] := by
      have := valid_replicate_none xs.length []
      simpa [valid] using this
    rw [this]; simp
  · simp only [h, if_false]
    by_cases hp : ((l : Int) > 0)
    · simp only [hp, if_true]
      rw [valid_replicate_none]
      calc (valid (xs.take (xs.length - l))).length ≤ (xs.take (xs.length - l)).length := valid_length_le _
        _ ≤ xs.length - l := by simp
    · have hl : l = 0 := by omega
      subst hl
      simp only [hp, if_false, Int.natCast_zero, Int.lt_irrefl, Nat.sub_zero]
      exact valid_length_le xs

/-- a defined lag autocorrelation needs two pairwise-complete observations of the series and its
shift: `corrSrc … lag mp = some q → lag + 2 ≤ len` -/
theorem corrSrc_some (sqrt : Rat → Rat) (xs : List (Option Rat)) (l mp : Nat) (q : Rat)
    (h : GenFin.half_life.corrSrc sqrt xs l mp = some q) : l + 2 ≤ xs.length := by
  unfold GenFin.half_life.corrSrc at h
  have hs := C11Gen.vcorr_spec sqrt xs (GenMap.vshift.run xs (Int.ofNat l) none) mp
  by_contra hlt
  have hfew : (C11.Spec.pairsValid xs (GenMap.vshift.run xs (Int.ofNat l) none)).length < max mp 2 := by
    have h1 := pairsValid_le_valid xs (GenMap.vshift.run xs (Int.ofNat l) none)
    have h2 := valid_vshift_le xs l
    omega
  have hnull : C11.Spec.vcorr mp xs (GenMap.vshift.run xs (Int.ofNat l) none) = .null := by
    rw [← C11.vcorr_exact]; exact (C11.vcorr_null_iff mp xs _).mpr hfew
  rw [hnull, h] at hs
  simp [GenSim.AgreeW] at hs

/-- **the oracle hypothesis holds for the code in the tree** -/
theorem oracleOk_src (sqrt : Rat → Rat) (xs : List (Option Rat)) (mp : Nat) :
    OracleOk (fun l => clsOf (GenFin.half_life.corrSrc sqrt xs l mp)) xs.length := by
  intro l hl
  simp only [] at hl
  cases hc : GenFin.half_life.corrSrc sqrt xs l mp with
  | none => rw [hc] at hl; simp [clsOf] at hl
  | some q => exact corrSrc_some sqrt xs l mp q hc

/-- **from source, no hypothesis**: `half_life` as regenerated — loops, guards, the
`vcorr_pearson ∘ vshift` autocorrelation — terminates within `len + 1` iterations per loop, never
underflows, and returns a lag in `0 ..= len - 1` that is `0` exactly for series shorter than two,
for every series, every `min_periods` and every reading `sqrt` of the square root -/
theorem half_life_from_source (sqrt : Rat → Rat) (xs : List (Option Rat)) (mp : Option Nat) :
    ∃ r, GenFin.half_life.runSrc sqrt xs mp (xs.length + 1) = .ok r ∧ r ≤ xs.length - 1 ∧
      (r = 0 ↔ xs.length < 2) := by
  unfold GenFin.half_life.runSrc
  exact half_life_ok_range (GenFin.half_life.corrSrc sqrt xs) xs.length mp (oracleOk_src sqrt xs _)

/-! ## winsorize (tevec/src/map.rs), regenerated -/

/-- the model's method as the translator's enum -/
def toWin : Method → GenFin.WinMethod
  | .quantile => .quantile
  | .median => .median
  | .sigma => .sigma

theorem vclip_model (lo hi : Option Rat) (xs : List (Option Rat)) :
    GenMap.vclip.run xs lo hi = C20.vclip lo hi xs := by
  rw [C13Gen.vclip_eq]
  unfold C13.vclip C20.vclip
  cases lo <;> cases hi <;> simp only []
  all_goals
    apply List.map_congr_left
    intro v _
    cases v <;> simp only []

theorem eps_eq : GenAgg.EPS = C20.EPS := by norm_num [GenAgg.EPS, C20.EPS]

theorem ratAbs_eq (x : Rat) : Gen.ratAbs x = absR x := rfl

/-- **the regenerated `winsorize` is the model**: with the model's `vquantile` / `vmedian` /
`vmean_var(2)` for its three parameters it returns `Ok` of `Tv.C20.winsorize` — defaults, bounds,
guards and pass-through branches of all three methods are those of the source -/
theorem winsorize_eq (sqrt : Rat → Rat) (xs : List (Option Rat)) (m : Method) (p : Option Rat) :
    GenFin.winsorize.run sqrt (fun l q => some (C20.vquantile l q)) C20.vmedian (fun l _ => vmeanVar2 l)
      xs (toWin m) p = some (C20.winsorize sqrt m p xs) := by
  cases m
  · -- quantile
    simp only [GenFin.winsorize.run, toWin, C20.winsorize, bounds, Method.dflt, vclip_model]
  · -- median
    simp only [GenFin.winsorize.run, toWin, C20.winsorize, bounds, Method.dflt, vclip_model]
    cases hmed : C20.vmedian xs with
    | none => simp [C20.vclip]
    | some med =>
      simp only [Option.isSome_some, if_true]
      have hmap : (xs.map fun v => (lift2 (· - ·) v (some med)).map ratAbs) =
          xs.map (Option.map fun v => absR (v - med)) := by
        apply List.map_congr_left
        intro v _
        cases v <;> rfl
      rw [hmap]
      cases C20.vmedian (xs.map (Option.map fun v => absR (v - med))) with
      | none => simp [lift2, C20.vclip]
      | some mad => simp [lift2]
  · -- sigma
    simp only [GenFin.winsorize.run, toWin, C20.winsorize, bounds, Method.dflt, vclip_model, eps_eq]
    rcases hmv : vmeanVar2 xs with ⟨mean, var⟩
    cases mean with
    | none => simp [C20.vclip]
    | some mean =>
      cases var with
      | none => simp [C20.vclip]
      | some var =>
        by_cases hv : var > C20.EPS
        · simp [fGt, hv, lift2]
        · simp [fGt, hv, C20.vclip]

/-- **from source**: the regenerated `winsorize` clips to one interval — the bounds of the chosen
method — for every method and every parameter in range -/
theorem winsorize_from_source_is_clip (sqrt : Rat → Rat) (hs : ∀ x, 0 ≤ sqrt x) (m : Method) (p : Option Rat)
    (hp : ParamOk m p) (xs : List (Option Rat)) :
    GenFin.winsorize.run sqrt (fun l q => some (C20.vquantile l q)) C20.vmedian (fun l _ => vmeanVar2 l)
      xs (toWin m) p = some (Spec.clip (bounds sqrt m p xs).1 (bounds sqrt m p xs).2 xs) := by
  rw [winsorize_eq, winsorize_is_clip sqrt hs m p hp xs]

/-- … one value per input, nulls stay null -/
theorem winsorize_from_source_shape (sqrt : Rat → Rat) (m : Method) (p : Option Rat) (xs : List (Option Rat)) :
    ∃ out, GenFin.winsorize.run sqrt (fun l q => some (C20.vquantile l q)) C20.vmedian (fun l _ => vmeanVar2 l)
      xs (toWin m) p = some out ∧ out.length = xs.length ∧
      ∀ i : Nat, xs[i]? = some none → out[i]? = some none :=
  ⟨_, winsorize_eq sqrt xs m p, winsorize_length sqrt m p xs, fun i h => (winsorize_null sqrt m p xs i).mpr h⟩

theorem winsorize_present : GenFin.winsorize.parsed = true := rfl

/-! ## vcorr (tevec/src/agg.rs), regenerated: Spearman = Pearson of the average ranks -/

theorem avgRank_eq_rankOf (xs : List (Option Rat)) (v : Rat) :
    C12.Spec.avgRank xs false false v = rankOf (valid xs) v := by
  simp only [C12.Spec.avgRank, C12.Spec.cntLt, C12.Spec.cntEq, rankOf, List.countP_eq_length_filter,
    Bool.false_eq_true, if_false]
  ring

/-- the flattened output of the regenerated `vrank(false, false)` is the model's average ranks -/
theorem vrank_flat {S : C12.Std} (hS : S.Ok) (xs : List (Option Rat)) :
    ∃ r, GenRank.vrank.run S xs false false = some r ∧ r.map Option.join = C20.vrank xs := by
  refine ⟨_, C12GenB.vrank_eq S xs false false, ?_⟩
  rw [C12.vrank_exact hS]
  simp only [C12GenB.outMap, C12.Spec.rank, C20.vrank, List.map_map]
  apply List.map_congr_left
  intro x _
  cases x with
  | none => rfl
  | some v => simp [C12GenB.outToF, avgRank_eq_rankOf]

/-- Pearson arm: the regenerated `vcorr_pearson` with the defaulted `min_periods` -/
theorem vcorr_pearson_from_source (sqrt : Rat → Rat) (S : C12.Std) (xs ys : List (Option Rat)) (mp : Option Nat) :
    GenFin.vcorr.run sqrt S xs ys mp .pearson =
      some (GenAgg.vcorr_pearson.run sqrt xs ys (mp.getD (xs.length / 2))) := rfl

/-- **from source: Spearman correlation is the Pearson correlation of the average ranks** (ties the
average rank, nulls a null rank), whatever permutation the argsort inside `vrank` produces -/
theorem vcorr_spearman_from_source (sqrt : Rat → Rat) {S : C12.Std} (hS : S.Ok) (xs ys : List (Option Rat))
    (mp : Option Nat) :
    GenFin.vcorr.run sqrt S xs ys mp .spearman =
      some (GenAgg.vcorr_pearson.run sqrt (C20.vrank xs) (C20.vrank ys) (mp.getD (xs.length / 2))) := by
  obtain ⟨r1, h1, e1⟩ := vrank_flat hS xs
  obtain ⟨r2, h2, e2⟩ := vrank_flat hS ys
  simp only [GenFin.vcorr.run, h1, h2, e1, e2]

/-- … and that value agrees with the textbook Pearson correlation of the two rank vectors -/
theorem vcorr_spearman_spec (sqrt : Rat → Rat) {S : C12.Std} (hS : S.Ok) (xs ys : List (Option Rat))
    (mp : Option Nat) :
    ∃ o, GenFin.vcorr.run sqrt S xs ys mp .spearman = some o ∧
      GenSim.AgreeW o (C11.Spec.vcorr (mp.getD (xs.length / 2)) (C20.vrank xs) (C20.vrank ys)) :=
  ⟨_, vcorr_spearman_from_source sqrt hS xs ys mp, C11Gen.vcorr_spec sqrt _ _ _⟩

/-- **from source: Spearman correlation is invariant under strictly increasing transformations of
either series** -/
theorem vcorr_spearman_invariant (sqrt : Rat → Rat) {S : C12.Std} (hS : S.Ok) (f g : Rat → Rat)
    (hf : StrictMono f) (hg : StrictMono g) (xs ys : List (Option Rat)) (mp : Option Nat) :
    GenFin.vcorr.run sqrt S (xs.map (Option.map f)) (ys.map (Option.map g)) mp .spearman =
      GenFin.vcorr.run sqrt S xs ys mp .spearman := by
  rw [vcorr_spearman_from_source sqrt hS, vcorr_spearman_from_source sqrt hS,
    vrank_strictMono f hf, vrank_strictMono g hg, List.length_map]

theorem vcorr_present : GenFin.vcorr.parsed = true := rfl

theorem half_life_present : GenFin.half_life.parsed = true ∧ GenFin.half_life.loops = 2 := ⟨rfl, rfl⟩

end Tv.C20Gen
