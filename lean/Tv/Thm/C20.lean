import Tv.Generated
import Tv.Lemmas.C20HalfLife
import Tv.Lemmas.C20Clip
import Tv.Lemmas.C20Rank
import Tv.Lemmas.C20Quantile
import Mathlib.Tactic.Linarith
/-!
# C20 — composite analytics terminate within range and respect their defining relations

Property theorems only (helper lemmas: `Tv/Lemmas/C20*.lean`).

* `half_life` (tevec/src/agg.rs) is the transcribed doubling + bisection search
  (`Tv.C20.halfLife`) over an oracle `c : Nat → Cls` that classifies the lag autocorrelation
  `vcorr_pearson(self, vshift(self, lag))`. `OracleOk c len` is the only fact used about the
  oracle: a correlation above 0.5 needs two valid pairs, so `c l = above → l + 2 ≤ len`.
  The model is the *repaired* code (two `fix:` commits); `halfLife_pinned_wrong` and
  `halfLife_break_wrong` keep concrete witnesses of the two old behaviours.
* `winsorize` (tevec/src/map.rs) is `vclip` applied with the bounds of the chosen method; the
  clipping laws are proved for *every* pair of bounds, hence for all three methods.
* Spearman `vcorr` is `vcorr_pearson` of the two average-rank vectors.
-/
namespace Tv.C20
open Tv

/-! ## half-life -/

/-- **termination**: for every oracle and every length neither `while` loop runs out of the fuel
the model gives it (`len + 1` doubling steps, `len` bisection steps) -/
theorem halfLife_terminates (c : Nat → Cls) (len : Nat) : halfLife c len ≠ .timeout := by
  unfold halfLife
  by_cases h0 : len = 0
  · simp [h0]
  · simp only [h0, if_false]
    obtain ⟨r0, hr0⟩ := doubling_some c len (len + 1) 0 0 0 (by omega) (by intro h; omega)
      (by simpa using four_mul_le_two_pow len)
    rw [hr0]
    have : min r0.1 (len - 1) ≤ len - 1 := Nat.min_le_right _ _
    exact bisect_ne_timeout c len _ _ (by omega) (by omega)

/-- the fuel handed to the two loops suffices (same fact, stated on the loops) -/
theorem halfLife_fuel_suffices (c : Nat → Cls) (len : Nat) (h0 : len ≠ 0) :
    (∃ r0, doubling c len (len + 1) 0 0 0 = some r0) ∧
    ∀ n last, n ≤ len - 1 → bisect c len n last ≠ .timeout :=
  ⟨doubling_some c len (len + 1) 0 0 0 (by omega) (by intro h; omega)
      (by simpa using four_mul_le_two_pow len),
   fun n last hn => bisect_ne_timeout c len n last (by omega) (by omega)⟩

/-- **no panic**: the `usize` subtraction `n - last_n` never underflows -/
theorem halfLife_no_panic (c : Nat → Cls) (len : Nat) (h : OracleOk c len) :
    ∃ r, halfLife c len = .ok r := by
  rcases Nat.lt_or_ge len 2 with hl | hl
  · rcases len with _ | _ | n
    · exact ⟨0, halfLife_zero c⟩
    · exact ⟨0, halfLife_one c h⟩
    · omega
  · obtain ⟨r, hr, _⟩ := halfLife_ok c len h hl
    exact ⟨r, hr⟩

/-- **range**: the lag is at most `len - 1`, and it is 0 exactly for series shorter than two -/
theorem halfLife_range (c : Nat → Cls) (len r : Nat) (h : OracleOk c len)
    (hr : halfLife c len = .ok r) : r ≤ len - 1 ∧ (r = 0 ↔ len < 2) := by
  rcases Nat.lt_or_ge len 2 with hl | hl
  · rcases len with _ | _ | n
    · rw [halfLife_zero] at hr; cases hr; simp
    · rw [halfLife_one c h] at hr; cases hr; simp
    · omega
  · obtain ⟨r', hr', h1, h2, _⟩ := halfLife_ok c len h hl
    rw [hr'] at hr; cases hr
    exact ⟨h2, by omega⟩

/-- **bracket invariant, at exit**: whatever the oracle, the returned lag is a down-crossing —
the autocorrelation at `r` is not above 0.5 and at `r - 1` it is (or `r = 1`) -/
theorem halfLife_crossing (c : Nat → Cls) (len r : Nat) (h : OracleOk c len) (hl : 2 ≤ len)
    (hr : halfLife c len = .ok r) : c r ≠ .above ∧ (r = 1 ∨ c (r - 1) = .above) := by
  obtain ⟨r', hr', _, _, h3, h4⟩ := halfLife_ok c len h hl
  rw [hr'] at hr; cases hr
  exact ⟨h3, h4⟩

/-- **threshold characterisation**: if the autocorrelation stays above 0.5 exactly up to lag `L`,
the half-life is the first lag at which it is not, capped at `len - 1` -/
theorem halfLife_threshold (c : Nat → Cls) (len L r : Nat) (h : OracleOk c len)
    (ht : ∀ l, 1 ≤ l → (c l = .above ↔ l ≤ L)) (hr : halfLife c len = .ok r) :
    r = min (L + 1) (len - 1) := by
  rcases Nat.lt_or_ge len 2 with hl | hl
  · have := (halfLife_range c len r h hr)
    omega
  · obtain ⟨r', hr', h1, h2, h3, h4⟩ := halfLife_ok c len h hl
    rw [hr'] at hr; cases hr
    have hgt : L < r := by
      rcases Nat.lt_or_ge L r with g | g
      · exact g
      · exact absurd ((ht r h1).2 g) h3
    have hle : r ≤ L + 1 := by
      rcases h4 with e | ha
      · omega
      · rcases Nat.lt_or_ge (r - 1) 1 with g | g
        · omega
        · have := (ht (r - 1) g).1 ha; omega
    omega

/-- the from-scratch linear search agrees with the closed form on threshold oracles … -/
theorem spec_halfLife_threshold (c : Nat → Cls) (len L : Nat)
    (ht : ∀ l, 1 ≤ l → (c l = .above ↔ l ≤ L)) :
    Spec.halfLife c len = min (L + 1) (len - 1) := by
  unfold Spec.halfLife
  have hs := firstNotAbove_spec c len
  cases hf : Spec.firstNotAbove c len with
  | some f =>
    rw [hf] at hs
    obtain ⟨h1, h2, h3, h4⟩ := hs
    have hgt : L < f := by
      rcases Nat.lt_or_ge L f with g | g
      · exact g
      · exact absurd ((ht f h1).2 g) h3
    have hle : f ≤ L + 1 := by
      rcases Nat.lt_or_ge (L + 1) f with g | g
      · have := (ht (L + 1) (by omega)).1 (h4 (L + 1) (by omega) g); omega
      · exact g
    simp only [Option.getD_some]
    have : f = L + 1 := by omega
    rw [this]
  | none =>
    rw [hf] at hs
    simp only [Option.getD_none]
    rcases len with _ | n
    · simp
    · have := (ht (n + 1) (by omega)).1 (hs (n + 1) (by omega) (Nat.le_refl _))
      omega

/-- … hence **the transcribed search computes the specification** on every series whose
autocorrelation stays above 0.5 exactly up to some lag -/
theorem halfLife_eq_spec (c : Nat → Cls) (len L : Nat) (h : OracleOk c len)
    (ht : ∀ l, 1 ≤ l → (c l = .above ↔ l ≤ L)) :
    halfLife c len = .ok (Spec.halfLife c len) := by
  obtain ⟨r, hr⟩ := halfLife_no_panic c len h
  rw [hr, spec_halfLife_threshold c len L ht, halfLife_threshold c len L r h ht hr]

/-- the driver's executable test `Spec.thresholdShaped` recognises exactly those series -/
theorem thresholdShaped_iff (c : Nat → Cls) (len : Nat) (h : OracleOk c len) :
    Spec.thresholdShaped c len = true ↔ ∃ L, ∀ l, 1 ≤ l → (c l = .above ↔ l ≤ L) := by
  unfold Spec.thresholdShaped
  have hs := firstNotAbove_spec c len
  cases hf : Spec.firstNotAbove c len with
  | none =>
    rw [hf] at hs
    simp only [true_iff]
    refine ⟨len, fun l h1 => ⟨fun ha => ?_, fun hle => hs l h1 hle⟩⟩
    have := h l ha; omega
  | some f =>
    rw [hf] at hs
    obtain ⟨h1, h2, h3, h4⟩ := hs
    simp only [List.all_eq_true, List.mem_map, List.mem_range, Bool.or_eq_true, decide_eq_true_eq,
      forall_exists_index, and_imp, forall_apply_eq_imp_iff₂]
    constructor
    · intro hall
      refine ⟨f - 1, fun l hl1 => ⟨fun ha => ?_, fun hle => h4 l hl1 (by omega)⟩⟩
      have hlen := h l ha
      rcases hall (l - 1) (by omega) with g | g
      · omega
      · rw [show l - 1 + 1 = l by omega] at g; exact absurd ha g
    · rintro ⟨L, hL⟩ a _
      rcases Nat.lt_or_ge (a + 1) f with g | g
      · exact Or.inl g
      · right
        intro ha
        have h5 := (hL (a + 1) (by omega)).1 ha
        have h6 : ¬ f ≤ L := fun hle => h3 ((hL f h1).2 hle)
        omega

/-! ### the two defects of the pinned tree (F22 and the early `break`) -/

/-- autocorrelation above 0.5 exactly up to lag 40, below afterwards -/
def witness40 (l : Nat) : Cls := if 1 ≤ l ∧ l ≤ 40 then .above else .below

/-- the same with an undefined (NaN) autocorrelation after lag 40 — a pure trend of 64 values
with `min_periods = 24` -/
def witnessNaN (l : Nat) : Cls := if 1 ≤ l ∧ l ≤ 40 then .above else .nan

theorem witness40_ok : OracleOk witness40 64 := by
  intro l h; unfold witness40 at h; split at h <;> first | omega | cases h

theorem witnessNaN_ok : OracleOk witnessNaN 64 := by
  intro l h; unfold witnessNaN at h; split at h <;> first | omega | cases h

/-- **F22, pinned tree**: the `corr > 0.5` branch assigns `(last_n, n) = (life, last_n)`; on a
64-long series whose autocorrelation is above 0.5 exactly up to lag 40 the next `n - last_n`
underflows (panic in the debug profile, a wrong lag in release). `halfLife_no_panic` is false
for the pinned code. -/
theorem halfLife_pinned_wrong : halfLifeOld .pinned witness40 64 = .panic := by decide

/-- smallest witness of F22: five observations, autocorrelation above 0.5 at lags 1–3 -/
theorem halfLife_pinned_wrong_small :
    halfLifeOld .pinned (oracleOfString "aaann") 5 = .panic := by decide

/-- **second defect (early `break`)**: after the F22 repair alone — and equally on the pinned
tree — a NaN (or exactly 0.5) midpoint ends the bisection at once: lag 47 is returned although
the autocorrelation stops being above 0.5 at lag 41. `halfLife_threshold` is false for that code. -/
theorem halfLife_break_wrong :
    halfLifeOld .swapFixed witnessNaN 64 = .ok 47 ∧ halfLifeOld .pinned witnessNaN 64 = .ok 47 ∧
      halfLife witnessNaN 64 = .ok 41 := by decide

/-- the repaired code on the F22 witness -/
theorem halfLife_repaired_witness : halfLife witness40 64 = .ok 41 := by decide

/-! non-vacuity: the hypotheses of the theorems above are satisfiable on a non-trivial oracle -/
theorem witness40_threshold : ∀ l, 1 ≤ l → (witness40 l = .above ↔ l ≤ 40) := by
  intro l h1
  unfold witness40
  constructor
  · intro h; split at h <;> first | omega | cases h
  · intro h; simp [h1, h]

example : OracleOk witness40 64 ∧ (∀ l, 1 ≤ l → (witness40 l = .above ↔ l ≤ 40)) :=
  ⟨witness40_ok, witness40_threshold⟩
example : halfLife witness40 64 = .ok (min (40 + 1) (64 - 1)) := by decide
/-- a non-monotone admissible oracle: the result is still a down-crossing -/
example : halfLife (oracleOfString "abaabnnnnn") 10 = .ok 2 := by decide

/-! ## winsorize

`winsorize m p xs = vclip lo hi xs` with `(lo, hi) = bounds m p xs` (`winsorize_is_vclip`), so the
clipping laws below — proved for **every** pair of bounds, present or NaN — hold for all three
methods, every parameter and every square-root function. -/

/-- winsorizing is clipping to the interval computed by the chosen method -/
theorem winsorize_is_vclip (sqrt : Rat → Rat) (m : Method) (p : Option Rat)
    (xs : List (Option Rat)) :
    winsorize sqrt m p xs = vclip (bounds sqrt m p xs).1 (bounds sqrt m p xs).2 xs := rfl

/-- **one value per input** -/
theorem vclip_length (lo hi : Option Rat) (xs : List (Option Rat)) :
    (vclip lo hi xs).length = xs.length := by
  rw [vclip_eq_map, List.length_map]

/-- **nulls stay null, values stay values** -/
theorem vclip_null (lo hi : Option Rat) (xs : List (Option Rat)) (i : Nat) :
    (vclip lo hi xs)[i]? = some none ↔ xs[i]? = some none := by
  rw [vclip_getElem?]
  cases xs[i]? with
  | none => simp
  | some v => cases v <;> simp

/-- **inside values are fixed**: a value within the (present) bounds is returned unchanged -/
theorem vclip_inside_fixed (lo hi : Option Rat) (xs : List (Option Rat)) (i : Nat) (x : Rat)
    (hx : xs[i]? = some (some x)) (hl : ∀ l, lo = some l → l ≤ x) (hh : ∀ h, hi = some h → x ≤ h) :
    (vclip lo hi xs)[i]? = some (some x) := by
  rw [vclip_getElem?, hx]
  simp [clipVal_inside lo hi x hl hh]

/-- **a value below the lower bound moves onto it** -/
theorem vclip_below_to_lo (l : Rat) (hi : Option Rat) (xs : List (Option Rat)) (i : Nat) (x : Rat)
    (hx : xs[i]? = some (some x)) (hlt : x < l) :
    (vclip (some l) hi xs)[i]? = some (some l) := by
  rw [vclip_getElem?, hx]
  simp [clipVal_below hi l x hlt]

/-- **a value above the upper bound moves onto it** (the bounds being ordered, this is the
nearer bound) -/
theorem vclip_above_to_hi (lo : Option Rat) (h : Rat) (xs : List (Option Rat)) (i : Nat) (x : Rat)
    (hx : xs[i]? = some (some x)) (hgt : h < x) (ho : Ordered lo (some h)) :
    (vclip lo (some h) xs)[i]? = some (some h) := by
  rw [vclip_getElem?, hx]
  simp [clipVal_above lo h x hgt ho]

/-- **clipping to one interval**: for ordered bounds the code's comparison chain is the textbook
`max lo (min x hi)` of the from-scratch specification -/
theorem vclip_is_clip (lo hi : Option Rat) (xs : List (Option Rat)) (ho : Ordered lo hi) :
    vclip lo hi xs = Spec.clip lo hi xs := by
  rw [vclip_eq_map]
  unfold Spec.clip
  apply List.map_congr_left
  intro v _
  cases v with
  | none => rfl
  | some x => simp [clipVal_eq_clip1 lo hi x ho]

/-- every output value lies within the (present, ordered) bounds -/
theorem vclip_within (lo hi : Option Rat) (xs : List (Option Rat)) (i : Nat) (y : Rat)
    (ho : Ordered lo hi) (hy : (vclip lo hi xs)[i]? = some (some y)) :
    (∀ l, lo = some l → l ≤ y) ∧ (∀ h, hi = some h → y ≤ h) := by
  rw [vclip_getElem?] at hy
  cases hx : xs[i]? with
  | none => simp [hx] at hy
  | some v =>
    cases v with
    | none => simp [hx] at hy
    | some x =>
      simp only [hx, Option.map_some, Option.some.injEq] at hy
      rw [← hy]
      exact clipVal_within lo hi x ho

/-- **order preserving**: for ordered bounds, `x ≤ y` at two positions implies the same for the
winsorized values -/
theorem vclip_monotone (lo hi : Option Rat) (xs : List (Option Rat)) (i j : Nat) (x y : Rat)
    (ho : Ordered lo hi) (hx : xs[i]? = some (some x)) (hy : xs[j]? = some (some y)) (hxy : x ≤ y) :
    ∃ x' y', (vclip lo hi xs)[i]? = some (some x') ∧ (vclip lo hi xs)[j]? = some (some y') ∧
      x' ≤ y' := by
  refine ⟨clipVal lo hi x, clipVal lo hi y, ?_, ?_, clipVal_mono lo hi x y ho hxy⟩
  · rw [vclip_getElem?, hx]; rfl
  · rw [vclip_getElem?, hy]; rfl

/-- **idempotent**: clipping a second time to the same ordered bounds changes nothing (every
clipped value already lies inside the interval) -/
theorem vclip_idempotent (lo hi : Option Rat) (xs : List (Option Rat)) (ho : Ordered lo hi) :
    vclip lo hi (vclip lo hi xs) = vclip lo hi xs := by
  apply List.ext_getElem?
  intro i
  rw [vclip_getElem?, vclip_getElem?]
  cases xs[i]? with
  | none => rfl
  | some v =>
    cases v with
    | none => rfl
    | some x =>
      have hw := clipVal_within lo hi x ho
      simp [clipVal_inside lo hi (clipVal lo hi x) hw.1 hw.2]

/-- without the ordering of the bounds clipping is *not* order preserving (so the ordering of
the three methods' bounds is what the "therefore" of the property rests on) -/
theorem vclip_unordered_not_monotone :
    vclip (some 2) (some 1) [some 0, some 3] = [some 2, some 1] := by decide

/-- the laws instantiated for the routine itself: length and nulls for all three methods -/
theorem winsorize_length (sqrt : Rat → Rat) (m : Method) (p : Option Rat)
    (xs : List (Option Rat)) : (winsorize sqrt m p xs).length = xs.length :=
  vclip_length _ _ xs

theorem winsorize_null (sqrt : Rat → Rat) (m : Method) (p : Option Rat)
    (xs : List (Option Rat)) (i : Nat) :
    (winsorize sqrt m p xs)[i]? = some none ↔ xs[i]? = some none :=
  vclip_null _ _ xs i

/-- **the Sigma bounds are ordered** for every multiplier `k ≥ 0` (any non-negative `sqrt`) -/
theorem bounds_sigma_ordered (sqrt : Rat → Rat) (hs : ∀ x, 0 ≤ sqrt x) (p : Option Rat)
    (hp : ∀ k, p = some k → 0 ≤ k) (xs : List (Option Rat)) :
    Ordered (bounds sqrt .sigma p xs).1 (bounds sqrt .sigma p xs).2 := by
  have hk : 0 ≤ p.getD Method.sigma.dflt := by
    cases p with
    | none => simp [Method.dflt]
    | some k => exact hp k rfl
  intro l h hl hh
  unfold bounds at hl hh
  simp only [] at hl hh
  rcases hmv : vmeanVar2 xs with ⟨_ | mean, _ | var⟩ <;> rw [hmv] at hl hh <;>
    simp only [] at hl hh
  · cases hl
  · cases hl
  · cases hl
  · by_cases hv : var > EPS
    · simp only [hv, if_true, Option.some.injEq] at hl hh
      rw [← hl, ← hh]
      have := mul_nonneg hk (hs var)
      linarith
    · simp only [hv, if_false] at hl
      cases hl

/-- **the Quantile bounds are ordered**: `Q(q) ≤ Q(1-q)` for every `0 ≤ q ≤ ½` (default 0.01) -/
theorem bounds_quantile_ordered (sqrt : Rat → Rat) (p : Option Rat)
    (hp : ∀ q, p = some q → 0 ≤ q ∧ q ≤ 1 / 2) (xs : List (Option Rat)) :
    Ordered (bounds sqrt .quantile p xs).1 (bounds sqrt .quantile p xs).2 := by
  have hk : 0 ≤ p.getD Method.quantile.dflt ∧ p.getD Method.quantile.dflt ≤ 1 / 2 := by
    cases p with
    | none => simp only [Option.getD_none, Method.dflt]; constructor <;> norm_num
    | some q => exact hp q rfl
  intro l h hl hh
  unfold bounds at hl hh
  simp only [] at hl hh
  exact vquantile_le_mirror xs _ l h hk.1 hk.2 hl hh

/-- **the Median bounds are ordered**: the MAD is non-negative, so `med - k·MAD ≤ med + k·MAD`
for every `k ≥ 0` (default 3) -/
theorem bounds_median_ordered (sqrt : Rat → Rat) (p : Option Rat)
    (hp : ∀ k, p = some k → 0 ≤ k) (xs : List (Option Rat)) :
    Ordered (bounds sqrt .median p xs).1 (bounds sqrt .median p xs).2 := by
  have hk : 0 ≤ p.getD Method.median.dflt := by
    cases p with
    | none => simp [Method.dflt]
    | some k => exact hp k rfl
  intro l h hl hh
  unfold bounds at hl hh
  simp only [] at hl hh
  cases hmed : vmedian xs with
  | none => rw [hmed] at hl; cases hl
  | some med =>
    rw [hmed] at hl hh
    simp only [] at hl hh
    cases hmad : vmedian (xs.map (Option.map fun v => absR (v - med))) with
    | none => rw [hmad] at hl; cases hl
    | some mad =>
      rw [hmad] at hl hh
      simp only [Option.some.injEq] at hl hh
      have hmad0 : 0 ≤ mad := by
        apply vquantile_nonneg _ (1 / 2) mad (by norm_num) (by norm_num) _ hmad
        intro v hv
        rw [valid_map] at hv
        obtain ⟨w, _, rfl⟩ := List.mem_map.mp hv
        exact absR_nonneg _
      rw [← hl, ← hh]
      have := mul_nonneg hk hmad0
      linarith

/-- the documented parameter ranges: quantile `q ∈ [0, ½]`, multipliers `k ≥ 0`
(`none` = the default 0.01 / 3 / 3) -/
def ParamOk (m : Method) (p : Option Rat) : Prop :=
  match m with
  | .quantile => ∀ q, p = some q → 0 ≤ q ∧ q ≤ 1 / 2
  | _ => ∀ k, p = some k → 0 ≤ k

/-- **all three methods clip to an interval**: their bounds are ordered -/
theorem bounds_ordered (sqrt : Rat → Rat) (hs : ∀ x, 0 ≤ sqrt x) (m : Method) (p : Option Rat)
    (hp : ParamOk m p) (xs : List (Option Rat)) :
    Ordered (bounds sqrt m p xs).1 (bounds sqrt m p xs).2 := by
  cases m with
  | quantile => exact bounds_quantile_ordered sqrt p hp xs
  | median => exact bounds_median_ordered sqrt p hp xs
  | sigma => exact bounds_sigma_ordered sqrt hs p hp xs

/-- winsorizing an already winsorized column *to the same bounds* changes nothing -/
theorem winsorize_reclip (sqrt : Rat → Rat) (hs : ∀ x, 0 ≤ sqrt x) (m : Method) (p : Option Rat)
    (hp : ParamOk m p) (xs : List (Option Rat)) :
    vclip (bounds sqrt m p xs).1 (bounds sqrt m p xs).2 (winsorize sqrt m p xs)
      = winsorize sqrt m p xs := by
  rw [winsorize_is_vclip]
  exact vclip_idempotent _ _ _ (bounds_ordered sqrt hs m p hp xs)

/-- **winsorizing acts as clipping to one interval** (the from-scratch `max lo (min x hi)`) for
every method and every parameter in the documented range -/
theorem winsorize_is_clip (sqrt : Rat → Rat) (hs : ∀ x, 0 ≤ sqrt x) (m : Method) (p : Option Rat)
    (hp : ParamOk m p) (xs : List (Option Rat)) :
    winsorize sqrt m p xs = Spec.clip (bounds sqrt m p xs).1 (bounds sqrt m p xs).2 xs :=
  vclip_is_clip _ _ xs (bounds_ordered sqrt hs m p hp xs)

/-- **winsorizing is order preserving**, for every method and every parameter in range -/
theorem winsorize_monotone (sqrt : Rat → Rat) (hs : ∀ x, 0 ≤ sqrt x) (m : Method) (p : Option Rat)
    (hp : ParamOk m p) (xs : List (Option Rat)) (i j : Nat) (x y : Rat)
    (hx : xs[i]? = some (some x)) (hy : xs[j]? = some (some y)) (hxy : x ≤ y) :
    ∃ x' y', (winsorize sqrt m p xs)[i]? = some (some x') ∧
      (winsorize sqrt m p xs)[j]? = some (some y') ∧ x' ≤ y' :=
  vclip_monotone _ _ xs i j x y (bounds_ordered sqrt hs m p hp xs) hx hy hxy

/-- **inside the bounds unchanged, outside moved onto the nearer bound** — for the routine itself -/
theorem winsorize_values (sqrt : Rat → Rat) (hs : ∀ x, 0 ≤ sqrt x) (m : Method) (p : Option Rat)
    (hp : ParamOk m p) (xs : List (Option Rat)) (i : Nat) (x : Rat) (hx : xs[i]? = some (some x)) :
    (∀ l h, bounds sqrt m p xs = (some l, some h) →
      (l ≤ x → x ≤ h → (winsorize sqrt m p xs)[i]? = some (some x)) ∧
      (x < l → (winsorize sqrt m p xs)[i]? = some (some l)) ∧
      (h < x → (winsorize sqrt m p xs)[i]? = some (some h))) ∧
    (bounds sqrt m p xs = (none, none) → (winsorize sqrt m p xs)[i]? = some (some x)) := by
  have ho := bounds_ordered sqrt hs m p hp xs
  constructor
  · intro l h hb
    rw [winsorize_is_vclip]
    rw [hb] at ho ⊢
    refine ⟨fun h1 h2 => ?_, fun h1 => ?_, fun h1 => ?_⟩
    · exact vclip_inside_fixed _ _ xs i x hx (fun l' e => by cases e; exact h1)
        (fun h' e => by cases e; exact h2)
    · exact vclip_below_to_lo l _ xs i x hx h1
    · exact vclip_above_to_hi _ h xs i x hx h1 ho
  · intro hb
    rw [winsorize_is_vclip, hb]
    exact vclip_inside_fixed _ _ xs i x hx (fun l' e => by cases e) (fun h' e => by cases e)

/-- the square root used by the driver is non-negative (so `bounds_ordered` applies to it) -/
theorem sqrtApprox_nonneg (x : Rat) : 0 ≤ sqrtApprox x := by
  unfold sqrtApprox
  split
  · exact le_refl _
  · exact div_nonneg (Nat.cast_nonneg _) (mul_nonneg (Nat.cast_nonneg _) (by norm_num))

/-! non-vacuity (the test vector of `test_winsorize`, Quantile 0.1 / Median 1) -/
example : winsorize sqrtApprox .median (some 1)
    [some 1, some 2, some 3, some 4, some 5, some 6, some 7, some 8, some 9, some 10]
    = [some 3, some 3, some 3, some 4, some 5, some 6, some 7, some 8, some 8, some 8] := by
  decide +kernel
example : Ordered (some (3 : Rat)) (some 8) := by
  intro l h hl hh; cases hl; cases hh; decide +kernel

/-! ## Spearman correlation -/

/-- **Spearman = Pearson of the average ranks** (`min_periods` defaulting to `len / 2`) -/
theorem spearman_def (xs ys : List (Option Rat)) (mp : Option Nat) :
    vcorrSpearman xs ys mp = pearson (vrank xs) (vrank ys) (mp.getD (xs.length / 2)) := rfl

/-- the rank of a value is `1 + #smaller + (#equal - 1)/2`, nulls have no rank -/
theorem vrank_getElem? (xs : List (Option Rat)) (i : Nat) :
    (vrank xs)[i]? = xs[i]?.map (Option.map fun v =>
      1 + (((valid xs).filter (· < v)).length : Rat) +
        ((((valid xs).filter (· = v)).length : Rat) - 1) / 2) := by
  unfold vrank
  rw [List.getElem?_map]
  rfl

/-- **ranks are invariant under a strictly increasing transformation** -/
theorem vrank_strictMono (f : Rat → Rat) (hf : StrictMono f) (xs : List (Option Rat)) :
    vrank (xs.map (Option.map f)) = vrank xs := vrank_map f hf xs

/-- **Spearman correlation is invariant under strictly increasing transformations of either
series** -/
theorem spearman_invariant (f g : Rat → Rat) (hf : StrictMono f) (hg : StrictMono g)
    (xs ys : List (Option Rat)) (mp : Option Nat) :
    vcorrSpearman (xs.map (Option.map f)) (ys.map (Option.map g)) mp = vcorrSpearman xs ys mp := by
  unfold vcorrSpearman
  simp only [vrank_map f hf, vrank_map g hg, List.length_map]

/-! non-vacuity: `x ↦ 2x+1` and `x ↦ x³` (two of the harness transforms) are strictly increasing -/
example : StrictMono (fun x : Rat => 2 * x + 1) := by
  intro a b h; show 2 * a + 1 < 2 * b + 1; linarith
example : vrank [some 3, none, some 1, some 3] = [some (5 / 2), none, some 1, some (5 / 2)] := by
  decide +kernel

/-! ## translator tie (`translator/extract.py` → `Tv/Generated.lean`) -/

/-- the two loops of `half_life` in the source tree (comments and whitespace removed) are
textually the loops that `doubling`, `min n (len - 1)` and `bisect` transcribe — any edit of the
loops breaks this obligation before a single input is run -/
theorem halfLife_loops_matches :
    Generated.c20DoublingLoop =
      "n=2usize.pow(i);lets_shift=self.titer().vshift(nasi32,None);letcorr:f64=self.titer().vcorr_pearson(s_shift,min_periods);if(corr<=0.5)||corr.is_nan(){break;}else{last_n=n;}i+=1;" ∧
    Generated.c20BetweenLoops = "n=n.min(self.len()-1);letmutlife:usize;" ∧
    Generated.c20BisectLoop =
      "life=(n+last_n)/2;letcorr:f64=self.titer().vcorr_pearson(self.titer().vshift(lifeasi32,None),min_periods);ifcorr>0.5{last_n=life;}else{n=life;}" :=
  ⟨rfl, rfl, rfl⟩

/-- the default `method_params` of `winsorize` in the source tree are the model's defaults -/
theorem winsorize_defaults_matches :
    Generated.c20WinsorizeDefaults.map (fun p => (p.1 : Rat) / (p.2 : Rat)) =
      [Method.quantile.dflt, Method.median.dflt, Method.sigma.dflt] := by
  decide +kernel

end Tv.C20
