import Tv.Lemmas.C12Part
import Tv.Lemmas.C12Pct
import Tv.Lemmas.C12Quant
import Tv.Lemmas.C12RankLoop
import Tv.Lemmas.C12Gen
/-!
# C12 — quantiles, percentile ranks, ranks and partitions are true order statistics

Property theorems only (helper lemmas live in `Tv/Lemmas/C12*.lean`).

Every theorem about a kernel that calls `sort_unstable_by` / `select_nth_unstable_by` is stated for an
**arbitrary** `S : Std` satisfying the std contract `S.Ok` (the sort returns a pairwise-ordered
permutation; the selection returns `(head, m, tail)` with `head ≤ m ≤ tail` and `|head| = j`), so it
holds whatever permutation the unstable algorithms actually produce. `exec_ok` shows the contract is
satisfiable (by the instance the model driver runs).

The specification side (`Tv.C12.Spec`) is written from scratch on `List.mergeSort` of the non-null
elements and plain counts.
-/
namespace Tv.C12
open Tv

/-- the std contract is satisfiable: the driver's insertion-sort instance meets it -/
theorem exec_ok : Std.exec.Ok := Std.exec_ok

/-- **tie to the source text** (translator/extract.py → `Tv/Generated.lean`): the match arms of
`IsNone::sort_cmp` / `sort_cmp_rev` as they stand in tea-dtype/src/isnone.rs denote exactly the
comparators the model is built from (nulls last in both directions, `partial_cmp` resp. its
reverse on values); `vmedian` is `vquantile(1/2, Linear)`; the direct branch is taken for `q <= 1/2`.
An edit of any of these fragments breaks this theorem before a single input is run. -/
theorem c12_matches :
    (∀ a b, cmpOfTable Generated.c12SortCmp a b = some (sortCmp a b)) ∧
    (∀ a b, cmpOfTable Generated.c12SortCmpRev a b = some (sortCmpRev a b)) ∧
    Generated.c12MedianQ = (1, 2) ∧ Generated.c12MedianMethod = "Linear" ∧
    Generated.c12BranchTest = ("<=", (1, 2)) := by
  refine ⟨?_, ?_, rfl, rfl, rfl⟩ <;> intro a b <;> cases a <;> cases b <;> rfl

/-! ## quantile and median -/

/-- **the `q`-quantile is the value at fractional index `(n-1)·q` of the sorted non-null elements
under the requested interpolation** — for every series (nulls anywhere, ties), every `q ∈ [0,1]`
(both the direct branch `q ≤ 1/2` and the mirrored branch `q > 1/2` that selects on the descending
order), all four interpolations, and whatever permutation `select_nth_unstable_by` produces. -/
theorem quantile_exact {S : Std} (hS : S.Ok) (xs : List Elem) (q : Rat) (m : QMethod)
    (h0 : 0 ≤ q) (h1 : q ≤ 1) : vquantile S xs q m = .ok (Spec.quantile xs q (toInterp m)) := by
  unfold vquantile
  rw [if_neg (not_not.mpr ⟨h0, h1⟩)]
  simp only []
  by_cases hn0 : (valid xs).length = 0
  · rw [if_pos hn0]; simp [Spec.quantile, hn0]
  · rw [if_neg hn0]
    by_cases hn1 : (valid xs).length = 1
    · rw [if_pos hn1, vquantile_one xs q m hn1]
    · rw [if_neg hn1]
      have hn : 2 ≤ (valid xs).length := by omega
      have hspec : Spec.quantile xs q (toInterp m) = Spec.interp (Spec.sortedValid xs false)
          ((((valid xs).length - 1 : Nat) : Rat) * q) (toInterp m) := by
        simp [Spec.quantile, hn0]
      by_cases hq : q ≤ 1 / 2
      · rw [if_pos hq, hspec]; exact vquantile_low hS xs q m h0 h1 hn
      · rw [if_neg hq, hspec]; exact vquantile_high hS xs q m (not_le.mp hq) h1 hn

/-- `q` outside `[0,1]` is rejected with an error -/
theorem quantile_err (S : Std) (xs : List Elem) (q : Rat) (m : QMethod) (h : ¬ (0 ≤ q ∧ q ≤ 1)) :
    vquantile S xs q m = .err := by
  unfold vquantile; rw [if_pos h]

/-- **the quantile is null only when there is no valid element** -/
theorem quantile_null_iff {S : Std} (hS : S.Ok) (xs : List Elem) (q : Rat) (m : QMethod)
    (h0 : 0 ≤ q) (h1 : q ≤ 1) : vquantile S xs q m = .ok .null ↔ (valid xs).length = 0 := by
  rw [quantile_exact hS xs q m h0 h1]
  constructor
  · intro h
    by_contra hn
    obtain ⟨v, hv⟩ := spec_quantile_val xs q (toInterp m) h0 h1 (Nat.pos_of_ne_zero hn)
    rw [hv] at h
    cases h
  · intro hn; simp [Spec.quantile, hn]

/-- the median is the `0.5`-quantile with linear interpolation -/
theorem median_eq {S : Std} (hS : S.Ok) (xs : List Elem) : vmedian S xs = .ok (Spec.median xs) := by
  unfold vmedian Spec.median
  exact quantile_exact hS xs (1 / 2) .linear (by norm_num) (by norm_num)

/-- the index lemma behind the mirrored branch: `⌊L - t⌋ = L - ⌈t⌉` and `⌈L - t⌉ = L - ⌊t⌋` -/
theorem mirror_index_nat (L : Nat) {t : Rat} (ht : 0 ≤ t) (htL : t ≤ (L : Rat)) :
    ((L : Rat) - t).floor.toNat = L - t.ceil.toNat ∧ ((L : Rat) - t).ceil.toNat = L - t.floor.toNat :=
  mirror_index L ht htL

/-- descending order read backwards is ascending order: `desc[j] = asc[n-1-j]` -/
theorem desc_get (xs : List Elem) {j : Nat} (hj : j < (valid xs).length) :
    (Spec.sortedValid xs true)[j]? = (Spec.sortedValid xs false)[(valid xs).length - 1 - j]? :=
  sortedValid_rev_get xs hj

/-- F11 (pinned tree): with exactly one valid element `slc[0]` was returned even when it is null -/
theorem quantile_pinned_wrong :
    vquantilePinned Std.exec [none, some 5] (1 / 2) .linear = .ok .null ∧
    vquantile Std.exec [none, some 5] (1 / 2) .linear = .ok (.val 5) := by
  constructor <;> decide +kernel

/-- non-vacuity: nulls around the data, ties, both branches, all four interpolations -/
example : vquantile Std.exec [none, some 3, some 1, none, some 1, some 4] (1 / 4) .linear = .ok (.val 1) ∧
    vquantile Std.exec [none, some 3, some 1, none, some 1, some 4] (7 / 8) .linear = .ok (.val (29 / 8)) ∧
    vquantile Std.exec [none, some 3, some 1, none, some 1, some 4] (7 / 8) .lower = .ok (.val 3) ∧
    vquantile Std.exec [none, some 3, some 1, none, some 1, some 4] (7 / 8) .higher = .ok (.val 4) ∧
    vquantile Std.exec [none, some 3, some 1, none, some 1, some 4] (7 / 8) .midpoint = .ok (.val (7 / 2)) := by
  refine ⟨?_, ?_, ?_, ?_, ?_⟩ <;> decide +kernel

/-! ## percentile of score -/

/-- **rank kind**: `(#< + #≤ + [#≤ > #<]) / (2n)`, the mean percentage rank of the matching scores -/
theorem percentile_rank_exact (xs : List Elem) (s : Rat) :
    vpercentileOf xs (some s) .rank = Spec.percentileOf xs (some s) .rank :=
  vpercentileOf_rank xs s

/-- **weak kind**: `#≤ / n` -/
theorem percentile_weak_exact (xs : List Elem) (s : Rat) :
    vpercentileOf xs (some s) .weak = Spec.percentileOf xs (some s) .weak :=
  vpercentileOf_weak xs s

/-- **strict kind**: `#< / n` -/
theorem percentile_strict_exact (xs : List Elem) (s : Rat) :
    vpercentileOf xs (some s) .strict = Spec.percentileOf xs (some s) .strict :=
  vpercentileOf_strict xs s

/-- a null score has a null percentile, whatever the data -/
theorem percentile_null_score (xs : List Elem) (m : PMethod) : vpercentileOf xs none m = .null := rfl

/-- the result is null exactly when the score is null or there is no valid element -/
theorem percentile_null_iff (xs : List Elem) (score : Elem) (m : PMethod) :
    vpercentileOf xs score m = .null ↔ score = none ∨ (valid xs).length = 0 := by
  cases score with
  | none => simp [vpercentileOf]
  | some s =>
    have key : ∀ k, Spec.percentileOf xs (some s) k = .null ↔ (valid xs).length = 0 := by
      intro k
      by_cases hn : (valid xs).length = 0
      · simp [Spec.percentileOf, hn]
      · cases k <;> simp [Spec.percentileOf, hn]
    cases m
    · rw [percentile_rank_exact]; simpa using key .rank
    · rw [percentile_weak_exact]; simpa using key .weak
    · rw [percentile_strict_exact]; simpa using key .strict

example : vpercentileOf [some 1, none, some 2, none, some 3, some 3, some 3, some 4, some 5] (some 3) .rank
    = .val (4 / 7) := by
  rw [percentile_rank_exact]; decide +kernel

/-! ## rank -/

/-- **`vrank(pct, rev)` assigns every non-null element its average rank and null to nulls**: the
output (every slot initialised — no `none`) is the from-scratch rank vector: element `v` gets
`#before + (#equal + 1)/2` where "before" means smaller (ascending) or larger (`rev`), divided by the
number of valid elements when `pct`. Holds for every series (nulls anywhere, ties, all-null, length
0 and 1) and for whatever order the unstable argsort leaves tied indices in. -/
theorem vrank_exact {S : Std} (hS : S.Ok) (xs : List Elem) (pct rev : Bool) :
    vrank S xs pct rev = (Spec.rank xs pct rev).map some :=
  vrank_spec hS xs pct rev

/-- output length = input length -/
theorem vrank_length {S : Std} (hS : S.Ok) (xs : List Elem) (pct rev : Bool) :
    (vrank S xs pct rev).length = xs.length := by
  rw [vrank_exact hS]; simp [Spec.rank]

/-- slot `i` is null exactly when element `i` is null -/
theorem vrank_null_iff {S : Std} (hS : S.Ok) (xs : List Elem) (pct rev : Bool) (i : Nat)
    (hi : i < xs.length) : (vrank S xs pct rev)[i]? = some (some .null) ↔ xs[i] = none := by
  rw [vrank_exact hS]
  simp only [Spec.rank, List.map_map, List.getElem?_map, List.getElem?_eq_getElem hi, Option.map_some,
    Function.comp]
  cases xs[i] <;> simp

/-- positional form: the rank of a non-null element -/
theorem vrank_get {S : Std} (hS : S.Ok) (xs : List Elem) (pct rev : Bool) (i : Nat) (v : Rat)
    (hi : i < xs.length) (hv : xs[i] = some v) :
    (vrank S xs pct rev)[i]? = some (some (.val (Spec.avgRank xs pct rev v))) := by
  rw [vrank_exact hS]
  simp only [Spec.rank, List.map_map, List.getElem?_map, List.getElem?_eq_getElem hi, Option.map_some,
    Function.comp, hv]

/-- F18 (pinned tree): a single null element was ranked `1.0` -/
theorem rank_pinned_wrong :
    vrankPinned Std.exec [none] false false = [some (.val 1)] ∧
    vrank Std.exec [none] false false = [some .null] := by
  constructor <;> decide +kernel

/-- non-vacuity: ties, a null in the middle, both directions, fraction form -/
example : vrank Std.exec [some 2, some 1, none, some 3, some 1] false false
    = [some (.val 3), some (.val (3 / 2)), some .null, some (.val 4), some (.val (3 / 2))] := by
  decide +kernel
example : vrank Std.exec [some 2, some 1, none, some 3, some 1] true true
    = [some (.val (1 / 2)), some (.val (7 / 8)), some .null, some (.val (1 / 4)), some (.val (7 / 8))] := by
  decide +kernel

/-! ## partition -/

/-- **`vpartition(k, sort, rev)` returns exactly `k+1` entries**, never panics, and they are a
rearrangement of the spec's partition (the `k+1` smallest — largest when `rev` — non-null elements,
null-padded when fewer exist); with `sort = true` they are that list itself, in order. -/
theorem partition_exact {S : Std} (hS : S.Ok) (xs : List Elem) (k : Nat) (sort rev : Bool) :
    ∃ r, vpartition S xs k sort rev = some r ∧ r.length = k + 1 ∧
      r.Perm (Spec.partition xs k rev) ∧ (sort = true → r = Spec.partition xs k rev) := by
  obtain ⟨r, h1, h2, h3⟩ := vpartition_spec hS xs k sort rev
  exact ⟨r, h1, by rw [h2.length_eq, spec_partition_length], h2, h3⟩

/-- the spec's partition has `k+1` entries: the first `min(k+1, n)` are non-null, the rest null -/
theorem partition_spec_shape (xs : List Elem) (k : Nat) (rev : Bool) :
    (Spec.partition xs k rev).length = k + 1 ∧
    Spec.partition xs k rev = ((Spec.sortedValid xs rev).take (k + 1)).map some ++
      List.replicate (k + 1 - min (k + 1) (valid xs).length) none :=
  ⟨spec_partition_length xs k rev, spec_partition_eq xs k rev⟩

/-- number of null entries of a partition result = padding only (`k+1 - min(k+1, n)`): a partition
never picks a null element while a non-null one is available -/
theorem partition_padding {S : Std} (hS : S.Ok) (xs : List Elem) (k : Nat) (sort rev : Bool) :
    ∃ r, vpartition S xs k sort rev = some r ∧
      r.count none = k + 1 - min (k + 1) (valid xs).length := by
  obtain ⟨r, h1, h2, _⟩ := vpartition_spec hS xs k sort rev
  refine ⟨r, h1, ?_⟩
  rw [h2.count_eq, spec_partition_eq, List.count_append, List.count_replicate_self]
  have : List.count none (((Spec.sortedValid xs rev).take (k + 1)).map some) = 0 := by
    rw [List.count_eq_zero]
    intro h
    have := List.mem_map.mp h
    obtain ⟨v, _, hv⟩ := this
    cases hv
  omega

/-- **`varg_partition(k, sort, rev)`**: never panics; the result is a list `idx` of pairwise distinct,
in-range indices of **non-null** elements followed by `-1` padding up to exactly `k+1` entries
(`ArgOk`); the values the entries refer to (`none` for `-1`) are a rearrangement of the spec's
partition, and equal to it, in order, when `sort = true`. -/
theorem argpartition_exact {S : Std} (hS : S.Ok) (xs : List Elem) (k : Nat) (sort rev : Bool) :
    ∃ r idx, vargPartition S xs k sort rev = some r ∧ r.length = k + 1 ∧ ArgOk xs k r idx ∧
      (argValues xs k idx).Perm (Spec.partition xs k rev) ∧
      (sort = true → argValues xs k idx = Spec.partition xs k rev) := by
  obtain ⟨r, idx, h1, h2, h3, h4⟩ := vargPartition_spec hS xs k sort rev
  refine ⟨r, idx, h1, ?_, h2, h3, h4⟩
  rw [h2.shape]; simp; have := h2.len; omega

/-- every non-negative entry of an arg-partition points at a non-null element -/
theorem argpartition_valid {S : Std} (hS : S.Ok) (xs : List Elem) (k : Nat) (sort rev : Bool) :
    ∃ r, vargPartition S xs k sort rev = some r ∧
      ∀ e ∈ r, e = -1 ∨ ∃ i : Nat, e = Int.ofNat i ∧ i < xs.length ∧ ∃ v, xs[i]? = some (some v) := by
  obtain ⟨r, idx, h1, h2, _, _⟩ := vargPartition_spec hS xs k sort rev
  refine ⟨r, h1, ?_⟩
  intro e he
  rw [h2.shape, List.mem_append] at he
  rcases he with he | he
  · obtain ⟨i, hi, rfl⟩ := List.mem_map.mp he
    exact Or.inr ⟨i, rfl, h2.valid i hi⟩
  · exact Or.inl (List.mem_replicate.mp he).2

/-- F19 (pinned tree): `vpartition(k ≥ len, sort = true)` returned `len`, not `k+1`, entries -/
theorem partition_pinned_wrong :
    (vpartitionPinned Std.exec [some 1, none] 5 true false).map List.length = some 2 := by
  decide +kernel

/-- non-vacuity: nulls in the middle, ties, both directions, padding -/
example : vpartition Std.exec [some 1, none, some 3, none, none] 2 true true = some [some 3, some 1, none] := by
  decide +kernel
example : vargPartition Std.exec [some 1, none, some 3, none, none] 2 true true = some [2, 0, -1] := by
  decide +kernel
example : Spec.partition [some 1, none, some 3, none, none] 2 true = [some 3, some 1, none] := by
  obtain ⟨r, h1, _, _, h4⟩ := partition_exact exec_ok [some 1, none, some 3, none, none] 2 true true
  rw [← h4 rfl]
  have : vpartition Std.exec [some 1, none, some 3, none, none] 2 true true = some [some 3, some 1, none] := by
    decide +kernel
  rw [this] at h1
  exact (Option.some.inj h1).symm

end Tv.C12
