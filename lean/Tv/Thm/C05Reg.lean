import Tv.Thm.C04
import Tv.Lemmas.Local
/-!
# C05, Part 3 — covariance / correlation / regression family (from the C04 `_exact` theorems)

Effective minimum: `effMp mp w f.minK = max (min (min_periods or w/2) w) k` with `k = 2` for
`ts_vcov` (the F20 repair) and `k = 0` for the other eleven single-valued entry points. The count
is the number of *pairwise-complete* observations of the window
(`Spec.complete (window (xs.zip ys) i w)`) for the two-series functions, and the number of non-null
elements of the window (`vwin xs i w`) for the time-trend family.

The twelve `_exact` theorems of `Thm/C04.lean` are first packaged as two uniform statements
(`ts2_exact`, `ts1_exact`) over `Fn2` / `Fn1`; length, warm-up nulls and non-null-after-warm-up are
read off the from-scratch definitions. The two-series statements carry the hypothesis
`ys.length = xs.length` of their `_exact` theorems.
-/
namespace Tv.C05
open Tv Tv.C04 Tv.C04.Spec

/-- the from-scratch per-window definition of each two-series entry point -/
def spec2 : Fn2 → Nat → List (Rat × Rat) → Out
  | .cov => cov
  | .corr => corr
  | .alpha => regxAlpha
  | .beta => regxBeta
  | .residMean => regxResidMean
  | .residStd => regxResidStd
  | .residSkew => regxResidSkew

/-- the from-scratch per-window definition of each time-trend entry point -/
def spec1 : Fn1 → Nat → List Rat → Out
  | .reg => trendFitted
  | .tsf => trendForecast
  | .slope => trendSlope
  | .intercept => trendIntercept
  | .residMean => trendMsr

/-- the seven two-series `_exact` theorems of C04 as one statement over `Fn2` -/
theorem ts2_exact (f : Fn2) (sh : Shape) (xs ys : List (Option Rat)) (w : Nat) (mp : Option Nat)
    (hw : 1 ≤ w) (hlen : ys.length = xs.length) :
    ts2 f sh xs ys w mp = rolling2 (spec2 f (effMp mp w f.minK)) xs ys w := by
  cases f
  · exact vcov_exact sh xs ys w mp hw hlen
  · exact vcorr_exact sh xs ys w mp hw hlen
  · exact vregx_alpha_exact sh xs ys w mp hw hlen
  · exact vregx_beta_exact sh xs ys w mp hw hlen
  · exact vregx_resid_mean_exact sh xs ys w mp hw hlen
  · exact vregx_resid_std_exact sh xs ys w mp hw hlen
  · exact vregx_resid_skew_exact sh xs ys w mp hw hlen

/-- the five time-trend `_exact` theorems of C04 as one statement over `Fn1` -/
theorem ts1_exact (f : Fn1) (sh : Shape) (xs : List (Option Rat)) (w : Nat) (mp : Option Nat)
    (hw : 1 ≤ w) :
    ts1 f sh xs w mp = rolling1 (spec1 f (effMp mp w 0)) xs w := by
  cases f
  · exact vreg_exact sh xs w mp hw
  · exact vtsf_exact sh xs w mp hw
  · exact vreg_slope_exact sh xs w mp hw
  · exact vreg_intercept_exact sh xs w mp hw
  · exact vreg_resid_mean_exact sh xs w mp hw

/-- every two-series from-scratch value is null exactly below the minimum `m`: above it the value
is `.val`, `.root` or `.degen` (zero denominator / undefined statistic), never `.null` -/
theorem spec2_null_iff (f : Fn2) (m : Nat) (l : List (Rat × Rat)) :
    spec2 f m l = .null ↔ l.length < m := by
  constructor
  · intro h
    by_contra hc
    have hc' : l.length ≥ m := Nat.le_of_not_lt hc
    cases f <;>
      simp only [spec2, cov, corr, regxAlpha, regxBeta, regxResidMean, regxResidStd, regxResidSkew,
        regx, masked, if_pos hc'] at h <;>
      repeat (first | split at h | cases h)
  · intro h
    have hn : ¬ l.length ≥ m := Nat.not_le_of_lt h
    cases f <;>
      simp only [spec2, cov, corr, regxAlpha, regxBeta, regxResidMean, regxResidStd, regxResidSkew,
        regx, masked, if_neg hn]

/-- every time-trend from-scratch value is null exactly below the minimum `m` -/
theorem spec1_null_iff (f : Fn1) (m : Nat) (v : List Rat) :
    spec1 f m v = .null ↔ v.length < m := by
  constructor
  · intro h
    by_contra hc
    have hc' : v.length ≥ m := Nat.le_of_not_lt hc
    cases f <;>
      simp only [spec1, trendFitted, trendForecast, trendSlope, trendIntercept, trendMsr, trend,
        if_pos hc'] at h <;>
      repeat (first | split at h | cases h)
  · intro h
    have hn : ¬ v.length ≥ m := Nat.not_le_of_lt h
    cases f <;>
      simp only [spec1, trendFitted, trendForecast, trendSlope, trendIntercept, trendMsr, trend,
        if_neg hn]

/-- **length**: each of the 12 single-valued entry points of the covariance / correlation /
regression family returns one output per input position (equal-length series for the two-series
functions), and `[]` on `[]` -/
theorem c04_len (sh : Shape) (w : Nat) (mp : Option Nat) (hw : 1 ≤ w) :
    (∀ (f : Fn2) (xs ys : List (Option Rat)), ys.length = xs.length →
      (ts2 f sh xs ys w mp).length = xs.length) ∧
    (∀ f : Fn2, ts2 f sh [] [] w mp = []) ∧
    (∀ (f : Fn1) (xs : List (Option Rat)), (ts1 f sh xs w mp).length = xs.length) ∧
    (∀ f : Fn1, ts1 f sh [] w mp = []) := by
  refine ⟨?_, ?_, ?_, ?_⟩
  · intro f xs ys hlen
    rw [ts2_exact f sh xs ys w mp hw hlen]; simp [rolling2]
  · intro f
    rw [ts2_exact f sh [] [] w mp hw rfl]; simp [rolling2]
  · intro f xs
    rw [ts1_exact f sh xs w mp hw]; simp [rolling1]
  · intro f
    rw [ts1_exact f sh [] w mp hw]; simp [rolling1]

/-- `ts_vregx_all` returns one triple per input position too -/
theorem c04_all_len (sh : Shape) (xs ys : List (Option Rat)) (w : Nat) (mp : Option Nat) (hw : 1 ≤ w)
    (hlen : ys.length = xs.length) : (tsRegxAll sh xs ys w mp).length = xs.length := by
  rw [vregx_all_exact sh xs ys w mp hw hlen]; simp

/-- **mask law (iff form)**: output `i` of a two-series entry point is null iff the window holds
fewer than `effMp mp w f.minK` pairwise-complete observations; output `i` of a trend entry point is
null iff the window holds fewer than `effMp mp w 0` non-null values -/
theorem c04_null_iff (sh : Shape) (w : Nat) (mp : Option Nat) (hw : 1 ≤ w) :
    (∀ (f : Fn2) (xs ys : List (Option Rat)), ys.length = xs.length → ∀ i, i < xs.length →
      ((ts2 f sh xs ys w mp)[i]? = some .null ↔
        (complete (window (xs.zip ys) i w)).length < effMp mp w f.minK)) ∧
    (∀ (f : Fn1) (xs : List (Option Rat)) (i : Nat), i < xs.length →
      ((ts1 f sh xs w mp)[i]? = some .null ↔ (vwin xs i w).length < effMp mp w 0)) := by
  constructor
  · intro f xs ys hlen i hi
    rw [ts2_exact f sh xs ys w mp hw hlen]
    simp only [rolling2, List.getElem?_map, List.getElem?_range hi, Option.map_some, Option.some.injEq]
    exact spec2_null_iff f _ _
  · intro f xs i hi
    rw [ts1_exact f sh xs w mp hw]
    simp only [rolling1, List.getElem?_map, List.getElem?_range hi, Option.map_some, Option.some.injEq]
    exact spec1_null_iff f _ _

/-- **mask law, warm-up**: output `i` is `.null` whenever the number of pairwise-complete
observations of window `i` (resp. of non-null values, for the trend family) is below the effective
minimum `effMp mp w f.minK` (resp. `effMp mp w 0`) -/
theorem c04_null_below (sh : Shape) (w : Nat) (mp : Option Nat) (hw : 1 ≤ w) :
    (∀ (f : Fn2) (xs ys : List (Option Rat)), ys.length = xs.length → ∀ i, i < xs.length →
      (complete (window (xs.zip ys) i w)).length < effMp mp w f.minK →
      (ts2 f sh xs ys w mp)[i]? = some .null) ∧
    (∀ (f : Fn1) (xs : List (Option Rat)) (i : Nat), i < xs.length →
      (vwin xs i w).length < effMp mp w 0 → (ts1 f sh xs w mp)[i]? = some .null) :=
  ⟨fun f xs ys hlen i hi h => ((c04_null_iff sh w mp hw).1 f xs ys hlen i hi).mpr h,
   fun f xs i hi h => ((c04_null_iff sh w mp hw).2 f xs i hi).mpr h⟩

/-- **mask law, after warm-up**: once the count reaches the effective minimum, output `i` is not
`.null` — it is a value, a (signed) root, or `.degen` for a zero denominator / undefined
statistic. Holds for all 12 functions without exception: none of the from-scratch definitions
returns `.null` above the mask. -/
theorem c04_nonnull_at (sh : Shape) (w : Nat) (mp : Option Nat) (hw : 1 ≤ w) :
    (∀ (f : Fn2) (xs ys : List (Option Rat)), ys.length = xs.length → ∀ i, i < xs.length →
      effMp mp w f.minK ≤ (complete (window (xs.zip ys) i w)).length →
      (ts2 f sh xs ys w mp)[i]? ≠ some .null) ∧
    (∀ (f : Fn1) (xs : List (Option Rat)) (i : Nat), i < xs.length →
      effMp mp w 0 ≤ (vwin xs i w).length → (ts1 f sh xs w mp)[i]? ≠ some .null) :=
  ⟨fun f xs ys hlen i hi h hn =>
      Nat.not_lt_of_le h (((c04_null_iff sh w mp hw).1 f xs ys hlen i hi).mp hn),
   fun f xs i hi h hn => Nat.not_lt_of_le h (((c04_null_iff sh w mp hw).2 f xs i hi).mp hn)⟩

/-- the three components of `ts_vregx_all` follow the same mask: all null below `effMp mp w 0`
pairwise-complete observations, none null from there on -/
theorem c04_all_null_iff (sh : Shape) (xs ys : List (Option Rat)) (w : Nat) (mp : Option Nat)
    (hw : 1 ≤ w) (hlen : ys.length = xs.length) (i : Nat) (hi : i < xs.length) :
    ((complete (window (xs.zip ys) i w)).length < effMp mp w 0 →
      (tsRegxAll sh xs ys w mp)[i]? = some (.null, .null, .null)) ∧
    (effMp mp w 0 ≤ (complete (window (xs.zip ys) i w)).length →
      ∃ a b s, (tsRegxAll sh xs ys w mp)[i]? = some (a, b, s) ∧ a ≠ .null ∧ b ≠ .null ∧ s ≠ .null) := by
  rw [vregx_all_exact sh xs ys w mp hw hlen]
  simp only [List.getElem?_map, List.getElem?_range hi, Option.map_some, Option.some.injEq]
  constructor
  · intro h
    have hn : ¬ (complete (window (xs.zip ys) i w)).length ≥ effMp mp w 0 := Nat.not_le_of_lt h
    simp only [regxAlpha, regxBeta, regxSse, regx, masked, if_neg hn]
  · intro h
    refine ⟨_, _, _, rfl, ?_, ?_, ?_⟩
    · exact fun hn => Nat.not_lt_of_le h ((spec2_null_iff .alpha _ _).mp hn)
    · exact fun hn => Nat.not_lt_of_le h ((spec2_null_iff .beta _ _).mp hn)
    · intro hn
      have h' : (complete (window (xs.zip ys) i w)).length ≥ effMp mp w 0 := h
      simp only [regxSse, regx, masked, if_pos h'] at hn
      split at hn <;> cases hn

/-- non-vacuity: position 1 of `ts_vcov` (window 3, `min_periods` omitted, so the effective minimum
is `max 2 (min 1 3) = 2`) sees one complete pair and is null; position 2 sees two and is not -/
example :
    (ts2 .cov .iter [some 1, none, some 3, some 7] [some 2, some 5, some 4, some 1] 3 none)[1]? = some .null ∧
    (ts2 .cov .iter [some 1, none, some 3, some 7] [some 2, some 5, some 4, some 1] 3 none)[2]? ≠ some .null :=
  ⟨(c04_null_below .iter 3 none (by decide)).1 .cov _ _ (by decide) 1 (by decide) (by decide),
   (c04_nonnull_at .iter 3 none (by decide)).1 .cov _ _ (by decide) 2 (by decide) (by decide)⟩

end Tv.C05
