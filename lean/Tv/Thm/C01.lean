import Tv.Lemmas.Weighted
import Tv.Lemmas.Fdiff
import Tv.Lemmas.Local
import Tv.Model.MaskTable
import Tv.Generated
/-!
# C01 — rolling moments and weighted averages equal from-scratch window evaluation

`tsFeat f sh xs w mp` is the model of the 16 entry points `ts_v{sum,mean,ewm,wma,std,var,skew,kurt}`
and their plain `ts_*` twins (same closures, null-free input) under either driver shape.
`Spec.feat f w mp l` is the statistic evaluated from scratch on the non-null window contents.
All statements hold for every series, every window `w ≥ 1`, every `min_periods`, every
position — no bound on the length of the add/remove history.
-/
namespace Tv.C01
open Tv

/-- **Main theorem.** Output `i` of every rolling feature equals the statistic evaluated from
scratch on the non-null elements at positions `max(0,i-w+1) ..= i`; the output has the length
of the input. Holds for both driver shapes (Vec/ndarray fast path, default iterator path). -/
theorem tsFeat_exact (f : Feat) (sh : Shape) (xs : List (Option Rat)) (w : Nat) (mp : Option Nat)
    (hw : 1 ≤ w) :
    tsFeat f sh xs w mp = (List.range xs.length).map (fun i => Spec.feat f w mp (vwin xs i w)) := by
  have hk : ∀ k, k ≤ effMp mp w k := fun k => Nat.le_max_right _ _
  cases f <;> simp only [tsFeat, Spec.feat, Feat.minK]
  · exact momRoll_exact _ _ (emitSum_spec _) sh xs w hw
  · exact momRoll_exact _ _ (emitMean_spec _) sh xs w hw
  · -- ewm
    rw [C02.applyCalls_spec sh xs w hw]
    rcases (show 1 ≤ C02.effW sh w xs.length ∨ xs.length = 0 by
      cases sh
      · show 1 ≤ min w xs.length ∨ xs.length = 0
        omega
      · left; exact hw) with hW | h0
    · have := run_refines_all (ewmRoll w (effMp mp w 0)) (EwmInv (1 - 2 / (w : Rat)))
        (fun q => Spec.tsEwm w (effMp mp w 0) (valid q)) ⟨rfl, rfl⟩
        (fun s q v hi => ewm_add w _ s q v hi) (fun s x q hi => ewm_remove w _ s x q hi)
        (fun s q hi => ewm_emit w _ hw s q hi) xs (C02.effW sh w xs.length) hW
      rw [show (ewmRoll w (effMp mp w 0)).init = ⟨0, 0⟩ from rfl] at this
      rw [this]
      apply List.map_congr_left
      intro i hi
      have hi' : i < xs.length := by simpa using hi
      unfold vwin
      cases sh
      · simp only [C02.effW]; rw [window_clamp xs i w hi']
      · rfl
    · have : xs = [] := List.length_eq_zero_iff.mp h0
      subst this
      simp [callsFrom, Roll.run]
  · -- wma
    rw [C02.applyCalls_spec sh xs w hw]
    rcases (show 1 ≤ C02.effW sh w xs.length ∨ xs.length = 0 by
      cases sh
      · show 1 ≤ min w xs.length ∨ xs.length = 0
        omega
      · left; exact hw) with hW | h0
    · have := run_refines_all (wmaRoll (effMp mp w 0)) WmaInv
        (fun q => Spec.tsWma (effMp mp w 0) (valid q)) ⟨rfl, rfl, rfl⟩
        (fun s q v hi => wma_add _ s q v hi) (fun s x q hi => wma_remove _ s x q hi)
        (fun s q hi => wma_emit _ s q hi) xs (C02.effW sh w xs.length) hW
      rw [show (wmaRoll (effMp mp w 0)).init = ⟨0, 0, 0⟩ from rfl] at this
      rw [this]
      apply List.map_congr_left
      intro i hi
      have hi' : i < xs.length := by simpa using hi
      unfold vwin
      cases sh
      · simp only [C02.effW]; rw [window_clamp xs i w hi']
      · rfl
    · have : xs = [] := List.length_eq_zero_iff.mp h0
      subst this
      simp [callsFrom, Roll.run]
  · exact momRoll_exact _ _ (emitStd_spec _ (hk 2)) sh xs w hw
  · exact momRoll_exact _ _ (emitVar_spec _ (hk 2)) sh xs w hw
  · exact momRoll_exact _ _ (emitSkew_spec _ (hk 3)) sh xs w hw
  · exact momRoll_exact _ _ (emitKurt_spec _ (hk 4)) sh xs w hw

/-- **fractional differencing, null-aware**: output `i` is `Σ_k (-1)^k C(d,k) x_(k)` over the
non-null elements of the window, `x_(k)` the k-th most recent one (null below `min_periods`) -/
theorem tsVfdiff_exact (sh : Shape) (d : Rat) (xs : List (Option Rat)) (w : Nat) (mp : Option Nat)
    (hw : 1 ≤ w) :
    tsVfdiff sh d xs w mp
      = (List.range xs.length).map (fun i => Spec.tsVfdiff d (effMp mp w 0) (vwin xs i w)) := by
  unfold tsVfdiff
  rw [C02.customCalls_spec sh xs w hw, List.map_map]
  apply List.map_congr_left
  intro i _
  have hm : effMp mp w 0 ≤ w := by unfold effMp; omega
  exact vfdiffEmit_spec d w _ _ (window_length_le xs i w) hm

/-- **fractional differencing, plain** (repaired warm-up alignment, finding F33) -/
theorem tsFdiff_exact (sh : Shape) (d : Rat) (xs : List Rat) (w : Nat) (hw : 1 ≤ w) :
    tsFdiff sh d xs w = (List.range xs.length).map (fun i => Spec.tsFdiff d (window xs i w)) := by
  unfold tsFdiff
  rw [C02.customCalls_spec sh xs w hw, List.map_map]
  apply List.map_congr_left
  intro i _
  exact fdiffEmit_spec d w _ (window_length_le xs i w)

/-- the generalized binomial of the model is the product formula `Π_{j<k} (d-j)/(j+1)` -/
theorem gbinom_product (d : Rat) (k : Nat) : Tv.gbinom d k = Spec.gbinom d k := gbinom_eq d k

/-- `fdiff_coef(d, w)` stores `(-1)^(w-1-j) C(d, w-1-j)` at position `j` -/
theorem fdiffCoef_spec (d : Rat) (w : Nat) : fdiffCoef d w = (List.range w).reverse.map (fcoef d) :=
  fdiffCoef_eq d w

/-- one output per input element -/
theorem tsFeat_length (f : Feat) (sh : Shape) (xs : List (Option Rat)) (w : Nat) (mp : Option Nat)
    (hw : 1 ≤ w) : (tsFeat f sh xs w mp).length = xs.length := by
  rw [tsFeat_exact f sh xs w mp hw]; simp

/-- the two driver shapes (Vec fast path / default path) give identical results -/
theorem tsFeat_shape_indep (f : Feat) (xs : List (Option Rat)) (w : Nat) (mp : Option Nat) (hw : 1 ≤ w) :
    tsFeat f .to xs w mp = tsFeat f .iter xs w mp := by
  rw [tsFeat_exact f .to xs w mp hw, tsFeat_exact f .iter xs w mp hw]

/-- **no drift**: the state after any history is the power sums of exactly the current window
(the invariant behind `tsFeat_exact`, stated for the additive accumulators). -/
theorem mom_state_is_window (s : Mom) (q : List (Option Rat)) (v : Option Rat) (x : Option Rat)
    (h : MomInv s (x :: q)) : MomInv ((s.add v).remove x) (q ++ [v]) :=
  momInv_remove _ x _ (by simpa using momInv_add s (x :: q) v h)

/-- the sample-variance spec is the textbook `Σ(x-mean)²/(n-1)` whenever the documented EPS floor
does not apply (population variance 0 or above EPS); integer-valued windows always qualify -/
theorem specVar_textbook (l : List Rat) (mp : Nat) (hn : 2 ≤ l.length) (hmp : mp ≤ l.length)
    (h : Spec.cmom 2 l = 0 ∨ Spec.cmom 2 l > Spec.EPS) :
    Spec.tsVar mp l = .val (Spec.csum 2 (Spec.mean l) l / ((l.length : Rat) - 1)) := by
  have hn0 := cast_len_ne_zero (show 1 ≤ l.length by omega)
  simp only [Spec.tsVar, Spec.masked, ge_iff_le, hmp, if_true]
  rcases h with h | h
  · have : Spec.cmom 2 l ≤ Spec.EPS := by rw [h]; unfold Spec.EPS; norm_num
    simp only [this, if_true]
    have hc : Spec.csum 2 (Spec.mean l) l = 0 := by
      unfold Spec.cmom at h
      rcases div_eq_zero_iff.mp h with h | h
      · exact h
      · exact absurd h hn0
    rw [hc]; simp
  · have : ¬ Spec.cmom 2 l ≤ Spec.EPS := not_le.mpr h
    have h1 : l.length ≠ 1 := by omega
    simp [this, h1]

/-- the translator's constants are the model's constants (EPS; `.max(k)` of each entry point) -/
theorem eps_matches : (Generated.epsNum, Generated.epsDen) = (1, 100000000000000) := by decide

theorem minK_in_table (f : Feat) :
    ((Model.featNames f).1, true, false, f.minK, "rolling_apply", "std") ∈ Generated.maskTable ∧
    ((Model.featNames f).2, true, false, f.minK, "rolling_apply", "std") ∈ Generated.maskTable := by
  cases f <;> decide

/-! ### non-vacuity: a concrete series with nulls -/
example : tsFeat .sum .to [some 1, none, some (3/2), some (-4)] 3 (some 2)
    = [.null, .null, .val (5/2), .val (-5/2)] := by
  rw [tsFeat_exact _ _ _ _ _ (by decide)]
  simp [Spec.feat, Spec.tsSum, Spec.masked, vwin, window, valid, effMp, Feat.minK, Spec.sum, List.range_succ]
  norm_num

end Tv.C01
