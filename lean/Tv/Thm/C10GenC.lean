import Tv.GenReads
import Tv.Thm.C10Gen
set_option linter.unusedSimpArgs false
set_option linter.unusedVariables false
/-!
# C10 — the unchecked element accesses inside the rolling closures, regenerated from source

`Tv.GenReads` (translator/reads.py) lists, for every rolling kernel whose closure calls an unchecked
accessor (`ts_vargmin`, `ts_vmin`, `ts_vargmax`, `ts_vmax`, `ts_vrank` in cmp.rs, `ts_vminmaxnorm`
in norm.rs, `ts_vregx_resid_mean / _std / _skew` in reg.rs: 30 sites), every index one invocation of
the closure with the driver's arguments `(start, end)` can pass to `uget` — conditions dropped, so
this is a superset of the accesses of any execution. `reads_le_end` proves each of them `≤ end`
whenever `start ≤ end`; `idx_calls_ok` / `idx2_calls_ok` prove that the regenerated drivers
(`GenDrv.rolling_apply_idx_to`, `rolling2_apply_idx_to`) only ever call the closure with
`start ≤ end < len` (and `end < len2` for the second series); `kernel_reads_in_bounds` /
`kernel2_reads_in_bounds` compose the two: for every series length, window ≥ 1 and call of the
driver, every index a listed kernel can hand to `uget` is inside the series (both series).
-/
namespace Tv.C10GenC
open Tv

/-- the relation between the two index arguments of a closure call -/
def CallOk (start : Option Nat) (e : Nat) : Prop := ∀ s, start = some s → s ≤ e

/-- every listed kernel: every index it can access in a call `(start, end)` is at most `end` -/
theorem reads_le_end : ∀ f ∈ GenReads.all, ∀ (start : Option Nat) (e : Nat), CallOk start e →
    ∀ i ∈ f.2 start e, i ≤ e := by
  intro f hf start e hc i hi
  simp only [GenReads.all, List.mem_cons, List.mem_nil_iff, or_false] at hf
  cases start with
  | none =>
    rcases hf with h | h | h | h | h | h | h | h | h <;> subst h <;>
      simp [GenReads.ts_vargmin.reads, GenReads.ts_vmin.reads, GenReads.ts_vargmax.reads,
        GenReads.ts_vmax.reads, GenReads.ts_vrank.reads, GenReads.ts_vminmaxnorm.reads,
        GenReads.ts_vregx_resid_mean.reads, GenReads.ts_vregx_resid_std.reads,
        GenReads.ts_vregx_resid_skew.reads, List.mem_flatMap, List.mem_range'_1] at hi <;> omega
  | some s =>
    have hs : s ≤ e := hc s rfl
    rcases hf with h | h | h | h | h | h | h | h | h <;> subst h <;>
      simp [GenReads.ts_vargmin.reads, GenReads.ts_vmin.reads, GenReads.ts_vargmax.reads,
        GenReads.ts_vmax.reads, GenReads.ts_vrank.reads, GenReads.ts_vminmaxnorm.reads,
        GenReads.ts_vregx_resid_mean.reads, GenReads.ts_vregx_resid_std.reads,
        GenReads.ts_vregx_resid_skew.reads, List.mem_flatMap, List.mem_range'_1] at hi <;> omega

/-- the calls of the regenerated one-series index driver: `start ≤ end < len` -/
theorem idx_calls_ok (len w : Nat) (hw : 1 ≤ w) :
    ∃ log, GenDrv.rolling_apply_idx_to.run len w = some log ∧
      ∀ ev ∈ log, ev.2.2.1 < len ∧ CallOk ev.2.1 ev.2.2.1 := by
  refine ⟨_, C02Gen.rolling_apply_idx_to_eq len w (Or.inl hw), ?_⟩
  rw [toIdx_eq len w hw]
  intro ev hev
  simp only [List.map_map, List.mem_map, List.mem_range, Function.comp_def] at hev
  obtain ⟨i, hi, rfl⟩ := hev
  refine ⟨hi, ?_⟩
  intro s hs
  exact C10Gen.startAt_lt _ _ _ hs

/-- the calls of the regenerated two-series index driver -/
theorem idx2_calls_ok (len len2 w : Nat) (hw : 1 ≤ w) (h2 : len ≤ len2) :
    ∃ log, GenDrv.rolling2_apply_idx_to.run len len2 w = some log ∧
      ∀ ev ∈ log, ev.2.2.1 < len ∧ ev.2.2.1 < len2 ∧ CallOk ev.2.1 ev.2.2.1 := by
  refine ⟨_, C02Gen.rolling2_apply_idx_to_eq len len2 w (Or.inl hw) h2, ?_⟩
  rw [toIdx_eq len w hw]
  intro ev hev
  simp only [List.map_map, List.mem_map, List.mem_range, Function.comp_def] at hev
  obtain ⟨i, hi, rfl⟩ := hev
  refine ⟨hi, by simp only []; omega, ?_⟩
  intro s hs
  exact C10Gen.startAt_lt _ _ _ hs

/-- composition: every index a listed kernel can pass to `uget` during a run of the one-series
index driver lies inside the series -/
theorem kernel_reads_in_bounds (len w : Nat) (hw : 1 ≤ w) :
    ∃ log, GenDrv.rolling_apply_idx_to.run len w = some log ∧
      ∀ f ∈ GenReads.all, ∀ ev ∈ log, ∀ i ∈ f.2 ev.2.1 ev.2.2.1, i < len := by
  obtain ⟨log, hrun, hlog⟩ := idx_calls_ok len w hw
  refine ⟨log, hrun, ?_⟩
  intro f hf ev hev i hi
  obtain ⟨h1, h2⟩ := hlog ev hev
  have := reads_le_end f hf _ _ h2 i hi
  omega

/-- … and of the two-series driver: inside both series -/
theorem kernel2_reads_in_bounds (len len2 w : Nat) (hw : 1 ≤ w) (h2 : len ≤ len2) :
    ∃ log, GenDrv.rolling2_apply_idx_to.run len len2 w = some log ∧
      ∀ f ∈ GenReads.all, ∀ ev ∈ log, ∀ i ∈ f.2 ev.2.1 ev.2.2.1, i < len ∧ i < len2 := by
  obtain ⟨log, hrun, hlog⟩ := idx2_calls_ok len len2 w hw h2
  refine ⟨log, hrun, ?_⟩
  intro f hf ev hev i hi
  obtain ⟨h1, h3, h4⟩ := hlog ev hev
  have := reads_le_end f hf _ _ h4 i hi
  omega

/-- the scan covers every accessor call of the rolling crates: 30 sites in 9 kernels, none outside
a listed closure, nothing refused -/
theorem reads_present : GenReads.parsed = true ∧ GenReads.census = GenReads.totalSites ∧
    GenReads.all.map (·.1) = ["ts_vargmin", "ts_vmin", "ts_vargmax", "ts_vmax", "ts_vrank",
      "ts_vminmaxnorm", "ts_vregx_resid_mean", "ts_vregx_resid_std", "ts_vregx_resid_skew"] ∧
    GenReads.ts_vrank.driver = "rolling_apply_idx" ∧
    GenReads.ts_vregx_resid_std.driver = "rolling2_apply_idx" := ⟨rfl, rfl, rfl, rfl, rfl⟩

/-- non-vacuity: a full window `(some 2, 5)` of `ts_vmax` touches 2, 2..=5 and 2 again -/
example : GenReads.ts_vmax.reads (some 2) 5 = [2, 2, 3, 4, 5, 2] := by decide

end Tv.C10GenC
