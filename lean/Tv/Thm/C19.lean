import Tv.Lemmas.C19
/-!
# C19 — generators and collectors build exactly the requested sequence

Property theorems only (helper lemmas live in `Tv/Lemmas/C19.lean`).

* the model (`Tv/Model/C19Gen.lean`) transcribes `Linspace`, `linspace`, the repaired `range`,
  `Vec1Create`, the collector family with the per-backend overrides and `write_trust_iter`;
* the specification (`Tv/Spec/C19Gen.lean`) is the arithmetic progression cut after
  `countBefore = max 0 ⌈(b-a)/step⌉` terms (exact rational quotient), the identity on item
  sequences, "first error wins" and the final buffer contents.

Element types: `Int` stands for i32 / i64 / usize (Rust `/` is `Int.tdiv`, `ceil` the identity),
`Rat` for f64 on exactly representable data. Integer overflow is out of scope (DESIGN 5.2); the
only size hypotheses are that the element count fits `usize` resp. the allocation fits `isize`.
-/
namespace Tv.C19
open Tv.C19.Spec

/-- `isize::MAX` -/
abbrev isizeMax : Nat := 9223372036854775807

/-! ## the `Linspace` iterator -/
section lin
variable {α : Type} [Add α] [Mul α] [NatCast α]

/-- a `Linspace` yields exactly `start + step·i` for `i = index, …, len-1`, in this order -/
theorem linspace_iter_items (s : Linspace α) :
    s.items = (List.range (s.len - s.index)).map fun k => s.start + s.step * ((s.index + k : Nat) : α) :=
  items_eq s

/-- calling `next` more often than `len - index` times changes nothing: the iterator is fused -/
theorem drain_fuel_irrelevant (s : Linspace α) (fuel : Nat) (h : s.len - s.index ≤ fuel) :
    s.drain fuel = s.items := by
  rw [drain_eq s fuel h, items_eq]

/-- `next` pops the first remaining item (and returns `None` exactly when nothing remains) -/
theorem next_spec (s : Linspace α) :
    s.next.1 = s.items.head? ∧ s.next.2.items = s.items.tail := by
  by_cases h : s.index < s.len
  · rw [next_of_lt s h, items_cons s h]; simp
  · rw [next_of_ge s (by omega), items_of_ge s (by omega)]; simp

/-- `next_back` pops the last remaining item -/
theorem nextBack_spec (s : Linspace α) :
    s.nextBack.1 = s.items.getLast? ∧ s.nextBack.2.items = s.items.dropLast := by
  by_cases h : s.index < s.len
  · have e : s.nextBack = (some (s.at (s.len - 1)), { s with len := s.len - 1 }) := by
      unfold Linspace.nextBack; rw [if_neg (by omega)]
    rw [e, items_snoc s h]; simp
  · have e : s.nextBack = (none, s) := by
      unfold Linspace.nextBack; rw [if_pos (by omega)]
    rw [e, items_of_ge s (by omega)]; simp

/-- the size hint is exact (this is what the `unsafe impl TrustedLen for Linspace` promises) -/
theorem sizeHint_exact (s : Linspace α) :
    s.sizeHint = (s.items.length, some s.items.length) := by
  simp [Linspace.sizeHint, items_length]

end lin

/-! ## `range` -/

/-- **range, floats** (exact arithmetic on representable data): for a non-zero step the range is
the arithmetic progression `a, a+step, …` cut after exactly `countBefore = max 0 ⌈(b-a)/step⌉`
terms, and its size hint is that count. -/
theorem range_exact_rat (a b step : Rat) (hs : step ≠ 0) (hc : countBefore a b step < usizeMod) :
    ∃ s, range ratOps a b step = .ok s ∧ s.items = progression a step (countBefore a b step) ∧
      s.sizeHint = (countBefore a b step, some (countBefore a b step)) := by
  refine ⟨⟨a, step, 0, countBefore a b step⟩, ?_, fresh_items _ _ _, by simp [Linspace.sizeHint]⟩
  unfold range
  rw [if_neg hs, rangeLen_rat a b step hs hc]

/-- **range, integers** (i32 / i64 / usize; truncating division, identity `ceil`): same statement,
the count being the exact rational ceiling — so no element is dropped when the span is not a
multiple of the step, and a span pointing against the step gives the empty range. -/
theorem range_exact_int (a b step : Int) (hs : step ≠ 0)
    (hc : countBefore (a : Rat) (b : Rat) (step : Rat) < usizeMod) :
    ∃ s, range intOps a b step = .ok s ∧
      s.items = progression a step (countBefore (a : Rat) (b : Rat) (step : Rat)) ∧
      s.sizeHint = (countBefore (a : Rat) b step, some (countBefore (a : Rat) b step)) := by
  refine ⟨⟨a, step, 0, countBefore (a : Rat) b step⟩, ?_, fresh_items _ _ _, by simp [Linspace.sizeHint]⟩
  unfold range
  rw [if_neg hs, rangeLen_int a b step hs hc]

/-- `countBefore` is the right cut: the `k`-th term lies strictly before `b` in the direction of
the step iff `k < countBefore` -/
theorem countBefore_spec (a b step : Rat) (hs : step ≠ 0) (k : Nat) :
    k < countBefore a b step ↔ Before step (a + step * (k : Rat)) b :=
  lt_countBefore_iff a b step hs k

/-- **none missing, none beyond (floats)**: `x` is in the range iff it is a term of the
progression lying strictly before `b` in the direction of the step -/
theorem range_mem_rat (a b step : Rat) (hs : step ≠ 0) (x : Rat) :
    x ∈ rangeRat a b step ↔ ∃ k : Nat, x = a + step * (k : Rat) ∧ Before step x b := by
  unfold rangeRat progression
  simp only [List.mem_map, List.mem_range]
  constructor
  · rintro ⟨k, hk, rfl⟩
    exact ⟨k, rfl, (lt_countBefore_iff a b step hs k).mp hk⟩
  · rintro ⟨k, rfl, hb⟩
    exact ⟨k, (lt_countBefore_iff a b step hs k).mpr hb, rfl⟩

/-- **none missing, none beyond (integers)** -/
theorem range_mem_int (a b step : Int) (hs : step ≠ 0) (x : Int) :
    x ∈ rangeInt a b step ↔ ∃ k : Nat, x = a + step * (k : Int) ∧ Before step x b := by
  have hs' : (step : Rat) ≠ 0 := by exact_mod_cast hs
  have key : ∀ k : Nat, k < countBefore (a : Rat) b step ↔ Before step (a + step * (k : Int)) b := by
    intro k
    rw [lt_countBefore_iff (a : Rat) b step hs' k]
    unfold Before
    have e : (a : Rat) + (step : Rat) * (k : Rat) = ((a + step * (k : Int) : Int) : Rat) := by push_cast; ring
    rw [e]
    constructor
    · rintro (⟨h1, h2⟩ | ⟨h1, h2⟩)
      · left; exact ⟨by exact_mod_cast h1, by exact_mod_cast h2⟩
      · right; exact ⟨by exact_mod_cast h1, by exact_mod_cast h2⟩
    · rintro (⟨h1, h2⟩ | ⟨h1, h2⟩)
      · left; exact ⟨by exact_mod_cast h1, by exact_mod_cast h2⟩
      · right; exact ⟨by exact_mod_cast h1, by exact_mod_cast h2⟩
  unfold rangeInt progression
  simp only [List.mem_map, List.mem_range]
  constructor
  · rintro ⟨k, hk, rfl⟩
    exact ⟨k, rfl, (key k).mp hk⟩
  · rintro ⟨k, rfl, hb⟩
    exact ⟨k, (key k).mpr hb, rfl⟩

/-! ## collectors -/

/-- **plain collection** is the identity on the item sequence, for every container and whatever
the size hint says -/
theorem collect_id (c : Cont) (it : Iter α) : collectFromIter c it = it.items := rfl

/-- **trusted collection** of an iterator whose hint is its true length is the identity
(given that the allocation fits) -/
theorem collect_trusted_id (c : Cont) (es : Nat) (l : List α) (h : l.length * es ≤ isizeMax) :
    collectFromTrusted c es (Iter.exact l) = .ok l := by
  have h' : capacityOverflow l.length es = false := by simp [capacityOverflow]; exact h
  cases c <;> simp [collectFromTrusted, collectTrustedToVec_exact es l h', Outcome.map]

/-- the contract of the trusted collectors is necessary: a wrong hint is undefined behaviour
(uninitialised tail exposed, or a write past the allocation) -/
theorem collect_trusted_wrong_hint (c : Cont) (es : Nat) (l : List α) (n : Nat) (hn : n ≠ l.length)
    (h : n * es ≤ isizeMax) : collectFromTrusted c es ⟨l, some n⟩ = .ub := by
  have h' : capacityOverflow n es = false := by simp [capacityOverflow]; exact h
  cases c <;> simp [collectFromTrusted, collectTrustedToVec_wrong_hint es l n hn h', Outcome.map]

/-- **collection with an explicit length**: the identity when the stated length is the true one,
whatever hint the source itself reports -/
theorem collect_with_len_id (c : Cont) (es : Nat) (it : Iter α) (h : it.items.length * es ≤ isizeMax) :
    collectWithLen c es it it.items.length = .ok it.items :=
  collect_trusted_id c es it.items h

/-- **optional → null-encoded**: values stay in place, `None` becomes the null element -/
theorem collect_opt_eq (c : Cont) (none' : α) (it : Iter (Option α)) :
    collectFromOptIter c none' it = optEncode none' it.items := by
  simp only [collectFromOptIter, collectFromIter, stdCollect, Iter.map, optEncode]
  apply List.map_congr_left
  intro x _
  cases x <;> rfl

/-- order and content: position `i` of the encoded result is item `i` -/
theorem collect_opt_get (c : Cont) (none' : α) (it : Iter (Option α)) (i : Nat) :
    (collectFromOptIter c none' it)[i]? = (it.items[i]?).map fun o => o.getD none' := by
  simp [collectFromOptIter, collectFromIter, stdCollect, Iter.map]

/-- `empty` is empty for every container -/
theorem empty_eq (c : Cont) : (empty c : List α) = [] := by
  cases c <;> rfl

/-- **full** repeats its value `len` times -/
theorem full_eq (c : Cont) (es len : Nat) (v : α) (h : len * es ≤ isizeMax) :
    full c es len v = .ok (List.replicate len v) := by
  have e : repeatN v len = Iter.exact (List.replicate len v) := by simp [repeatN, Iter.exact]
  unfold full
  rw [e]
  exact collect_trusted_id c es _ (by simpa using h)

/-- **Vec1Create::range, floats**, for every output container -/
theorem createRange_rat (c : Cont) (es : Nat) (a b step : Rat) (hs : step ≠ 0) (hes : 0 < es)
    (hcap : countBefore a b step * es ≤ isizeMax) :
    createRange ratOps c es a b step = .ok (rangeRat a b step) := by
  have hc : countBefore a b step < usizeMod := by
    have : countBefore a b step ≤ countBefore a b step * es := Nat.le_mul_of_pos_right _ hes
    have hcap' : countBefore a b step * es ≤ 9223372036854775807 := hcap
    unfold usizeMod; omega
  obtain ⟨s, h1, h2, h3⟩ := range_exact_rat a b step hs hc
  unfold createRange
  rw [h1]
  have e : s.iter.map id = Iter.exact (rangeRat a b step) := by
    simp [Linspace.iter, Iter.map, Iter.exact, h2, h3, rangeRat, progression]
  simp only [e]
  exact collect_trusted_id c es _ (by simpa [rangeRat, progression] using hcap)

/-- **Vec1Create::range, integers**, for every output container -/
theorem createRange_int (c : Cont) (es : Nat) (a b step : Int) (hs : step ≠ 0) (hes : 0 < es)
    (hcap : countBefore (a : Rat) b step * es ≤ isizeMax) :
    createRange intOps c es a b step = .ok (rangeInt a b step) := by
  have hc : countBefore (a : Rat) b step < usizeMod := by
    have : countBefore (a : Rat) b step ≤ countBefore (a : Rat) b step * es := Nat.le_mul_of_pos_right _ hes
    have hcap' : countBefore (a : Rat) b step * es ≤ 9223372036854775807 := hcap
    unfold usizeMod; omega
  obtain ⟨s, h1, h2, h3⟩ := range_exact_int a b step hs hc
  unfold createRange
  rw [h1]
  have e : s.iter.map id = Iter.exact (rangeInt a b step) := by
    simp [Linspace.iter, Iter.map, Iter.exact, h2, h3, rangeInt, progression]
  simp only [e]
  exact collect_trusted_id c es _ (by simpa [rangeInt, progression] using hcap)

/-! ## `linspace` -/
section linsp
variable {α : Type} [Add α] [Sub α] [Mul α] [NatCast α] [OfNat α 0]

/-- **linspace has exactly `n` elements**, and reports that as its exact size -/
theorem linspace_len (ops : NumOps α) (a b : α) (n : Nat) :
    (linspace ops a b n).items.length = n ∧ (linspace ops a b n).sizeHint = (n, some n) := by
  simp [items_length, linspace, Linspace.sizeHint]

/-- **constant step**: element `i` is `a + step·i` -/
theorem linspace_get (ops : NumOps α) (a b : α) (n i : Nat) (h : i < n) :
    (linspace ops a b n).items[i]? = some (a + (linspace ops a b n).step * (i : α)) := by
  rw [items_eq]
  simp [linspace, Linspace.at, h]

end linsp

/-- linspace starts at `a` (floats) -/
theorem linspace_first_rat (a b : Rat) (n : Nat) (h : 0 < n) :
    (linspace ratOps a b n).items.head? = some a := by
  rw [List.head?_eq_getElem?, linspace_get ratOps a b n 0 h]; simp

/-- linspace starts at `a` (integers) -/
theorem linspace_first_int (a b : Int) (n : Nat) (h : 0 < n) :
    (linspace intOps a b n).items.head? = some a := by
  rw [List.head?_eq_getElem?, linspace_get intOps a b n 0 h]; simp

/-- the float step is `(b-a)/(n-1)` -/
theorem linspace_step_rat (a b : Rat) (n : Nat) (h : 2 ≤ n) :
    (linspace ratOps a b n).step = (b - a) / ((n : Rat) - 1) := by
  have e : ((n - 1 : Nat) : Rat) = (n : Rat) - 1 := by
    rw [Nat.cast_sub (by omega)]; simp
  simp only [linspace, ratOps]
  rw [if_pos (by omega), e]

/-- **for floats linspace ends at `b`** (exactly, in exact arithmetic; up to rounding in f64) -/
theorem linspace_last (a b : Rat) (n : Nat) (h : 2 ≤ n) :
    (linspace ratOps a b n).items.getLast? = some b := by
  have hlen := (linspace_len ratOps a b n).1
  rw [List.getLast?_eq_getElem?, hlen, linspace_get ratOps a b n (n - 1) (by omega),
    linspace_step_rat a b n h]
  have e : ((n - 1 : Nat) : Rat) = (n : Rat) - 1 := by
    rw [Nat.cast_sub (by omega)]; simp
  have hne : (n : Rat) - 1 ≠ 0 := by
    have : (2 : Rat) ≤ (n : Rat) := by exact_mod_cast h
    intro h0; linarith
  rw [e]
  congr 1
  field_simp
  ring

/-- **closed form for floats**: element `i` of `linspace(a, b, n)`, `n ≥ 2`, is
`a + (b-a)·i/(n-1)` — the `i`-th of `n` equally spaced points on `[a, b]` -/
theorem linspace_get_rat (a b : Rat) (n i : Nat) (h : 2 ≤ n) (hi : i < n) :
    (linspace ratOps a b n).items[i]? = some (a + (b - a) * (i : Rat) / ((n : Rat) - 1)) := by
  rw [linspace_get ratOps a b n i hi, linspace_step_rat a b n h]
  congr 1
  ring

/-- **a single point is `a`**: `linspace(a, b, 1) = [a]` (step zero), and `n = 0` is empty -/
theorem linspace_one_rat (a b : Rat) : (linspace ratOps a b 1).items = [a] := by
  apply List.ext_getElem?
  intro i
  by_cases hi : i < 1
  · have : i = 0 := by omega
    subst this
    rw [linspace_get ratOps a b 1 0 (by omega)]
    simp [linspace]
  · have hl := (linspace_len ratOps a b 1).1
    rw [List.getElem?_eq_none (by omega), List.getElem?_eq_none (by simp; omega)]

theorem linspace_zero_rat (a b : Rat) : (linspace ratOps a b 0).items = [] :=
  List.eq_nil_of_length_eq_zero (linspace_len ratOps a b 0).1

/-- **monotone and inside `[a, b]`**: for `a ≤ b` the points never decrease and none leaves the
closed interval -/
theorem linspace_mono_rat (a b : Rat) (n i j : Nat) (hab : a ≤ b) (hij : i ≤ j) (hj : j < n)
    (x y : Rat) (hx : (linspace ratOps a b n).items[i]? = some x)
    (hy : (linspace ratOps a b n).items[j]? = some y) : x ≤ y := by
  rw [linspace_get ratOps a b n i (by omega)] at hx
  rw [linspace_get ratOps a b n j hj] at hy
  cases hx; cases hy
  have hs : 0 ≤ (linspace ratOps a b n).step := by
    by_cases h2 : 2 ≤ n
    · rw [linspace_step_rat a b n h2]
      have : (2 : Rat) ≤ (n : Rat) := by exact_mod_cast h2
      exact div_nonneg (by linarith) (by linarith)
    · have : ¬ n > 1 := by omega
      simp [linspace, this]
  have : ((i : Nat) : Rat) ≤ (j : Rat) := by exact_mod_cast hij
  have := mul_le_mul_of_nonneg_left this hs
  linarith

theorem linspace_within_rat (a b : Rat) (n i : Nat) (hab : a ≤ b) (hi : i < n)
    (x : Rat) (hx : (linspace ratOps a b n).items[i]? = some x) : a ≤ x ∧ x ≤ b := by
  by_cases h2 : 2 ≤ n
  · constructor
    · have h0 := linspace_get ratOps a b n 0 (by omega)
      refine linspace_mono_rat a b n 0 i hab (by omega) hi a x ?_ hx
      rw [h0]; simp
    · have hl := linspace_last a b n h2
      have hlen := (linspace_len ratOps a b n).1
      rw [List.getLast?_eq_getElem?, hlen] at hl
      exact linspace_mono_rat a b n i (n - 1) hab (by omega) (by omega) x b hx hl
  · have : n = 1 := by omega
    subst this
    have : i = 0 := by omega
    subst this
    rw [linspace_one_rat] at hx
    simp at hx
    subst hx
    exact ⟨le_refl _, hab⟩

/-- **integers**: the step is the truncated quotient `(b-a) / (n-1)` (Rust `/`), so element `i`
is `a + ((b-a) tdiv (n-1))·i`; the last one is `b` exactly when `n-1` divides `b-a` -/
theorem linspace_get_int (a b : Int) (n i : Nat) (h : 2 ≤ n) (hi : i < n) :
    (linspace intOps a b n).items[i]? = some (a + (b - a).tdiv ((n - 1 : Nat) : Int) * (i : Int)) := by
  rw [linspace_get intOps a b n i hi]
  have : n > 1 := by omega
  simp [linspace, intOps, this]

theorem linspace_last_int (a b : Int) (n : Nat) (h : 2 ≤ n) (hd : ((n - 1 : Nat) : Int) ∣ b - a) :
    (linspace intOps a b n).items.getLast? = some b := by
  have hlen := (linspace_len intOps a b n).1
  rw [List.getLast?_eq_getElem?, hlen, linspace_get_int a b n (n - 1) h (by omega)]
  congr 1
  have := Int.tdiv_mul_cancel hd
  linarith

/-- non-vacuity: the second of five points on `[1, 2]`, and an integer grid that ends on `b` -/
example : (linspace ratOps 1 2 5).items[1]? = some (5 / 4) := by
  rw [linspace_get_rat 1 2 5 1 (by omega) (by omega)]; norm_num

example : (linspace intOps 3 11 5).items.getLast? = some 11 :=
  linspace_last_int 3 11 5 (by omega) (by decide)

/-- **Vec1Create::linspace, floats** equals the from-scratch definition, for every container -/
theorem createLinspace_rat (c : Cont) (es : Nat) (a b : Rat) (n : Nat) (hcap : n * es ≤ isizeMax) :
    createLinspace ratOps c es a b n = .ok (linspaceRat a b n) := by
  have hstep : (linspace ratOps a b n).step = if n ≤ 1 then 0 else (b - a) / ((n : Rat) - 1) := by
    by_cases h : n ≤ 1
    · rw [if_pos h]; simp only [linspace]; rw [if_neg (by omega)]
    · rw [if_neg h]; exact linspace_step_rat a b n (by omega)
  have hit : (linspace ratOps a b n).items = linspaceRat a b n := by
    calc (linspace ratOps a b n).items
        = (⟨a, (linspace ratOps a b n).step, 0, n⟩ : Linspace Rat).items := rfl
      _ = progression a (linspace ratOps a b n).step n := fresh_items _ _ _
      _ = linspaceRat a b n := by rw [hstep]; rfl
  unfold createLinspace
  have e : (linspace ratOps a b n).iter.map id = Iter.exact (linspaceRat a b n) := by
    simp [Linspace.iter, Iter.map, Iter.exact, hit, (linspace_len ratOps a b n).2]
    simp [linspaceRat, progression]
  rw [e]
  exact collect_trusted_id c es _ (by simpa [linspaceRat, progression] using hcap)

/-- **Vec1Create::linspace, integers** (i32 / i64 / usize): `n` elements from `a` with the
constant step `(b-a)/(n-1)` rounded toward zero -/
theorem createLinspace_int (c : Cont) (es : Nat) (a b : Int) (n : Nat) (hcap : n * es ≤ isizeMax) :
    createLinspace intOps c es a b n = .ok (linspaceInt a b n) := by
  have hstep : (linspace intOps a b n).step =
      if n ≤ 1 then 0 else truncRat (((b - a : Int) : Rat) / ((n : Rat) - 1)) := by
    by_cases h : n ≤ 1
    · rw [if_pos h]; simp only [linspace]; rw [if_neg (by omega)]
    · rw [if_neg h]
      simp only [linspace, intOps]
      rw [if_pos (by omega), tdiv_eq_truncRat _ _ (by omega)]
      congr 2
      have : (((n - 1 : Nat) : Int) : Rat) = (n : Rat) - 1 := by
        rw [Int.cast_natCast, Nat.cast_sub (by omega)]; simp
      rw [this]
  have hit : (linspace intOps a b n).items = linspaceInt a b n := by
    calc (linspace intOps a b n).items
        = (⟨a, (linspace intOps a b n).step, 0, n⟩ : Linspace Int).items := rfl
      _ = progression a (linspace intOps a b n).step n := fresh_items _ _ _
      _ = linspaceInt a b n := by rw [hstep]; rfl
  unfold createLinspace
  have e : (linspace intOps a b n).iter.map id = Iter.exact (linspaceInt a b n) := by
    simp [Linspace.iter, Iter.map, Iter.exact, hit, (linspace_len intOps a b n).2]
    simp [linspaceInt, progression]
  rw [e]
  exact collect_trusted_id c es _ (by simpa [linspaceInt, progression] using hcap)

/-! ## fallible collection -/

/-- **fallible collection (plain)**: the result is the first error if there is one, otherwise
all values in order; the source is pulled up to and including the first error and no further -/
theorem try_collect_spec (c : Cont) (it : Iter (Except ε α)) :
    (tryCollectFromIter c it).result = tryCollect it.items ∧
      (tryCollectFromIter c it).consumed = consumed it.items := by
  unfold tryCollectFromIter tryCollect
  rw [tryLoop_eq]
  constructor
  · cases firstErr it.items <;> simp
  · simp

/-- **fallible collection (trusted)** agrees with the plain one when the hint is the true length -/
theorem try_collect_trusted_spec (c : Cont) (es : Nat) (l : List (Except ε α))
    (hcap : l.length * es ≤ isizeMax) :
    tryCollectFromTrusted c es (Iter.exact l) = .ok ⟨tryCollect l, consumed l⟩ := by
  have h' : capacityOverflow l.length es = false := by simp [capacityOverflow]; exact hcap
  unfold tryCollectFromTrusted Iter.exact tryCollect
  simp only [h']
  rw [tryRawWrite_eq _ _ _ _ (by simp), tryLoop_eq]
  cases hfe : firstErr l with
  | some e => simp
  | none => simp [okValues_length_of_noErr l hfe]

/-- **first error wins**: the result is `Err(e)` iff the items are some values followed by
`Err(e)` (followed by anything — later errors are irrelevant), and `Ok(vs)` iff every item is
a value and `vs` are those values in order. -/
theorem try_collect_first_err (l : List (Except ε α)) :
    (∀ e, tryCollect l = .error e ↔
      ∃ (vs : List α) (post : List (Except ε α)), l = vs.map .ok ++ .error e :: post) ∧
    (∀ vs, tryCollect l = .ok vs ↔ l = vs.map .ok) := by
  have hsome : ∀ (l : List (Except ε α)) e,
      firstErr l = some e ↔
        ∃ (vs : List α) (post : List (Except ε α)), l = vs.map .ok ++ .error e :: post := by
    intro l e
    induction l with
    | nil => simp [firstErr]
    | cons x rest ih =>
      cases x with
      | error e' =>
        simp only [firstErr, Option.some.injEq]
        constructor
        · rintro rfl; exact ⟨[], rest, rfl⟩
        · rintro ⟨vs, post, h⟩
          cases vs with
          | nil => simp at h; exact h.1
          | cons v vs => simp at h
      | ok v =>
        simp only [firstErr]
        rw [ih]
        constructor
        · rintro ⟨vs, post, rfl⟩; exact ⟨v :: vs, post, rfl⟩
        · rintro ⟨vs, post, h⟩
          cases vs with
          | nil => simp at h
          | cons v' vs =>
            simp only [List.map_cons, List.cons_append, List.cons.injEq] at h
            exact ⟨vs, post, h.2⟩
  constructor
  · intro e
    rw [← hsome]
    unfold tryCollect
    cases firstErr l <;> simp
  · intro vs
    unfold tryCollect
    cases hfe : firstErr l with
    | some e =>
      simp only [reduceCtorEq, false_iff]
      intro h
      obtain ⟨vs', post, h'⟩ := (hsome l e).mp hfe
      rw [h] at h'
      have := congrArg (fun l => l[vs'.length]?) h'
      simp at this
    | none =>
      have h := (firstErr_none_iff l).mp hfe
      simp only [Except.ok.injEq]
      constructor
      · rintro rfl; exact h
      · intro h2
        have : okValues l = vs := by
          rw [h2]; simp [okValues]
        exact this

/-! ## `write_trust_iter` -/

/-- **the three-way rule**, with the exact sequence of `uset` calls (iterator honouring the
`TrustedLen` contract): an empty output is left alone; equal lengths store item `i` in slot `i`
for `i = 0, 1, …` in order; a single item is stored in every slot; any other length is an error
and *nothing* has been written. -/
theorem write_cases (len : Nat) (items : List α) :
    (len = 0 → writeTrustIter len (Iter.exact items) = ⟨.ok, []⟩) ∧
    (len ≠ 0 → items.length = len →
      writeTrustIter len (Iter.exact items) = ⟨.ok, items.zipIdx.map fun p => (p.2, p.1)⟩) ∧
    (∀ v, len ≠ 0 → len ≠ 1 → items = [v] →
      writeTrustIter len (Iter.exact items) = ⟨.ok, (List.range len).map fun i => (i, v)⟩) ∧
    (len ≠ 0 → items.length ≠ len → items.length ≠ 1 →
      writeTrustIter len (Iter.exact items) = ⟨.err, []⟩) := by
  unfold writeTrustIter Iter.exact
  refine ⟨?_, ?_, ?_, ?_⟩
  · intro h; simp [h]
  · intro h0 hl
    simp only [hl.symm, if_true]
    rw [writeEach_eq _ _ _ _ (Nat.le_refl _)]
    simp [seqWrites]
  · rintro v h0 h1 rfl
    simp only [if_neg h0, List.length_cons, List.length_nil, Nat.zero_add, if_neg h1, if_true]
  · intro h0 hl h1
    simp only [if_neg h0, if_neg (Ne.symm hl), if_neg h1]

/-- **every slot filled, or an error and an untouched buffer**: the status and the final
contents of an uninitialised buffer of `len` slots are those of the specification — all of
`items` one to one, a single item broadcast, or `err` with every slot still uninitialised.
In particular there is no panic and no partially written state. -/
theorem write_buffer (len : Nat) (items : List α) :
    (writeTrustIter len (Iter.exact items)).status = (Spec.write len items).1 ∧
    applyWrites (uninit α len) (writeTrustIter len (Iter.exact items)).writes =
      (Spec.write len items).2 := by
  obtain ⟨c0, c1, c2, c3⟩ := write_cases len items
  unfold Spec.write
  by_cases h0 : len = 0
  · rw [c0 h0]; simp [h0, applyWrites, uninit]
  · rw [if_neg h0]
    by_cases hl : items.length = len
    · rw [c1 h0 hl, if_pos hl]
      refine ⟨rfl, ?_⟩
      have := applyWrites_seq ([] : List α) items len (by omega)
      simp only [List.map_nil, List.nil_append, List.length_nil, hl, Nat.sub_self,
        List.replicate_zero, List.append_nil] at this
      exact this
    · rw [if_neg hl]
      by_cases h1 : items.length = 1
      · obtain ⟨v, rfl⟩ := List.length_eq_one_iff.mp h1
        have hne : len ≠ 1 := fun h => hl (by simp [h])
        rw [c2 v h0 hne rfl]
        refine ⟨rfl, ?_⟩
        have := applyWrites_bcast v 0 len
        simpa [uninit] using this
      · rw [c3 h0 hl h1]
        split
        · simp at h1
        · exact ⟨rfl, rfl⟩

/-- after `Ok(())` every slot of the buffer is initialised; after `Err` no `uset` happened -/
theorem write_ok_fills (len : Nat) (items : List α) :
    ((writeTrustIter len (Iter.exact items)).status = .ok →
      (applyWrites (uninit α len) (writeTrustIter len (Iter.exact items)).writes).length = len ∧
      ∀ o ∈ applyWrites (uninit α len) (writeTrustIter len (Iter.exact items)).writes, o ≠ none) ∧
    ((writeTrustIter len (Iter.exact items)).status = .err →
      (writeTrustIter len (Iter.exact items)).writes = []) := by
  obtain ⟨hs, hb⟩ := write_buffer len items
  obtain ⟨c0, c1, c2, c3⟩ := write_cases len items
  constructor
  · intro hok
    rw [hb]
    rw [hs] at hok
    unfold Spec.write at hok ⊢
    by_cases h0 : len = 0
    · simp [h0]
    · rw [if_neg h0] at hok ⊢
      by_cases hl : items.length = len
      · rw [if_pos hl]; simp [hl]
      · rw [if_neg hl] at hok ⊢
        split at hok
        · simp
        · simp at hok
  · intro herr
    by_cases h0 : len = 0
    · rw [c0 h0]
    · by_cases hl : items.length = len
      · rw [c1 h0 hl] at herr; simp at herr
      · by_cases h1 : items.length = 1
        · obtain ⟨v, rfl⟩ := List.length_eq_one_iff.mp h1
          have hne : len ≠ 1 := fun h => hl (by simp [h])
          rw [c2 v h0 hne rfl] at herr; simp at herr
        · rw [c3 h0 hl h1]

/-! ## the defect of the pinned tree (F4) -/

/-- On the pinned tree integer `range` computed `(b-a)/step` with truncating division and an
identity `ceil`: `range(0, 5, 2)` was `[0, 2]` (the element `4 < 5` is missing), and the negative
count of `range(5, 0, 1)` wrapped to `2^64 - 5` elements, i.e. a "capacity overflow" panic in
`Vec::with_capacity`; the specification says `[0, 2, 4]` resp. `[]`. -/
theorem range_pinned_wrong :
    createRangePinned intOps 4 0 5 2 = .ok [0, 2] ∧ rangeInt 0 5 2 = [0, 2, 4] ∧
    createRangePinned intOps 4 5 0 1 = .panic ∧ rangeInt 5 0 1 = [] ∧
    createRange intOps .vec 4 0 5 2 = .ok [0, 2, 4] ∧ createRange intOps .vec 4 5 0 1 = .ok [] := by
  have e1 : countBefore ((0 : Int) : Rat) ((5 : Int) : Rat) ((2 : Int) : Rat) = 3 := by
    unfold countBefore
    have : (((5 : Int) : Rat) - ((0 : Int) : Rat)) / ((2 : Int) : Rat) = 5 / 2 := by norm_num
    rw [this]
    have : (5 / 2 : Rat).ceil = 3 := ceil_eq_of (by norm_num) (by norm_num)
    rw [this]; rfl
  have e2 : countBefore ((5 : Int) : Rat) ((0 : Int) : Rat) ((1 : Int) : Rat) = 0 :=
    countBefore_eq_zero _ _ _ (by norm_num)
  refine ⟨by decide, ?_, by decide, ?_, ?_, ?_⟩
  · unfold rangeInt; rw [e1]; decide
  · unfold rangeInt; rw [e2]; decide
  · rw [createRange_int .vec 4 0 5 2 (by decide) (by decide) (by rw [e1]; decide)]
    unfold rangeInt; rw [e1]; decide
  · rw [createRange_int .vec 4 5 0 1 (by decide) (by decide) (by rw [e2]; decide)]
    unfold rangeInt; rw [e2]; decide

/-! ## non-vacuity -/

/-- a descending float range with a span that is not a multiple of the step: `5, 3.5` -/
example : rangeRat 5 2 (-3 / 2) = [5, 7 / 2] := by
  have : countBefore 5 2 (-3 / 2) = 2 := by
    unfold countBefore
    have : ((2 : Rat) - 5) / (-3 / 2) = 2 := by norm_num
    rw [this]; rfl
  unfold rangeRat progression
  rw [this]
  simp [List.range_succ]
  norm_num

/-- the hypotheses of `write_buffer` / `write_cases` are met by a broadcast -/
example : writeTrustIter 3 (Iter.exact [7]) = ⟨.ok, [(0, 7), (1, 7), (2, 7)]⟩ := by decide

/-- an error leaves nothing written -/
example : writeTrustIter 3 (Iter.exact [1, 2]) = ⟨.err, []⟩ := by decide

/-- the first of two errors wins, after pulling three items -/
example : (tryCollectFromIter .vec ⟨[.ok 1, .ok 2, .error "a", .ok 3, .error "b"], none⟩ :
    TryRes String Nat).result = .error "a" := by decide

end Tv.C19
