import Tv.GenClosures
import Tv.Thm.C02Gen
import Tv.Lemmas.GenSim
import Tv.Thm.C03
import Mathlib.Tactic.Ring
import Mathlib.Tactic.NormNum
set_option linter.unusedSimpArgs false
set_option linter.unusedTactic false
set_option linter.unreachableTactic false
/-!
# C03 — the `ts_vzscore` closure regenerated from norm.rs is the model's closure

`Tv.Gen.ts_vzscore.step` is written by translator/closures.py from the Rust source on every run.
The cached-extremum closures of cmp.rs and `ts_vminmaxnorm` run over `rolling_apply_idx` and
re-read the series inside the closure (rescans); they are regenerated too (`Tv.Gen.ts_vmin.step`, …,
`Tv.Gen.ts_vminmaxnorm.step`) and proved to simulate the model's closures below.
-/
namespace Tv.C03Gen
open Tv Tv.GenSim Tv.C03

theorem eps_eq : Gen.EPS = C03.EPS := by norm_num [Gen.EPS, C03.EPS]
theorem eps_not_neg : ¬ (C03.EPS < 0) := by norm_num [C03.EPS]
theorem cast_pred (n : Nat) (h : 0 < n) : ((n - 1 : Nat) : Rat) = (n : Rat) - 1 := by
  rw [Nat.cast_sub h]; simp

def R_ts_vzscore (g : Gen.ts_vzscore.St) (m : ZSt) : Prop := g.n = m.n ∧ g.sum = m.sum ∧ g.sum2 = m.sum2

theorem ts_vzscore_pre (sqrt : Rat → Rat) (w mp : Nat) (g : Gen.ts_vzscore.St) (m : ZSt) (v : Option Rat)
    (h : R_ts_vzscore g m) :
    R_ts_vzscore (Gen.ts_vzscore.pre sqrt w mp g v).1 ((zRoll mp).add m v) ∧
    AgreeW (Gen.ts_vzscore.pre sqrt w mp g v).2 ((zRoll mp).emit ((zRoll mp).add m v)) := by
  obtain ⟨h0, h1, h2⟩ := h
  cases v with
  | none => simp [Gen.ts_vzscore.pre, zRoll, ZSt.add, zEmit, R_ts_vzscore, h0, h1, h2, AgreeW]
  | some v =>
    refine ⟨by simp [Gen.ts_vzscore.pre, zRoll, ZSt.add, R_ts_vzscore, h0, h1, h2], ?_⟩
    simp only [Gen.ts_vzscore.pre, zRoll, ZSt.add, zEmit, h0, h1, h2, eps_eq, sq, decide_eq_true_eq, ge_iff_le, gt_iff_lt]
    split_ifs <;> first | rfl | trivial

theorem ts_vzscore_post (w mp : Nat) (g : Gen.ts_vzscore.St) (m : ZSt) (x : Option Rat) (h : R_ts_vzscore g m) :
    R_ts_vzscore (Gen.ts_vzscore.post w g (some x)) ((zRoll mp).remove m x) := by
  obtain ⟨h0, h1, h2⟩ := h
  cases x <;> simp [Gen.ts_vzscore.post, zRoll, ZSt.remove, R_ts_vzscore, h0, h1, h2]

theorem ts_vzscore_step (sqrt : Rat → Rat) (w mp : Nat) (g : Gen.ts_vzscore.St) (m : ZSt)
    (rm : Option (Option Rat)) (v : Option Rat) (h : R_ts_vzscore g m) :
    R_ts_vzscore (Gen.ts_vzscore.step sqrt w mp g rm v).1 ((zRoll mp).step m (rm.map id) (id v)).1 ∧
    AgreeW (Gen.ts_vzscore.step sqrt w mp g rm v).2 ((zRoll mp).step m (rm.map id) (id v)).2 :=
  hstep_of_pre id (Gen.ts_vzscore.step sqrt w mp) (Gen.ts_vzscore.pre sqrt w mp) (Gen.ts_vzscore.post w)
    (zRoll mp) R_ts_vzscore AgreeW (Gen.ts_vzscore.step_eq sqrt w mp) (ts_vzscore_pre sqrt w mp)
    (ts_vzscore_post w mp) (fun _ => rfl) g m rm v h

theorem ts_vzscore_minPeriods (w : Nat) (mp : Option Nat) : Gen.ts_vzscore.minPeriods w mp = normMp mp w := rfl

theorem ts_vzscore_init (w : Nat) : R_ts_vzscore (Gen.ts_vzscore.init w) ⟨0, 0, 0, none⟩ := by
  simp [R_ts_vzscore, Gen.ts_vzscore.init]

/-- the closure regenerated from the source of `ts_vzscore`, driven over the callbacks of either
driver shape: null exactly where the from-scratch z-score is null, and a value where it is one
(the value itself is compared by the correspondence run: the model writes it under a root sign) -/
theorem ts_vzscore_exact (sqrt : Rat → Rat) (sh : Shape) (xs : List (Option Rat)) (w : Nat) (mp : Option Nat) (hw : 1 ≤ w) :
    List.Forall₂ AgreeW
      (genRun (Gen.ts_vzscore.step sqrt w (Gen.ts_vzscore.minPeriods w mp)) (Gen.ts_vzscore.init w) (applyCalls sh xs w))
      ((List.range xs.length).map fun i => Spec.tsZscore (normMp mp w) (window xs i w)) := by
  have h := run_sim id _ _ R_ts_vzscore AgreeW (ts_vzscore_step sqrt w (Gen.ts_vzscore.minPeriods w mp))
    (applyCalls sh xs w) _ _ (ts_vzscore_init w)
  rw [ts_vzscore_minPeriods, mapCalls_id] at h
  rw [ts_vzscore_minPeriods, ← vzscore_exact sh xs w mp hw]
  exact h

theorem closures_present : "ts_vzscore" ∈ Gen.closures := by simp [Gen.closures]

/-! ## the cached-extremum closures of cmp.rs (`rolling_apply_idx`, rescans through `self.uget`) -/

theorem uget_eq (xs : List (Option Rat)) (i : Nat) : Gen.uget xs i = C03.get xs i := rfl
theorem optLt_eq (a b : Option Nat) : Gen.optLt a b = ltON a b := by
  cases a <;> cases b <;> rfl

/-- `match a.sort_cmp(&b) { Less | Equal => X, _ => Y }` is `if a ≤ b (nulls last) then X else Y` -/
theorem sortCmp_le {α : Type} (a b : Option Rat) (X Y : α) :
    Gen.ordCases (Gen.sortCmp a b) X X Y = if leNL a b then X else Y := by
  cases a with
  | none => cases b <;> simp [Gen.sortCmp, leNL, Gen.ordCases]
  | some a =>
    cases b with
    | none => simp [Gen.sortCmp, leNL, Gen.ordCases]
    | some b =>
      simp only [Gen.sortCmp, Gen.cmpRat, leNL]
      by_cases h1 : a < b
      · simp [h1, le_of_lt h1, Gen.ordCases]
      · by_cases h2 : a = b
        · simp [h2, Gen.ordCases]
        · have : ¬ a ≤ b := fun h => h1 (lt_of_le_of_ne h h2)
          simp [h1, h2, this, Gen.ordCases]

theorem sortCmpRev_ge {α : Type} (a b : Option Rat) (X Y : α) :
    Gen.ordCases (Gen.sortCmpRev a b) X X Y = if geNL a b then X else Y := by
  cases a with
  | none => cases b <;> simp [Gen.sortCmpRev, geNL, Gen.ordCases]
  | some a =>
    cases b with
    | none => simp [Gen.sortCmpRev, geNL, Gen.ordCases]
    | some b =>
      simp only [Gen.sortCmpRev, Gen.cmpRat, geNL]
      by_cases h1 : a < b
      · have : ¬ b ≤ a := not_le.mpr h1
        simp [h1, this, Gen.ordCases, Ordering.swap]
      · by_cases h2 : a = b
        · simp [h2, Gen.ordCases, Ordering.swap]
        · have : b ≤ a := not_lt.mp h1
          simp [h1, h2, this, Gen.ordCases, Ordering.swap]

theorem upd_fun (le : Option Rat → Option Rat → Bool) (xs : List (Option Rat)) :
    (fun (x : ExtSt) i =>
      ((if le (C03.get xs i) x.1 = true then (C03.get xs i, some i) else (x.1, x.2)).1,
       (if le (C03.get xs i) x.1 = true then (C03.get xs i, some i) else (x.1, x.2)).2))
      = upd le (C03.get xs) := by
  funext x i
  unfold upd updV
  split_ifs <;> rfl

theorem agree_optOut (sqrt : Rat → Rat) (o : Option Rat) : Agree sqrt o (optOut o) := by
  cases o <;> simp [optOut, Agree]

theorem agree_mask_val (sqrt : Rat → Rat) (n mp : Nat) (start : Option Nat) (m : ExtSt) :
    Agree sqrt (if decide (n ≥ mp) = true then m.1 else none) (if n ≥ mp then Proj.val.out m start else Out.null) := by
  by_cases h : n ≥ mp
  · simp only [h, decide_true, if_true, Proj.out]; exact agree_optOut sqrt _
  · simp only [h, decide_false, if_false, Bool.false_eq_true]; rfl

theorem agree_mask_arg (sqrt : Rat → Rat) (n mp : Nat) (start : Option Nat) (m : ExtSt) :
    Agree sqrt
      (if decide (n ≥ mp) = true then
        ((m.1.bind fun _ => m.2).map fun k => (((k - start.getD 0 + 1 : Nat)) : Rat)) else none)
      (if n ≥ mp then Proj.arg.out m start else Out.null) := by
  by_cases h : n ≥ mp
  · simp only [h, decide_true, if_true, Proj.out]
    obtain ⟨a, b⟩ := m
    cases a <;> cases b <;> simp [offsetOut, Agree]
  · simp only [h, decide_false, if_false, Bool.false_eq_true]; rfl

/-- generated step functions of the index-driven closures, run over `(start?, end, value)` calls -/
def genRunIdx {σ : Type} (step : σ → Option Nat → Nat → Option Rat → σ × Option Rat) (s : σ)
    (cs : List (Option Nat × Nat × Option Rat)) : List (Option Rat) :=
  runSt (fun s c => step s c.1 c.2.1 c.2.2) s cs

theorem runSt_sim {σ τ γ β δ : Type} (f : σ → γ → σ × β) (g : τ → γ → τ × δ) (R : σ → τ → Prop) (A : β → δ → Prop)
    (h : ∀ s t c, R s t → R (f s c).1 (g t c).1 ∧ A (f s c).2 (g t c).2) :
    ∀ (cs : List γ) (s : σ) (t : τ), R s t → List.Forall₂ A (runSt f s cs) (runSt g t cs) := by
  intro cs
  induction cs with
  | nil => intro s t _; exact List.Forall₂.nil
  | cons c cs ih =>
    intro s t hr
    obtain ⟨h1, h2⟩ := h s t c hr
    exact List.Forall₂.cons h2 (ih _ _ h1)


/-! ### `ts_vmin` -/
def R_ts_vmin (g : Gen.ts_vmin.St) (m : CmpSt) : Prop := g.min = m.ext ∧ g.min_idx = m.idx ∧ g.n = m.n

/-- one call of the regenerated closure simulates one call of the model closure -/
theorem ts_vmin_step (sqrt : Rat → Rat) (xs : List (Option Rat)) (len w mp : Nat) (g : Gen.ts_vmin.St) (m : CmpSt)
    (c : Option Nat × Nat × Option Rat) (h : R_ts_vmin g m) :
    R_ts_vmin (Gen.ts_vmin.step sqrt xs len w mp g c.1 c.2.1 c.2.2).1 (cmpStep leNL .val (C03.get xs) mp m c).1 ∧
    Agree sqrt (Gen.ts_vmin.step sqrt xs len w mp g c.1 c.2.1 c.2.2).2 (cmpStep leNL .val (C03.get xs) mp m c).2 := by
  obtain ⟨start, e, v⟩ := c
  obtain ⟨h0, h1, h2⟩ := h
  rcases g with ⟨gmin, gidx, gn⟩
  rcases m with ⟨ext, idx, n⟩
  simp only at h0 h1 h2
  subst h0 h1 h2
  have hn : ∀ n1 : Nat, (if (start.isSome && (C03.get xs (start.getD 0)).isSome) = true then n1 - 1 else n1) =
      (match start with
        | some s => if (C03.get xs s).isSome = true then n1 - 1 else n1
        | none => n1) := by
    intro n1; cases start <;> simp
  cases v with
  | none =>
    by_cases hlt : Gen.optLt gidx start = true
    · cases start with
      | none => cases gidx <;> simp [Gen.optLt] at hlt
      | some st =>
        have hlt' : ltON gidx (some st) = true := by rw [← optLt_eq]; exact hlt
        simp only [Gen.ts_vmin.step, uget_eq, sortCmp_le, upd_fun, cmpStep, extStep, rescan, Option.isSome_none, Option.isSome_some, Option.isNone_none, Option.isNone_some, Option.getD_some, Bool.false_and, Bool.true_and, Bool.and_self, Bool.and_false, Bool.false_eq_true, if_false, if_true, R_ts_vmin, updV, hlt, hlt']
        exact ⟨⟨trivial, trivial, by first | trivial | exact hn _⟩, agree_mask_val sqrt _ _ _ _⟩
    · have hlt' : ¬ ltON gidx start = true := by rw [← optLt_eq]; exact hlt
      simp only [Gen.ts_vmin.step, uget_eq, sortCmp_le, upd_fun, cmpStep, extStep, rescan, Option.isSome_none, Option.isSome_some, Option.isNone_none, Option.isNone_some, Option.getD_some, Bool.false_and, Bool.true_and, Bool.and_self, Bool.and_false, Bool.false_eq_true, if_false, if_true, R_ts_vmin, updV, hlt, hlt']
      exact ⟨⟨trivial, trivial, by first | trivial | exact hn _⟩, agree_mask_val sqrt _ _ _ _⟩
  | some v =>
    cases gidx with
    | none =>
      by_cases hlt : Gen.optLt (some e) start = true
      · cases start with
        | none => simp [Gen.optLt] at hlt
        | some st =>
          have hlt' : ltON (some e) (some st) = true := by rw [← optLt_eq]; exact hlt
          simp only [Gen.ts_vmin.step, uget_eq, sortCmp_le, upd_fun, cmpStep, extStep, rescan, Option.isSome_none, Option.isSome_some, Option.isNone_none, Option.isNone_some, Option.getD_some, Bool.false_and, Bool.true_and, Bool.and_self, Bool.and_false, Bool.false_eq_true, if_false, if_true, R_ts_vmin, updV, hlt, hlt']
          exact ⟨⟨trivial, trivial, by first | trivial | exact hn _⟩, agree_mask_val sqrt _ _ _ _⟩
      · have hlt' : ¬ ltON (some e) start = true := by rw [← optLt_eq]; exact hlt
        simp only [Gen.ts_vmin.step, uget_eq, sortCmp_le, upd_fun, cmpStep, extStep, rescan, Option.isSome_none, Option.isSome_some, Option.isNone_none, Option.isNone_some, Option.getD_some, Bool.false_and, Bool.true_and, Bool.and_self, Bool.and_false, Bool.false_eq_true, if_false, if_true, R_ts_vmin, updV, hlt, hlt']
        exact ⟨⟨trivial, trivial, by first | trivial | exact hn _⟩, agree_mask_val sqrt _ _ _ _⟩
    | some k =>
      by_cases hlt : Gen.optLt (some k) start = true
      · cases start with
        | none => simp [Gen.optLt] at hlt
        | some st =>
          have hlt' : ltON (some k) (some st) = true := by rw [← optLt_eq]; exact hlt
          simp only [Gen.ts_vmin.step, uget_eq, sortCmp_le, upd_fun, cmpStep, extStep, rescan, Option.isSome_none, Option.isSome_some, Option.isNone_none, Option.isNone_some, Option.getD_some, Bool.false_and, Bool.true_and, Bool.and_self, Bool.and_false, Bool.false_eq_true, if_false, if_true, R_ts_vmin, updV, hlt, hlt']
          exact ⟨⟨trivial, trivial, by first | trivial | exact hn _⟩, agree_mask_val sqrt _ _ _ _⟩
      · have hlt' : ¬ ltON (some k) start = true := by rw [← optLt_eq]; exact hlt
        simp only [Gen.ts_vmin.step, uget_eq, sortCmp_le, upd_fun, cmpStep, extStep, rescan, Option.isSome_none, Option.isSome_some, Option.isNone_none, Option.isNone_some, Option.getD_some, Bool.false_and, Bool.true_and, Bool.and_self, Bool.and_false, Bool.false_eq_true, if_false, if_true, R_ts_vmin, updV, hlt, hlt']
        exact ⟨⟨trivial, trivial, by first | trivial | exact hn _⟩, agree_mask_val sqrt _ _ _ _⟩

theorem ts_vmin_window (len w : Nat) (h : 1 ≤ len) : Gen.ts_vmin.effWindow len w = min len w := by
  have : ¬ len = 0 := by omega
  simp [Gen.ts_vmin.effWindow, this]
theorem ts_vmin_minPeriods (len w : Nat) (mp : Option Nat) (h : 1 ≤ len) :
    Gen.ts_vmin.minPeriods len w mp = cmpMp mp w len := by
  have : ¬ len = 0 := by omega
  simp [Gen.ts_vmin.minPeriods, cmpMp, this]

/-- the closure regenerated from the source of `ts_vmin`, driven over the index callbacks of either
driver shape with the entry point's own window clamp, yields the from-scratch statistic of the
window at every position -/
theorem ts_vmin_exact (sqrt : Rat → Rat) (sh : Shape) (xs : List (Option Rat)) (w : Nat) (mp : Option Nat) (hw : 1 ≤ w) :
    List.Forall₂ (Agree sqrt)
      (genRunIdx (Gen.ts_vmin.step sqrt xs xs.length w (Gen.ts_vmin.minPeriods xs.length w mp))
        (Gen.ts_vmin.init xs.length w) (idxCalls sh xs (Gen.ts_vmin.effWindow xs.length w)))
      ((List.range xs.length).map fun i => Spec.tsMin (cmpMp mp w xs.length) (window xs i w)) := by
  rcases Nat.eq_zero_or_pos xs.length with h0 | hpos
  · have : xs = [] := List.length_eq_zero_iff.mp h0
    subst this
    simp [genRunIdx, idxCalls, runSt]
  · rw [ts_vmin_window _ _ hpos, ts_vmin_minPeriods _ _ _ hpos, ← C03.vmin_exact sh xs w mp hw]
    exact runSt_sim _ _ R_ts_vmin (Agree sqrt) (fun s t c hr => ts_vmin_step sqrt xs xs.length w _ s t c hr) _ _ _
      (by simp [R_ts_vmin, Gen.ts_vmin.init])


/-! ### `ts_vmax` -/
def R_ts_vmax (g : Gen.ts_vmax.St) (m : CmpSt) : Prop := g.max = m.ext ∧ g.max_idx = m.idx ∧ g.n = m.n

/-- one call of the regenerated closure simulates one call of the model closure -/
theorem ts_vmax_step (sqrt : Rat → Rat) (xs : List (Option Rat)) (len w mp : Nat) (g : Gen.ts_vmax.St) (m : CmpSt)
    (c : Option Nat × Nat × Option Rat) (h : R_ts_vmax g m) :
    R_ts_vmax (Gen.ts_vmax.step sqrt xs len w mp g c.1 c.2.1 c.2.2).1 (cmpStep geNL .val (C03.get xs) mp m c).1 ∧
    Agree sqrt (Gen.ts_vmax.step sqrt xs len w mp g c.1 c.2.1 c.2.2).2 (cmpStep geNL .val (C03.get xs) mp m c).2 := by
  obtain ⟨start, e, v⟩ := c
  obtain ⟨h0, h1, h2⟩ := h
  rcases g with ⟨gmin, gidx, gn⟩
  rcases m with ⟨ext, idx, n⟩
  simp only at h0 h1 h2
  subst h0 h1 h2
  have hn : ∀ n1 : Nat, (if (start.isSome && (C03.get xs (start.getD 0)).isSome) = true then n1 - 1 else n1) =
      (match start with
        | some s => if (C03.get xs s).isSome = true then n1 - 1 else n1
        | none => n1) := by
    intro n1; cases start <;> simp
  cases v with
  | none =>
    by_cases hlt : Gen.optLt gidx start = true
    · cases start with
      | none => cases gidx <;> simp [Gen.optLt] at hlt
      | some st =>
        have hlt' : ltON gidx (some st) = true := by rw [← optLt_eq]; exact hlt
        simp only [Gen.ts_vmax.step, uget_eq, sortCmpRev_ge, upd_fun, cmpStep, extStep, rescan, Option.isSome_none, Option.isSome_some, Option.isNone_none, Option.isNone_some, Option.getD_some, Bool.false_and, Bool.true_and, Bool.and_self, Bool.and_false, Bool.false_eq_true, if_false, if_true, R_ts_vmax, updV, hlt, hlt']
        exact ⟨⟨trivial, trivial, by first | trivial | exact hn _⟩, agree_mask_val sqrt _ _ _ _⟩
    · have hlt' : ¬ ltON gidx start = true := by rw [← optLt_eq]; exact hlt
      simp only [Gen.ts_vmax.step, uget_eq, sortCmpRev_ge, upd_fun, cmpStep, extStep, rescan, Option.isSome_none, Option.isSome_some, Option.isNone_none, Option.isNone_some, Option.getD_some, Bool.false_and, Bool.true_and, Bool.and_self, Bool.and_false, Bool.false_eq_true, if_false, if_true, R_ts_vmax, updV, hlt, hlt']
      exact ⟨⟨trivial, trivial, by first | trivial | exact hn _⟩, agree_mask_val sqrt _ _ _ _⟩
  | some v =>
    cases gidx with
    | none =>
      by_cases hlt : Gen.optLt (some e) start = true
      · cases start with
        | none => simp [Gen.optLt] at hlt
        | some st =>
          have hlt' : ltON (some e) (some st) = true := by rw [← optLt_eq]; exact hlt
          simp only [Gen.ts_vmax.step, uget_eq, sortCmpRev_ge, upd_fun, cmpStep, extStep, rescan, Option.isSome_none, Option.isSome_some, Option.isNone_none, Option.isNone_some, Option.getD_some, Bool.false_and, Bool.true_and, Bool.and_self, Bool.and_false, Bool.false_eq_true, if_false, if_true, R_ts_vmax, updV, hlt, hlt']
          exact ⟨⟨trivial, trivial, by first | trivial | exact hn _⟩, agree_mask_val sqrt _ _ _ _⟩
      · have hlt' : ¬ ltON (some e) start = true := by rw [← optLt_eq]; exact hlt
        simp only [Gen.ts_vmax.step, uget_eq, sortCmpRev_ge, upd_fun, cmpStep, extStep, rescan, Option.isSome_none, Option.isSome_some, Option.isNone_none, Option.isNone_some, Option.getD_some, Bool.false_and, Bool.true_and, Bool.and_self, Bool.and_false, Bool.false_eq_true, if_false, if_true, R_ts_vmax, updV, hlt, hlt']
        exact ⟨⟨trivial, trivial, by first | trivial | exact hn _⟩, agree_mask_val sqrt _ _ _ _⟩
    | some k =>
      by_cases hlt : Gen.optLt (some k) start = true
      · cases start with
        | none => simp [Gen.optLt] at hlt
        | some st =>
          have hlt' : ltON (some k) (some st) = true := by rw [← optLt_eq]; exact hlt
          simp only [Gen.ts_vmax.step, uget_eq, sortCmpRev_ge, upd_fun, cmpStep, extStep, rescan, Option.isSome_none, Option.isSome_some, Option.isNone_none, Option.isNone_some, Option.getD_some, Bool.false_and, Bool.true_and, Bool.and_self, Bool.and_false, Bool.false_eq_true, if_false, if_true, R_ts_vmax, updV, hlt, hlt']
          exact ⟨⟨trivial, trivial, by first | trivial | exact hn _⟩, agree_mask_val sqrt _ _ _ _⟩
      · have hlt' : ¬ ltON (some k) start = true := by rw [← optLt_eq]; exact hlt
        simp only [Gen.ts_vmax.step, uget_eq, sortCmpRev_ge, upd_fun, cmpStep, extStep, rescan, Option.isSome_none, Option.isSome_some, Option.isNone_none, Option.isNone_some, Option.getD_some, Bool.false_and, Bool.true_and, Bool.and_self, Bool.and_false, Bool.false_eq_true, if_false, if_true, R_ts_vmax, updV, hlt, hlt']
        exact ⟨⟨trivial, trivial, by first | trivial | exact hn _⟩, agree_mask_val sqrt _ _ _ _⟩

theorem ts_vmax_window (len w : Nat) (h : 1 ≤ len) : Gen.ts_vmax.effWindow len w = min len w := by
  have : ¬ len = 0 := by omega
  simp [Gen.ts_vmax.effWindow, this]
theorem ts_vmax_minPeriods (len w : Nat) (mp : Option Nat) (h : 1 ≤ len) :
    Gen.ts_vmax.minPeriods len w mp = cmpMp mp w len := by
  have : ¬ len = 0 := by omega
  simp [Gen.ts_vmax.minPeriods, cmpMp, this]

/-- the closure regenerated from the source of `ts_vmax`, driven over the index callbacks of either
driver shape with the entry point's own window clamp, yields the from-scratch statistic of the
window at every position -/
theorem ts_vmax_exact (sqrt : Rat → Rat) (sh : Shape) (xs : List (Option Rat)) (w : Nat) (mp : Option Nat) (hw : 1 ≤ w) :
    List.Forall₂ (Agree sqrt)
      (genRunIdx (Gen.ts_vmax.step sqrt xs xs.length w (Gen.ts_vmax.minPeriods xs.length w mp))
        (Gen.ts_vmax.init xs.length w) (idxCalls sh xs (Gen.ts_vmax.effWindow xs.length w)))
      ((List.range xs.length).map fun i => Spec.tsMax (cmpMp mp w xs.length) (window xs i w)) := by
  rcases Nat.eq_zero_or_pos xs.length with h0 | hpos
  · have : xs = [] := List.length_eq_zero_iff.mp h0
    subst this
    simp [genRunIdx, idxCalls, runSt]
  · rw [ts_vmax_window _ _ hpos, ts_vmax_minPeriods _ _ _ hpos, ← C03.vmax_exact sh xs w mp hw]
    exact runSt_sim _ _ R_ts_vmax (Agree sqrt) (fun s t c hr => ts_vmax_step sqrt xs xs.length w _ s t c hr) _ _ _
      (by simp [R_ts_vmax, Gen.ts_vmax.init])


/-! ### `ts_vargmin` -/
def R_ts_vargmin (g : Gen.ts_vargmin.St) (m : CmpSt) : Prop := g.min = m.ext ∧ g.min_idx = m.idx ∧ g.n = m.n

/-- one call of the regenerated closure simulates one call of the model closure -/
theorem ts_vargmin_step (sqrt : Rat → Rat) (xs : List (Option Rat)) (len w mp : Nat) (g : Gen.ts_vargmin.St) (m : CmpSt)
    (c : Option Nat × Nat × Option Rat) (h : R_ts_vargmin g m) :
    R_ts_vargmin (Gen.ts_vargmin.step sqrt xs len w mp g c.1 c.2.1 c.2.2).1 (cmpStep leNL .arg (C03.get xs) mp m c).1 ∧
    Agree sqrt (Gen.ts_vargmin.step sqrt xs len w mp g c.1 c.2.1 c.2.2).2 (cmpStep leNL .arg (C03.get xs) mp m c).2 := by
  obtain ⟨start, e, v⟩ := c
  obtain ⟨h0, h1, h2⟩ := h
  rcases g with ⟨gmin, gidx, gn⟩
  rcases m with ⟨ext, idx, n⟩
  simp only at h0 h1 h2
  subst h0 h1 h2
  have hn : ∀ n1 : Nat, (if (start.isSome && (C03.get xs (start.getD 0)).isSome) = true then n1 - 1 else n1) =
      (match start with
        | some s => if (C03.get xs s).isSome = true then n1 - 1 else n1
        | none => n1) := by
    intro n1; cases start <;> simp
  cases v with
  | none =>
    by_cases hlt : Gen.optLt gidx start = true
    · cases start with
      | none => cases gidx <;> simp [Gen.optLt] at hlt
      | some st =>
        have hlt' : ltON gidx (some st) = true := by rw [← optLt_eq]; exact hlt
        simp only [Gen.ts_vargmin.step, uget_eq, sortCmp_le, upd_fun, cmpStep, extStep, rescan, Option.isSome_none, Option.isSome_some, Option.isNone_none, Option.isNone_some, Option.getD_some, Bool.false_and, Bool.true_and, Bool.and_self, Bool.and_false, Bool.false_eq_true, if_false, if_true, R_ts_vargmin, updV, hlt, hlt']
        exact ⟨⟨trivial, trivial, by first | trivial | exact hn _⟩, agree_mask_arg sqrt _ _ _ _⟩
    · have hlt' : ¬ ltON gidx start = true := by rw [← optLt_eq]; exact hlt
      simp only [Gen.ts_vargmin.step, uget_eq, sortCmp_le, upd_fun, cmpStep, extStep, rescan, Option.isSome_none, Option.isSome_some, Option.isNone_none, Option.isNone_some, Option.getD_some, Bool.false_and, Bool.true_and, Bool.and_self, Bool.and_false, Bool.false_eq_true, if_false, if_true, R_ts_vargmin, updV, hlt, hlt']
      exact ⟨⟨trivial, trivial, by first | trivial | exact hn _⟩, agree_mask_arg sqrt _ _ _ _⟩
  | some v =>
    cases gidx with
    | none =>
      by_cases hlt : Gen.optLt (some e) start = true
      · cases start with
        | none => simp [Gen.optLt] at hlt
        | some st =>
          have hlt' : ltON (some e) (some st) = true := by rw [← optLt_eq]; exact hlt
          simp only [Gen.ts_vargmin.step, uget_eq, sortCmp_le, upd_fun, cmpStep, extStep, rescan, Option.isSome_none, Option.isSome_some, Option.isNone_none, Option.isNone_some, Option.getD_some, Bool.false_and, Bool.true_and, Bool.and_self, Bool.and_false, Bool.false_eq_true, if_false, if_true, R_ts_vargmin, updV, hlt, hlt']
          exact ⟨⟨trivial, trivial, by first | trivial | exact hn _⟩, agree_mask_arg sqrt _ _ _ _⟩
      · have hlt' : ¬ ltON (some e) start = true := by rw [← optLt_eq]; exact hlt
        simp only [Gen.ts_vargmin.step, uget_eq, sortCmp_le, upd_fun, cmpStep, extStep, rescan, Option.isSome_none, Option.isSome_some, Option.isNone_none, Option.isNone_some, Option.getD_some, Bool.false_and, Bool.true_and, Bool.and_self, Bool.and_false, Bool.false_eq_true, if_false, if_true, R_ts_vargmin, updV, hlt, hlt']
        exact ⟨⟨trivial, trivial, by first | trivial | exact hn _⟩, agree_mask_arg sqrt _ _ _ _⟩
    | some k =>
      by_cases hlt : Gen.optLt (some k) start = true
      · cases start with
        | none => simp [Gen.optLt] at hlt
        | some st =>
          have hlt' : ltON (some k) (some st) = true := by rw [← optLt_eq]; exact hlt
          simp only [Gen.ts_vargmin.step, uget_eq, sortCmp_le, upd_fun, cmpStep, extStep, rescan, Option.isSome_none, Option.isSome_some, Option.isNone_none, Option.isNone_some, Option.getD_some, Bool.false_and, Bool.true_and, Bool.and_self, Bool.and_false, Bool.false_eq_true, if_false, if_true, R_ts_vargmin, updV, hlt, hlt']
          exact ⟨⟨trivial, trivial, by first | trivial | exact hn _⟩, agree_mask_arg sqrt _ _ _ _⟩
      · have hlt' : ¬ ltON (some k) start = true := by rw [← optLt_eq]; exact hlt
        simp only [Gen.ts_vargmin.step, uget_eq, sortCmp_le, upd_fun, cmpStep, extStep, rescan, Option.isSome_none, Option.isSome_some, Option.isNone_none, Option.isNone_some, Option.getD_some, Bool.false_and, Bool.true_and, Bool.and_self, Bool.and_false, Bool.false_eq_true, if_false, if_true, R_ts_vargmin, updV, hlt, hlt']
        exact ⟨⟨trivial, trivial, by first | trivial | exact hn _⟩, agree_mask_arg sqrt _ _ _ _⟩

theorem ts_vargmin_window (len w : Nat) (h : 1 ≤ len) : Gen.ts_vargmin.effWindow len w = min len w := by
  have : ¬ len = 0 := by omega
  simp [Gen.ts_vargmin.effWindow, this]
theorem ts_vargmin_minPeriods (len w : Nat) (mp : Option Nat) (h : 1 ≤ len) :
    Gen.ts_vargmin.minPeriods len w mp = cmpMp mp w len := by
  have : ¬ len = 0 := by omega
  simp [Gen.ts_vargmin.minPeriods, cmpMp, this]

/-- the closure regenerated from the source of `ts_vargmin`, driven over the index callbacks of either
driver shape with the entry point's own window clamp, yields the from-scratch statistic of the
window at every position -/
theorem ts_vargmin_exact (sqrt : Rat → Rat) (sh : Shape) (xs : List (Option Rat)) (w : Nat) (mp : Option Nat) (hw : 1 ≤ w) :
    List.Forall₂ (Agree sqrt)
      (genRunIdx (Gen.ts_vargmin.step sqrt xs xs.length w (Gen.ts_vargmin.minPeriods xs.length w mp))
        (Gen.ts_vargmin.init xs.length w) (idxCalls sh xs (Gen.ts_vargmin.effWindow xs.length w)))
      ((List.range xs.length).map fun i => Spec.tsArgmin (cmpMp mp w xs.length) (window xs i w)) := by
  rcases Nat.eq_zero_or_pos xs.length with h0 | hpos
  · have : xs = [] := List.length_eq_zero_iff.mp h0
    subst this
    simp [genRunIdx, idxCalls, runSt]
  · rw [ts_vargmin_window _ _ hpos, ts_vargmin_minPeriods _ _ _ hpos, ← C03.vargmin_exact sh xs w mp hw]
    exact runSt_sim _ _ R_ts_vargmin (Agree sqrt) (fun s t c hr => ts_vargmin_step sqrt xs xs.length w _ s t c hr) _ _ _
      (by simp [R_ts_vargmin, Gen.ts_vargmin.init])


/-! ### `ts_vargmax` -/
def R_ts_vargmax (g : Gen.ts_vargmax.St) (m : CmpSt) : Prop := g.max = m.ext ∧ g.max_idx = m.idx ∧ g.n = m.n

/-- one call of the regenerated closure simulates one call of the model closure -/
theorem ts_vargmax_step (sqrt : Rat → Rat) (xs : List (Option Rat)) (len w mp : Nat) (g : Gen.ts_vargmax.St) (m : CmpSt)
    (c : Option Nat × Nat × Option Rat) (h : R_ts_vargmax g m) :
    R_ts_vargmax (Gen.ts_vargmax.step sqrt xs len w mp g c.1 c.2.1 c.2.2).1 (cmpStep geNL .arg (C03.get xs) mp m c).1 ∧
    Agree sqrt (Gen.ts_vargmax.step sqrt xs len w mp g c.1 c.2.1 c.2.2).2 (cmpStep geNL .arg (C03.get xs) mp m c).2 := by
  obtain ⟨start, e, v⟩ := c
  obtain ⟨h0, h1, h2⟩ := h
  rcases g with ⟨gmin, gidx, gn⟩
  rcases m with ⟨ext, idx, n⟩
  simp only at h0 h1 h2
  subst h0 h1 h2
  have hn : ∀ n1 : Nat, (if (start.isSome && (C03.get xs (start.getD 0)).isSome) = true then n1 - 1 else n1) =
      (match start with
        | some s => if (C03.get xs s).isSome = true then n1 - 1 else n1
        | none => n1) := by
    intro n1; cases start <;> simp
  cases v with
  | none =>
    by_cases hlt : Gen.optLt gidx start = true
    · cases start with
      | none => cases gidx <;> simp [Gen.optLt] at hlt
      | some st =>
        have hlt' : ltON gidx (some st) = true := by rw [← optLt_eq]; exact hlt
        simp only [Gen.ts_vargmax.step, uget_eq, sortCmpRev_ge, upd_fun, cmpStep, extStep, rescan, Option.isSome_none, Option.isSome_some, Option.isNone_none, Option.isNone_some, Option.getD_some, Bool.false_and, Bool.true_and, Bool.and_self, Bool.and_false, Bool.false_eq_true, if_false, if_true, R_ts_vargmax, updV, hlt, hlt']
        exact ⟨⟨trivial, trivial, by first | trivial | exact hn _⟩, agree_mask_arg sqrt _ _ _ _⟩
    · have hlt' : ¬ ltON gidx start = true := by rw [← optLt_eq]; exact hlt
      simp only [Gen.ts_vargmax.step, uget_eq, sortCmpRev_ge, upd_fun, cmpStep, extStep, rescan, Option.isSome_none, Option.isSome_some, Option.isNone_none, Option.isNone_some, Option.getD_some, Bool.false_and, Bool.true_and, Bool.and_self, Bool.and_false, Bool.false_eq_true, if_false, if_true, R_ts_vargmax, updV, hlt, hlt']
      exact ⟨⟨trivial, trivial, by first | trivial | exact hn _⟩, agree_mask_arg sqrt _ _ _ _⟩
  | some v =>
    cases gidx with
    | none =>
      by_cases hlt : Gen.optLt (some e) start = true
      · cases start with
        | none => simp [Gen.optLt] at hlt
        | some st =>
          have hlt' : ltON (some e) (some st) = true := by rw [← optLt_eq]; exact hlt
          simp only [Gen.ts_vargmax.step, uget_eq, sortCmpRev_ge, upd_fun, cmpStep, extStep, rescan, Option.isSome_none, Option.isSome_some, Option.isNone_none, Option.isNone_some, Option.getD_some, Bool.false_and, Bool.true_and, Bool.and_self, Bool.and_false, Bool.false_eq_true, if_false, if_true, R_ts_vargmax, updV, hlt, hlt']
          exact ⟨⟨trivial, trivial, by first | trivial | exact hn _⟩, agree_mask_arg sqrt _ _ _ _⟩
      · have hlt' : ¬ ltON (some e) start = true := by rw [← optLt_eq]; exact hlt
        simp only [Gen.ts_vargmax.step, uget_eq, sortCmpRev_ge, upd_fun, cmpStep, extStep, rescan, Option.isSome_none, Option.isSome_some, Option.isNone_none, Option.isNone_some, Option.getD_some, Bool.false_and, Bool.true_and, Bool.and_self, Bool.and_false, Bool.false_eq_true, if_false, if_true, R_ts_vargmax, updV, hlt, hlt']
        exact ⟨⟨trivial, trivial, by first | trivial | exact hn _⟩, agree_mask_arg sqrt _ _ _ _⟩
    | some k =>
      by_cases hlt : Gen.optLt (some k) start = true
      · cases start with
        | none => simp [Gen.optLt] at hlt
        | some st =>
          have hlt' : ltON (some k) (some st) = true := by rw [← optLt_eq]; exact hlt
          simp only [Gen.ts_vargmax.step, uget_eq, sortCmpRev_ge, upd_fun, cmpStep, extStep, rescan, Option.isSome_none, Option.isSome_some, Option.isNone_none, Option.isNone_some, Option.getD_some, Bool.false_and, Bool.true_and, Bool.and_self, Bool.and_false, Bool.false_eq_true, if_false, if_true, R_ts_vargmax, updV, hlt, hlt']
          exact ⟨⟨trivial, trivial, by first | trivial | exact hn _⟩, agree_mask_arg sqrt _ _ _ _⟩
      · have hlt' : ¬ ltON (some k) start = true := by rw [← optLt_eq]; exact hlt
        simp only [Gen.ts_vargmax.step, uget_eq, sortCmpRev_ge, upd_fun, cmpStep, extStep, rescan, Option.isSome_none, Option.isSome_some, Option.isNone_none, Option.isNone_some, Option.getD_some, Bool.false_and, Bool.true_and, Bool.and_self, Bool.and_false, Bool.false_eq_true, if_false, if_true, R_ts_vargmax, updV, hlt, hlt']
        exact ⟨⟨trivial, trivial, by first | trivial | exact hn _⟩, agree_mask_arg sqrt _ _ _ _⟩

theorem ts_vargmax_window (len w : Nat) (h : 1 ≤ len) : Gen.ts_vargmax.effWindow len w = min len w := by
  have : ¬ len = 0 := by omega
  simp [Gen.ts_vargmax.effWindow, this]
theorem ts_vargmax_minPeriods (len w : Nat) (mp : Option Nat) (h : 1 ≤ len) :
    Gen.ts_vargmax.minPeriods len w mp = cmpMp mp w len := by
  have : ¬ len = 0 := by omega
  simp [Gen.ts_vargmax.minPeriods, cmpMp, this]

/-- the closure regenerated from the source of `ts_vargmax`, driven over the index callbacks of either
driver shape with the entry point's own window clamp, yields the from-scratch statistic of the
window at every position -/
theorem ts_vargmax_exact (sqrt : Rat → Rat) (sh : Shape) (xs : List (Option Rat)) (w : Nat) (mp : Option Nat) (hw : 1 ≤ w) :
    List.Forall₂ (Agree sqrt)
      (genRunIdx (Gen.ts_vargmax.step sqrt xs xs.length w (Gen.ts_vargmax.minPeriods xs.length w mp))
        (Gen.ts_vargmax.init xs.length w) (idxCalls sh xs (Gen.ts_vargmax.effWindow xs.length w)))
      ((List.range xs.length).map fun i => Spec.tsArgmax (cmpMp mp w xs.length) (window xs i w)) := by
  rcases Nat.eq_zero_or_pos xs.length with h0 | hpos
  · have : xs = [] := List.length_eq_zero_iff.mp h0
    subst this
    simp [genRunIdx, idxCalls, runSt]
  · rw [ts_vargmax_window _ _ hpos, ts_vargmax_minPeriods _ _ _ hpos, ← C03.vargmax_exact sh xs w mp hw]
    exact runSt_sim _ _ R_ts_vargmax (Agree sqrt) (fun s t c hr => ts_vargmax_step sqrt xs xs.length w _ s t c hr) _ _ _
      (by simp [R_ts_vargmax, Gen.ts_vargmax.init])


theorem cmp_closures_present :
    ∀ n ∈ ["ts_vmin", "ts_vmax", "ts_vargmin", "ts_vargmax", "ts_vrank"], n ∈ Gen.closures := by
  simp [Gen.closures]

/-! ## `ts_vrank` (cmp.rs): the recount loop, NaN-propagating rank arithmetic -/

theorem rank_fold_inv (g : Nat → Option Rat) (x : Rat)
    (f : Option Rat × Nat → Nat → Option Rat × Nat)
    (hf : ∀ (a b : Nat) i, f (some (1 + (a : Rat)), 1 + b) i
        = (some (1 + ((rankAcc g x (a, b) i).1 : Rat)), 1 + (rankAcc g x (a, b) i).2)) :
    ∀ (l : List Nat) (a b : Nat), List.foldl f (some (1 + (a : Rat)), 1 + b) l
      = (some (1 + (((List.foldl (rankAcc g x) (a, b) l).1 : Nat) : Rat)), 1 + (List.foldl (rankAcc g x) (a, b) l).2) := by
  intro l
  induction l with
  | nil => intro a b; rfl
  | cons i l ih =>
    intro a b
    simp only [List.foldl_cons]
    rw [hf a b i]
    exact ih _ _

theorem ts_vrank_step (sqrt : Rat → Rat) (xs : List (Option Rat)) (len w mp : Nat) (pct rev : Bool)
    (g : Gen.ts_vrank.St) (n : Nat) (c : Option Nat × Nat × Option Rat) (h : g.n = n) (hlen : 1 ≤ len)
    (hc : c.2.1 ≥ min len w - 1 → c.1.isSome = true) :
    (Gen.ts_vrank.step sqrt xs len w mp pct rev g c.1 c.2.1 c.2.2).1.n = (rankStep (C03.get xs) mp (min len w - 1) pct rev n c).1 ∧
    Agree sqrt (Gen.ts_vrank.step sqrt xs len w mp pct rev g c.1 c.2.1 c.2.2).2 (rankStep (C03.get xs) mp (min len w - 1) pct rev n c).2 := by
  obtain ⟨start, e, v⟩ := c
  rcases g with ⟨gn⟩
  simp only at h hc
  subst h
  have hl0 : ¬ len = 0 := by omega
  cases v with
  | none =>
    simp only [Gen.ts_vrank.step, rankStep, hl0, decide_false, if_false, Bool.false_eq_true, uget_eq]
    constructor
    · by_cases he : e ≥ min len w - 1
      · have hs := hc he
        cases start with
        | none => simp at hs
        | some st => simp [he]
      · simp [he]
    · cases rev <;> cases pct <;> simp [Gen.lift2, Agree] 
  | some x =>
    simp only [Gen.ts_vrank.step, rankStep, hl0, decide_false, if_false, Bool.false_eq_true, uget_eq, Option.isSome_some, if_true]
    constructor
    · by_cases he : e ≥ min len w - 1
      · have hs := hc he
        cases start with
        | none => simp at hs
        | some st => simp [he]
      · simp [he]
    · have e0 : ((some (1 : Rat), 1) : Option Rat × Nat) = (some (1 + ((0 : Nat) : Rat)), 1 + 0) := by simp
      rw [e0, rank_fold_inv (C03.get xs) x]
      · simp only [rankCount]
        generalize List.foldl (rankAcc (C03.get xs) x) (0, 0) (List.range' (start.getD 0) (e - start.getD 0)) = cnt
        obtain ⟨c1, c2⟩ := cnt
        by_cases hm : gn + 1 ≥ mp
        · cases rev <;> cases pct <;> simp [hm, Gen.lift2, Agree]
        · simp [hm, Agree]
      · intro a b i
        simp only [rankAcc]
        cases hg : C03.get xs i with
        | none => simp
        | some y =>
          simp only [decide_eq_true_eq]
          by_cases h1 : y < x
          · simp [h1, Gen.lift2]; ring
          · by_cases h2 : y = x
            · simp [h2]; ring
            · simp [h1, h2]

theorem runSt_sim_mem {σ τ γ β δ : Type} (f : σ → γ → σ × β) (g : τ → γ → τ × δ) (R : σ → τ → Prop) (A : β → δ → Prop)
    (cs : List γ) (h : ∀ s t c, c ∈ cs → R s t → R (f s c).1 (g t c).1 ∧ A (f s c).2 (g t c).2) :
    ∀ (s : σ) (t : τ), R s t → List.Forall₂ A (runSt f s cs) (runSt g t cs) := by
  induction cs with
  | nil => intro s t _; exact List.Forall₂.nil
  | cons c cs ih =>
    intro s t hr
    obtain ⟨h1, h2⟩ := h s t c (List.mem_cons_self) hr
    exact List.Forall₂.cons h2 (ih (fun s t c hc => h s t c (List.mem_cons_of_mem _ hc)) _ _ h1)

theorem ts_vrank_window (len w : Nat) (h : 1 ≤ len) : Gen.ts_vrank.effWindow len w = min len w := by
  have : ¬ len = 0 := by omega
  simp [Gen.ts_vrank.effWindow, this]
theorem ts_vrank_minPeriods (len w : Nat) (mp : Option Nat) (h : 1 ≤ len) :
    Gen.ts_vrank.minPeriods len w mp = cmpMp mp w len := by
  have : ¬ len = 0 := by omega
  simp [Gen.ts_vrank.minPeriods, cmpMp, this]

/-- the closure regenerated from the source of `ts_vrank` (the O(w) recount at every position)
yields the average rank of the current element in its window, ascending or descending, optionally
as a fraction -/
theorem ts_vrank_exact (sqrt : Rat → Rat) (sh : Shape) (xs : List (Option Rat)) (w : Nat) (mp : Option Nat)
    (pct rev : Bool) (hw : 1 ≤ w) :
    List.Forall₂ (Agree sqrt)
      (genRunIdx (Gen.ts_vrank.step sqrt xs xs.length w (Gen.ts_vrank.minPeriods xs.length w mp) pct rev)
        (Gen.ts_vrank.init xs.length w) (idxCalls sh xs (Gen.ts_vrank.effWindow xs.length w)))
      ((List.range xs.length).map fun i => Spec.tsRank (cmpMp mp w xs.length) pct rev (window xs i w)) := by
  rcases Nat.eq_zero_or_pos xs.length with h0 | hpos
  · have : xs = [] := List.length_eq_zero_iff.mp h0
    subst this
    simp [genRunIdx, idxCalls, runSt]
  · rw [ts_vrank_window _ _ hpos, ts_vrank_minPeriods _ _ _ hpos, ← C03.vrank_exact sh xs w mp pct rev hw]
    unfold tsVrank genRunIdx
    exact runSt_sim_mem _ _ (fun (g : Gen.ts_vrank.St) (n : Nat) => g.n = n) (Agree sqrt) _
      (fun s t c hc hr => ts_vrank_step sqrt xs xs.length w _ pct rev s t c hr hpos
        (vrank_unwrap_safe sh xs w hw c hc)) _ _ (by simp [Gen.ts_vrank.init])

/-! ## from source, end to end: regenerated driver and regenerated closure together -/

theorem ts_vzscore_from_source (sqrt : Rat → Rat) (xs : List (Option Rat)) (w : Nat) (mp : Option Nat) (hw : 1 ≤ w) :
    C02Gen.E2E (fun cs => List.Forall₂ AgreeW
      (genRun (Gen.ts_vzscore.step sqrt w (Gen.ts_vzscore.minPeriods w mp)) (Gen.ts_vzscore.init w) cs)
      ((List.range xs.length).map fun i => Spec.tsZscore (normMp mp w) (window xs i w))) xs w :=
  C02Gen.e2e_apply _ xs w hw (ts_vzscore_exact sqrt .to xs w mp hw) (ts_vzscore_exact sqrt .iter xs w mp hw)

theorem ts_vmin_effWindow_pos (len w : Nat) (hw : 1 ≤ w) : 1 ≤ Gen.ts_vmin.effWindow len w := by
  simp only [Gen.ts_vmin.effWindow]
  split <;> simp_all <;> omega

/-- regenerated index driver (both shapes, with the entry point's own window clamp) + regenerated closure -/
theorem ts_vmin_from_source (sqrt : Rat → Rat) (xs : List (Option Rat)) (w : Nat) (mp : Option Nat) (hw : 1 ≤ w) :
    C02Gen.E2EIdx (fun cs => List.Forall₂ (Agree sqrt)
      (genRunIdx (Gen.ts_vmin.step sqrt xs xs.length w (Gen.ts_vmin.minPeriods xs.length w mp)) (Gen.ts_vmin.init xs.length w) cs)
      ((List.range xs.length).map fun i => Spec.tsMin (cmpMp mp w xs.length) (window xs i w)))
      xs (Gen.ts_vmin.effWindow xs.length w) :=
  C02Gen.e2e_idx _ xs _ (ts_vmin_effWindow_pos _ w hw) (ts_vmin_exact sqrt .to xs w mp hw) (ts_vmin_exact sqrt .iter xs w mp hw)

theorem ts_vmax_effWindow_pos (len w : Nat) (hw : 1 ≤ w) : 1 ≤ Gen.ts_vmax.effWindow len w := by
  simp only [Gen.ts_vmax.effWindow]
  split <;> simp_all <;> omega

/-- regenerated index driver (both shapes, with the entry point's own window clamp) + regenerated closure -/
theorem ts_vmax_from_source (sqrt : Rat → Rat) (xs : List (Option Rat)) (w : Nat) (mp : Option Nat) (hw : 1 ≤ w) :
    C02Gen.E2EIdx (fun cs => List.Forall₂ (Agree sqrt)
      (genRunIdx (Gen.ts_vmax.step sqrt xs xs.length w (Gen.ts_vmax.minPeriods xs.length w mp)) (Gen.ts_vmax.init xs.length w) cs)
      ((List.range xs.length).map fun i => Spec.tsMax (cmpMp mp w xs.length) (window xs i w)))
      xs (Gen.ts_vmax.effWindow xs.length w) :=
  C02Gen.e2e_idx _ xs _ (ts_vmax_effWindow_pos _ w hw) (ts_vmax_exact sqrt .to xs w mp hw) (ts_vmax_exact sqrt .iter xs w mp hw)

theorem ts_vargmin_effWindow_pos (len w : Nat) (hw : 1 ≤ w) : 1 ≤ Gen.ts_vargmin.effWindow len w := by
  simp only [Gen.ts_vargmin.effWindow]
  split <;> simp_all <;> omega

/-- regenerated index driver (both shapes, with the entry point's own window clamp) + regenerated closure -/
theorem ts_vargmin_from_source (sqrt : Rat → Rat) (xs : List (Option Rat)) (w : Nat) (mp : Option Nat) (hw : 1 ≤ w) :
    C02Gen.E2EIdx (fun cs => List.Forall₂ (Agree sqrt)
      (genRunIdx (Gen.ts_vargmin.step sqrt xs xs.length w (Gen.ts_vargmin.minPeriods xs.length w mp)) (Gen.ts_vargmin.init xs.length w) cs)
      ((List.range xs.length).map fun i => Spec.tsArgmin (cmpMp mp w xs.length) (window xs i w)))
      xs (Gen.ts_vargmin.effWindow xs.length w) :=
  C02Gen.e2e_idx _ xs _ (ts_vargmin_effWindow_pos _ w hw) (ts_vargmin_exact sqrt .to xs w mp hw) (ts_vargmin_exact sqrt .iter xs w mp hw)

theorem ts_vargmax_effWindow_pos (len w : Nat) (hw : 1 ≤ w) : 1 ≤ Gen.ts_vargmax.effWindow len w := by
  simp only [Gen.ts_vargmax.effWindow]
  split <;> simp_all <;> omega

/-- regenerated index driver (both shapes, with the entry point's own window clamp) + regenerated closure -/
theorem ts_vargmax_from_source (sqrt : Rat → Rat) (xs : List (Option Rat)) (w : Nat) (mp : Option Nat) (hw : 1 ≤ w) :
    C02Gen.E2EIdx (fun cs => List.Forall₂ (Agree sqrt)
      (genRunIdx (Gen.ts_vargmax.step sqrt xs xs.length w (Gen.ts_vargmax.minPeriods xs.length w mp)) (Gen.ts_vargmax.init xs.length w) cs)
      ((List.range xs.length).map fun i => Spec.tsArgmax (cmpMp mp w xs.length) (window xs i w)))
      xs (Gen.ts_vargmax.effWindow xs.length w) :=
  C02Gen.e2e_idx _ xs _ (ts_vargmax_effWindow_pos _ w hw) (ts_vargmax_exact sqrt .to xs w mp hw) (ts_vargmax_exact sqrt .iter xs w mp hw)

theorem ts_vrank_effWindow_pos (len w : Nat) (hw : 1 ≤ w) : 1 ≤ Gen.ts_vrank.effWindow len w := by
  simp only [Gen.ts_vrank.effWindow]
  split <;> simp_all <;> omega

theorem ts_vrank_from_source (sqrt : Rat → Rat) (xs : List (Option Rat)) (w : Nat) (mp : Option Nat)
    (pct rev : Bool) (hw : 1 ≤ w) :
    C02Gen.E2EIdx (fun cs => List.Forall₂ (Agree sqrt)
      (genRunIdx (Gen.ts_vrank.step sqrt xs xs.length w (Gen.ts_vrank.minPeriods xs.length w mp) pct rev)
        (Gen.ts_vrank.init xs.length w) cs)
      ((List.range xs.length).map fun i => Spec.tsRank (cmpMp mp w xs.length) pct rev (window xs i w)))
      xs (Gen.ts_vrank.effWindow xs.length w) :=
  C02Gen.e2e_idx _ xs _ (ts_vrank_effWindow_pos _ w hw) (ts_vrank_exact sqrt .to xs w mp pct rev hw)
    (ts_vrank_exact sqrt .iter xs w mp pct rev hw)

/-! ## `ts_vminmaxnorm` (norm.rs): sentinel-initialised caches, the four-way expiry match and its
three rescans, regenerated from the source -/

theorem geS_eq (v : Rat) (m : Option Rat) : Gen.geS v m = C03.geS v m := by cases m <;> rfl
theorem leS_eq (v : Rat) (m : Option Rat) : Gen.leS v m = C03.leS v m := by cases m <;> rfl

theorem foldl_congr_fn {α β : Type} (f g : β → α → β) (h : ∀ b a, f b a = g b a) (l : List α) (b : β) :
    List.foldl f b l = List.foldl g b l := by
  have : f = g := by funext b a; exact h b a
  rw [this]

theorem rescan1 (cmp : Rat → Option Rat → Bool) (g : Nat → Option Rat)
    (F : Option Rat × Nat → Nat → Option Rat × Nat) (hF : ∀ st i, F st i = sUpd cmp st (g i) i)
    (m : Option Rat) (k s e : Nat) :
    List.foldl F (none, k) (List.range' s (e - s)) = sRescan cmp g (m, k) s e := by
  unfold sRescan
  exact foldl_congr_fn _ _ hF _ _

theorem rescan2_aux (g : Nat → Option Rat)
    (F : Option Rat × Nat × Option Rat × Nat → Nat → Option Rat × Nat × Option Rat × Nat)
    (hF : ∀ a b c d i, F (a, b, c, d) i =
      ((sUpd C03.geS (a, b) (g i) i).1, (sUpd C03.geS (a, b) (g i) i).2,
       (sUpd C03.leS (c, d) (g i) i).1, (sUpd C03.leS (c, d) (g i) i).2)) :
    ∀ (l : List Nat) (a : Option Rat) (b : Nat) (c : Option Rat) (d : Nat),
    List.foldl F (a, b, c, d) l =
      ((List.foldl (fun st i => sUpd C03.geS st (g i) i) (a, b) l).1,
       (List.foldl (fun st i => sUpd C03.geS st (g i) i) (a, b) l).2,
       (List.foldl (fun st i => sUpd C03.leS st (g i) i) (c, d) l).1,
       (List.foldl (fun st i => sUpd C03.leS st (g i) i) (c, d) l).2) := by
  intro l
  induction l with
  | nil => intro a b c d; rfl
  | cons i l ih =>
    intro a b c d
    rw [List.foldl_cons, hF, ih]
    rfl

theorem rescan2 (g : Nat → Option Rat)
    (F : Option Rat × Nat × Option Rat × Nat → Nat → Option Rat × Nat × Option Rat × Nat)
    (hF : ∀ a b c d i, F (a, b, c, d) i =
      ((sUpd C03.geS (a, b) (g i) i).1, (sUpd C03.geS (a, b) (g i) i).2,
       (sUpd C03.leS (c, d) (g i) i).1, (sUpd C03.leS (c, d) (g i) i).2))
    (m1 m2 : Option Rat) (k1 k2 s e : Nat) :
    List.foldl F (none, k1, none, k2) (List.range' s (e - s)) =
      ((sRescan C03.geS g (m1, k1) s e).1, (sRescan C03.geS g (m1, k1) s e).2,
       (sRescan C03.leS g (m2, k2) s e).1, (sRescan C03.leS g (m2, k2) s e).2) := by
  unfold sRescan
  exact rescan2_aux g F hF _ _ _ _ _

def R_ts_vminmaxnorm (g : Gen.ts_vminmaxnorm.St) (m : MMSt) : Prop :=
  g.max = m.mx.1 ∧ g.max_idx = m.mx.2 ∧ g.min = m.mn.1 ∧ g.min_idx = m.mn.2 ∧ g.n = m.n

set_option hygiene false in
/-- after the rescans: the end element, the output and the count of the leaving element -/
macro "mm_tail" : tactic => `(tactic| (
  cases hs : C03.get xs s <;> cases v with
  | none => simp [sUpd, Agree, hs]
  | some x =>
    refine ⟨by simp [sUpd, hs], ?_⟩
    cases a with
    | none =>
      cases b with
      | none => simp [sUpd, C03.geS, C03.leS, Agree, Gen.sentNe, Gen.lift2]
      | some lo =>
        by_cases h1 : x ≤ lo <;> by_cases h2 : gn + 1 ≥ mp <;> by_cases h3 : x = lo <;>
          simp [sUpd, C03.geS, C03.leS, Agree, Gen.sentNe, Gen.lift2, h1, h2, h3]
    | some hi =>
      cases b with
      | none =>
        by_cases h1 : hi ≤ x <;> by_cases h2 : gn + 1 ≥ mp <;> by_cases h3 : hi = x <;>
          simp [sUpd, C03.geS, C03.leS, Agree, Gen.sentNe, Gen.lift2, h1, h2, h3]
      | some lo =>
        by_cases h0 : hi ≤ x <;> by_cases h1 : x ≤ lo <;> by_cases h2 : gn + 1 ≥ mp <;>
          simp only [sUpd, C03.geS, C03.leS, h0, h1, h2, decide_true, decide_false, if_true, if_false,
            Bool.false_eq_true, Option.isSome_some, Bool.true_and, Bool.false_and, true_and, false_and, ge_iff_le] <;>
          first
          | (by_cases h3 : x = lo <;> simp [Agree, Gen.sentNe, Gen.lift2, h3]; done)
          | (by_cases h3 : hi = x <;> simp [Agree, Gen.sentNe, Gen.lift2, h3]; done)
          | (by_cases h3 : hi = lo <;> simp [Agree, Gen.sentNe, Gen.lift2, h3]; done)
          | simp [Agree, Gen.sentNe, Gen.lift2]))

theorem ts_vminmaxnorm_step (sqrt : Rat → Rat) (xs : List (Option Rat)) (len w mp : Nat)
    (g : Gen.ts_vminmaxnorm.St) (m : MMSt) (c : Option Nat × Nat × Option Rat) (h : R_ts_vminmaxnorm g m) :
    R_ts_vminmaxnorm (Gen.ts_vminmaxnorm.step sqrt xs len w mp g c.1 c.2.1 c.2.2).1 (mmStep (C03.get xs) mp m c).1 ∧
    Agree sqrt (Gen.ts_vminmaxnorm.step sqrt xs len w mp g c.1 c.2.1 c.2.2).2 (mmStep (C03.get xs) mp m c).2 := by
  obtain ⟨start, e, v⟩ := c
  obtain ⟨h0, h1, h2, h3, h4⟩ := h
  rcases g with ⟨gmax, gmaxi, gmin, gmini, gn⟩
  rcases m with ⟨⟨mx, mxi⟩, ⟨mn, mni⟩, n⟩
  simp only at h0 h1 h2 h3 h4
  subst h0 h1 h2 h3 h4
  cases start with
  | none =>
    cases v with
    | none =>
      simp [Gen.ts_vminmaxnorm.step, mmStep, R_ts_vminmaxnorm, sUpd, Agree]
    | some x =>
      simp only [Gen.ts_vminmaxnorm.step, mmStep, R_ts_vminmaxnorm, sUpd, geS_eq, leS_eq]
      refine ⟨by simp, ?_⟩
      rename' gmax => a, gmin => b
      cases a with
      | none =>
        cases b with
        | none => simp [sUpd, C03.geS, C03.leS, Agree, Gen.sentNe, Gen.lift2]
        | some lo =>
          by_cases h1 : x ≤ lo <;> by_cases h2 : gn + 1 ≥ mp <;> by_cases h3 : x = lo <;>
            simp [sUpd, C03.geS, C03.leS, Agree, Gen.sentNe, Gen.lift2, h1, h2, h3]
      | some hi =>
        cases b with
        | none =>
          by_cases h1 : hi ≤ x <;> by_cases h2 : gn + 1 ≥ mp <;> by_cases h3 : hi = x <;>
            simp [sUpd, C03.geS, C03.leS, Agree, Gen.sentNe, Gen.lift2, h1, h2, h3]
        | some lo =>
          by_cases h0 : hi ≤ x <;> by_cases h1 : x ≤ lo <;> by_cases h2 : gn + 1 ≥ mp <;>
            simp only [sUpd, C03.geS, C03.leS, h0, h1, h2, decide_true, decide_false, if_true, if_false,
              Bool.false_eq_true, Option.isSome_some, Bool.true_and, Bool.false_and, true_and, false_and, ge_iff_le] <;>
            first
            | (by_cases h3 : x = lo <;> simp [Agree, Gen.sentNe, Gen.lift2, h3]; done)
            | (by_cases h3 : hi = x <;> simp [Agree, Gen.sentNe, Gen.lift2, h3]; done)
            | (by_cases h3 : hi = lo <;> simp [Agree, Gen.sentNe, Gen.lift2, h3]; done)
            | simp [Agree, Gen.sentNe, Gen.lift2]
  | some s =>
    by_cases c1 : gmaxi < s <;> by_cases c2 : gmini < s <;>
      simp only [Gen.ts_vminmaxnorm.step, mmStep, R_ts_vminmaxnorm, geS_eq, leS_eq, uget_eq, c1, c2, decide_true, decide_false,
        Bool.not_true, Bool.not_false, Bool.and_true, Bool.and_false, Bool.true_and, Bool.false_and, if_true, if_false, Bool.false_eq_true]
    · rw [rescan2 (C03.get xs) _ (by
        intro a b c d i
        cases hg : C03.get xs i <;> simp [sUpd]) gmax gmin]
      dsimp only
      generalize sRescan C03.geS (C03.get xs) (gmax, gmaxi) s e = MX
      generalize sRescan C03.leS (C03.get xs) (gmin, gmini) s e = MN
      obtain ⟨a, ai⟩ := MX
      obtain ⟨b, bi⟩ := MN
      clear c1 c2
      mm_tail
    · rw [rescan1 C03.geS (C03.get xs) _ (by
        intro st i
        cases hg : C03.get xs i <;> simp [sUpd]) gmax]
      generalize sRescan C03.geS (C03.get xs) (gmax, gmaxi) s e = MX
      obtain ⟨a, ai⟩ := MX
      rename' gmin => b, gmini => bi
      clear c1 c2
      mm_tail
    · rw [rescan1 C03.leS (C03.get xs) _ (by
        intro st i
        cases hg : C03.get xs i <;> simp [sUpd]) gmin]
      generalize sRescan C03.leS (C03.get xs) (gmin, gmini) s e = MN
      obtain ⟨b, bi⟩ := MN
      rename' gmax => a, gmaxi => ai
      clear c1 c2
      mm_tail
    · rename' gmax => a, gmaxi => ai, gmin => b, gmini => bi
      clear c1 c2
      mm_tail

theorem ts_vminmaxnorm_window (len w : Nat) : Gen.ts_vminmaxnorm.effWindow len w = w := rfl
theorem ts_vminmaxnorm_minPeriods (len w : Nat) (mp : Option Nat) :
    Gen.ts_vminmaxnorm.minPeriods len w mp = normMp mp w := by
  simp [Gen.ts_vminmaxnorm.minPeriods, normMp]

/-- the closure regenerated from the source of `ts_vminmaxnorm` (sentinel-initialised caches, the
four-way expiry match, the three rescans), driven over the index callbacks of either driver shape,
yields the from-scratch statistic of the window at every position -/
theorem ts_vminmaxnorm_exact (sqrt : Rat → Rat) (sh : Shape) (xs : List (Option Rat)) (w : Nat) (mp : Option Nat) (hw : 1 ≤ w) :
    List.Forall₂ (Agree sqrt)
      (genRunIdx (Gen.ts_vminmaxnorm.step sqrt xs xs.length w (Gen.ts_vminmaxnorm.minPeriods xs.length w mp))
        (Gen.ts_vminmaxnorm.init xs.length w) (idxCalls sh xs (Gen.ts_vminmaxnorm.effWindow xs.length w)))
      ((List.range xs.length).map fun i => Spec.tsMinmaxnorm (normMp mp w) (window xs i w)) := by
  rw [ts_vminmaxnorm_window, ts_vminmaxnorm_minPeriods, ← C03.vminmaxnorm_exact sh xs w mp hw]
  exact runSt_sim _ _ R_ts_vminmaxnorm (Agree sqrt) (fun s t c hr => ts_vminmaxnorm_step sqrt xs xs.length w _ s t c hr) _ _ _
    (by simp [R_ts_vminmaxnorm, Gen.ts_vminmaxnorm.init])

/-- regenerated index driver (both shapes) + regenerated closure -/
theorem ts_vminmaxnorm_from_source (sqrt : Rat → Rat) (xs : List (Option Rat)) (w : Nat) (mp : Option Nat) (hw : 1 ≤ w) :
    C02Gen.E2EIdx (fun cs => List.Forall₂ (Agree sqrt)
      (genRunIdx (Gen.ts_vminmaxnorm.step sqrt xs xs.length w (Gen.ts_vminmaxnorm.minPeriods xs.length w mp)) (Gen.ts_vminmaxnorm.init xs.length w) cs)
      ((List.range xs.length).map fun i => Spec.tsMinmaxnorm (normMp mp w) (window xs i w)))
      xs (Gen.ts_vminmaxnorm.effWindow xs.length w) :=
  C02Gen.e2e_idx _ xs _ hw (ts_vminmaxnorm_exact sqrt .to xs w mp hw) (ts_vminmaxnorm_exact sqrt .iter xs w mp hw)

theorem norm_closures_present : "ts_vminmaxnorm" ∈ Gen.closures ∧ Gen.ts_vminmaxnorm.parsed = true ∧
    Gen.ts_vminmaxnorm.driver = "rolling_apply_idx" := by
  refine ⟨by simp [Gen.closures], rfl, rfl⟩
end Tv.C03Gen
