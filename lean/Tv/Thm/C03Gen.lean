import Tv.GenClosures
import Tv.Lemmas.GenSim
import Tv.Thm.C03
import Mathlib.Tactic.Ring
import Mathlib.Tactic.NormNum
set_option linter.unusedSimpArgs false
set_option linter.unusedTactic false
set_option linter.unreachableTactic false
/-!
# C03 — the `ts_vzscore` closure regenerated from norm.rs is the model's closure

`Tv.Gen.ts_vzscore.step` is written by translator/closures.py from the Rust source on every run.
The cached-extremum closures of cmp.rs and `ts_vminmaxnorm` run over `rolling_apply_idx` and
re-read the series inside the closure (rescans); they are outside the translator's subset and
stay tied to the source by the correspondence run only.
-/
namespace Tv.C03Gen
open Tv Tv.GenSim Tv.C03

theorem eps_eq : Gen.EPS = C03.EPS := by norm_num [Gen.EPS, C03.EPS]
theorem eps_not_neg : ¬ (C03.EPS < 0) := by norm_num [C03.EPS]
theorem cast_pred (n : Nat) (h : 0 < n) : ((n - 1 : Nat) : Rat) = (n : Rat) - 1 := by
  rw [Nat.cast_sub h]; simp

def R_ts_vzscore (g : Gen.ts_vzscore.St) (m : ZSt) : Prop := g.n = m.n ∧ g.sum = m.sum ∧ g.sum2 = m.sum2

theorem ts_vzscore_pre (sqrt : Rat → Rat) (w mp : Nat) (g : Gen.ts_vzscore.St) (m : ZSt) (v : Option Rat)
    (h : R_ts_vzscore g m) :
    R_ts_vzscore (Gen.ts_vzscore.pre sqrt w mp g v).1 ((zRoll mp).add m v) ∧
    AgreeW (Gen.ts_vzscore.pre sqrt w mp g v).2 ((zRoll mp).emit ((zRoll mp).add m v)) := by
  obtain ⟨h0, h1, h2⟩ := h
  cases v with
  | none => simp [Gen.ts_vzscore.pre, zRoll, ZSt.add, zEmit, R_ts_vzscore, h0, h1, h2, AgreeW]
  | some v =>
    refine ⟨by simp [Gen.ts_vzscore.pre, zRoll, ZSt.add, R_ts_vzscore, h0, h1, h2], ?_⟩
    simp only [Gen.ts_vzscore.pre, zRoll, ZSt.add, zEmit, h0, h1, h2, eps_eq, sq, decide_eq_true_eq, ge_iff_le, gt_iff_lt]
    split_ifs <;> first | rfl | trivial

theorem ts_vzscore_post (w mp : Nat) (g : Gen.ts_vzscore.St) (m : ZSt) (x : Option Rat) (h : R_ts_vzscore g m) :
    R_ts_vzscore (Gen.ts_vzscore.post w g (some x)) ((zRoll mp).remove m x) := by
  obtain ⟨h0, h1, h2⟩ := h
  cases x <;> simp [Gen.ts_vzscore.post, zRoll, ZSt.remove, R_ts_vzscore, h0, h1, h2]

theorem ts_vzscore_step (sqrt : Rat → Rat) (w mp : Nat) (g : Gen.ts_vzscore.St) (m : ZSt)
    (rm : Option (Option Rat)) (v : Option Rat) (h : R_ts_vzscore g m) :
    R_ts_vzscore (Gen.ts_vzscore.step sqrt w mp g rm v).1 ((zRoll mp).step m (rm.map id) (id v)).1 ∧
    AgreeW (Gen.ts_vzscore.step sqrt w mp g rm v).2 ((zRoll mp).step m (rm.map id) (id v)).2 :=
  hstep_of_pre id (Gen.ts_vzscore.step sqrt w mp) (Gen.ts_vzscore.pre sqrt w mp) (Gen.ts_vzscore.post w)
    (zRoll mp) R_ts_vzscore AgreeW (Gen.ts_vzscore.step_eq sqrt w mp) (ts_vzscore_pre sqrt w mp)
    (ts_vzscore_post w mp) (fun _ => rfl) g m rm v h

theorem ts_vzscore_minPeriods (w : Nat) (mp : Option Nat) : Gen.ts_vzscore.minPeriods w mp = normMp mp w := rfl

theorem ts_vzscore_init (w : Nat) : R_ts_vzscore (Gen.ts_vzscore.init w) ⟨0, 0, 0, none⟩ := by
  simp [R_ts_vzscore, Gen.ts_vzscore.init]

/-- the closure regenerated from the source of `ts_vzscore`, driven over the callbacks of either
driver shape: null exactly where the from-scratch z-score is null, and a value where it is one
(the value itself is compared by the correspondence run: the model writes it under a root sign) -/
theorem ts_vzscore_exact (sqrt : Rat → Rat) (sh : Shape) (xs : List (Option Rat)) (w : Nat) (mp : Option Nat) (hw : 1 ≤ w) :
    List.Forall₂ AgreeW
      (genRun (Gen.ts_vzscore.step sqrt w (Gen.ts_vzscore.minPeriods w mp)) (Gen.ts_vzscore.init w) (applyCalls sh xs w))
      ((List.range xs.length).map fun i => Spec.tsZscore (normMp mp w) (window xs i w)) := by
  have h := run_sim id _ _ R_ts_vzscore AgreeW (ts_vzscore_step sqrt w (Gen.ts_vzscore.minPeriods w mp))
    (applyCalls sh xs w) _ _ (ts_vzscore_init w)
  rw [ts_vzscore_minPeriods, mapCalls_id] at h
  rw [ts_vzscore_minPeriods, ← vzscore_exact sh xs w mp hw]
  exact h

theorem closures_present : "ts_vzscore" ∈ Gen.closures := by simp [Gen.closures]

end Tv.C03Gen
