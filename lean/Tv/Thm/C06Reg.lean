import Tv.Thm.C04
import Tv.Lemmas.Local
/-!
# C06, Part 3 — covariance / correlation / regression family

Corollaries of the C04 `_exact` theorems: every entry point is `i ↦ F (window …)` on the zipped
pair of series (two-series functions) or on the series (time-trend family), so it is prefix-stable
(no look-ahead) and independent of everything before the window. The effective minimum
`effMp mp w k` of this family never looks at the series length, so — unlike the extrema family —
there is no restriction on `min_periods`. Exact in the model; the floating-point residue of
pre-window history in the incremental sums of the implementation is a rounding fact (DESIGN 5.1).
-/
namespace Tv.C06
open Tv Tv.C04 Tv.C04.Spec

/-- zipping prefixes = prefix of the zip -/
theorem zip_take (xs : List α) (ys : List β) (k : Nat) :
    (xs.take k).zip (ys.take k) = (xs.zip ys).take k := by
  simp [List.zip, List.take_zipWith]

/-- agreement of both series on a range of positions gives agreement of the zipped series -/
theorem zip_getElem?_congr (xs ys xs' ys' : List α) (j : Nat)
    (hx : xs[j]? = xs'[j]?) (hy : ys[j]? = ys'[j]?) : (xs.zip ys)[j]? = (xs'.zip ys')[j]? := by
  simp only [List.zip, List.getElem?_zipWith, hx, hy]

/-- generic **no look-ahead**, one series: `rolling1` on a prefix is the prefix of `rolling1` -/
theorem rolling1_prefix (F : List Rat → Out) (xs : List (Option Rat)) (w k : Nat) :
    rolling1 F (xs.take k) w = (rolling1 F xs w).take k := by
  unfold rolling1 vwin
  exact windowed_prefix (fun l => F (valid l)) xs w k

/-- generic **no look-ahead**, two series: `rolling2` on the two prefixes is the prefix of
`rolling2` (no length hypothesis is needed: `rolling2` ranges over the positions of the first
series, and windows of `(xs.zip ys).take k` ending before `k` are windows of `xs.zip ys`) -/
theorem rolling2_prefix (F : List (Rat × Rat) → Out) (xs ys : List (Option Rat)) (w k : Nat) :
    rolling2 F (xs.take k) (ys.take k) w = (rolling2 F xs ys w).take k := by
  unfold rolling2
  rw [zip_take]
  apply List.ext_getElem
  · simp
  · intro n h1 h2
    simp only [List.length_map, List.length_range, List.length_take] at h1
    simp only [List.getElem_map, List.getElem_range, List.getElem_take]
    rw [window_take (xs.zip ys) n w k (by omega)]

/-- generic **locality**, one series: output `i` of `rolling1` only depends on positions
`i+1-w ..= i` -/
theorem rolling1_local (F : List Rat → Out) (xs xs' : List (Option Rat)) (w : Nat)
    (hlen : xs.length = xs'.length) (i : Nat)
    (h : ∀ j, i + 1 - w ≤ j → j ≤ i → xs[j]? = xs'[j]?) :
    (rolling1 F xs w)[i]? = (rolling1 F xs' w)[i]? := by
  unfold rolling1
  simp only [List.getElem?_map, hlen]
  cases hr : (List.range xs'.length)[i]? with
  | none => rfl
  | some n =>
    have : n = i := by
      obtain ⟨hlt, he⟩ := List.getElem?_eq_some_iff.mp hr
      simpa using he.symm
    subst this
    simp only [Option.map_some, vwin]
    rw [window_congr xs xs' n w h]

/-- generic **locality**, two series: output `i` of `rolling2` only depends on positions
`i+1-w ..= i` of both series -/
theorem rolling2_local (F : List (Rat × Rat) → Out) (xs ys xs' ys' : List (Option Rat)) (w : Nat)
    (hlen : xs.length = xs'.length) (i : Nat)
    (hx : ∀ j, i + 1 - w ≤ j → j ≤ i → xs[j]? = xs'[j]?)
    (hy : ∀ j, i + 1 - w ≤ j → j ≤ i → ys[j]? = ys'[j]?) :
    (rolling2 F xs ys w)[i]? = (rolling2 F xs' ys' w)[i]? := by
  unfold rolling2
  simp only [List.getElem?_map, hlen]
  cases hr : (List.range xs'.length)[i]? with
  | none => rfl
  | some n =>
    have : n = i := by
      obtain ⟨hlt, he⟩ := List.getElem?_eq_some_iff.mp hr
      simpa using he.symm
    subst this
    simp only [Option.map_some]
    rw [window_congr (xs.zip ys) (xs'.zip ys') n w
      (fun j h1 h2 => zip_getElem?_congr xs ys xs' ys' j (hx j h1 h2) (hy j h1 h2))]

/-- the seven two-series `_exact` theorems of C04 in the only form C06 needs: each entry point is
`rolling2` of *some* per-window function that does not depend on the series -/
theorem ts2_windowed (f : Fn2) (sh : Shape) (w : Nat) (mp : Option Nat) (hw : 1 ≤ w) :
    ∃ F : List (Rat × Rat) → Out, ∀ xs ys : List (Option Rat), ys.length = xs.length →
      ts2 f sh xs ys w mp = rolling2 F xs ys w := by
  cases f
  · exact ⟨_, fun xs ys h => vcov_exact sh xs ys w mp hw h⟩
  · exact ⟨_, fun xs ys h => vcorr_exact sh xs ys w mp hw h⟩
  · exact ⟨_, fun xs ys h => vregx_alpha_exact sh xs ys w mp hw h⟩
  · exact ⟨_, fun xs ys h => vregx_beta_exact sh xs ys w mp hw h⟩
  · exact ⟨_, fun xs ys h => vregx_resid_mean_exact sh xs ys w mp hw h⟩
  · exact ⟨_, fun xs ys h => vregx_resid_std_exact sh xs ys w mp hw h⟩
  · exact ⟨_, fun xs ys h => vregx_resid_skew_exact sh xs ys w mp hw h⟩

/-- the five time-trend `_exact` theorems of C04, same form -/
theorem ts1_windowed (f : Fn1) (sh : Shape) (w : Nat) (mp : Option Nat) (hw : 1 ≤ w) :
    ∃ F : List Rat → Out, ∀ xs : List (Option Rat), ts1 f sh xs w mp = rolling1 F xs w := by
  cases f
  · exact ⟨_, fun xs => vreg_exact sh xs w mp hw⟩
  · exact ⟨_, fun xs => vtsf_exact sh xs w mp hw⟩
  · exact ⟨_, fun xs => vreg_slope_exact sh xs w mp hw⟩
  · exact ⟨_, fun xs => vreg_intercept_exact sh xs w mp hw⟩
  · exact ⟨_, fun xs => vreg_resid_mean_exact sh xs w mp hw⟩

/-- **no look-ahead**: each of the 12 single-valued entry points evaluated on the prefixes of
length `k` returns the first `k` outputs of the full evaluation (any `min_periods`, both shapes;
equal-length series for the two-series functions) -/
theorem c04_prefix (sh : Shape) (w : Nat) (mp : Option Nat) (hw : 1 ≤ w) (k : Nat) :
    (∀ (f : Fn2) (xs ys : List (Option Rat)), ys.length = xs.length →
      ts2 f sh (xs.take k) (ys.take k) w mp = (ts2 f sh xs ys w mp).take k) ∧
    (∀ (f : Fn1) (xs : List (Option Rat)),
      ts1 f sh (xs.take k) w mp = (ts1 f sh xs w mp).take k) := by
  constructor
  · intro f xs ys hlen
    obtain ⟨F, hF⟩ := ts2_windowed f sh w mp hw
    rw [hF _ _ (by simp [hlen]), hF xs ys hlen]
    exact rolling2_prefix F xs ys w k
  · intro f xs
    obtain ⟨F, hF⟩ := ts1_windowed f sh w mp hw
    rw [hF, hF]
    exact rolling1_prefix F xs w k

/-- `ts_vregx_all` has no look-ahead either -/
theorem c04_all_prefix (sh : Shape) (xs ys : List (Option Rat)) (w : Nat) (mp : Option Nat)
    (hw : 1 ≤ w) (hlen : ys.length = xs.length) (k : Nat) :
    tsRegxAll sh (xs.take k) (ys.take k) w mp = (tsRegxAll sh xs ys w mp).take k := by
  rw [vregx_all_exact sh _ _ w mp hw (by simp [hlen]), vregx_all_exact sh xs ys w mp hw hlen, zip_take]
  apply List.ext_getElem
  · simp
  · intro n h1 h2
    simp only [List.length_map, List.length_range, List.length_take] at h1
    simp only [List.getElem_map, List.getElem_range, List.getElem_take]
    rw [window_take (xs.zip ys) n w k (by omega)]

/-- **no dependence on pre-window data**: for each of the 12 single-valued entry points, two pairs
of equally long series (resp. two equally long series) that agree on positions `i+1-w ..= i` have
the same output `i` -/
theorem c04_prewindow (sh : Shape) (w : Nat) (mp : Option Nat) (hw : 1 ≤ w) (i : Nat) :
    (∀ (f : Fn2) (xs ys xs' ys' : List (Option Rat)), ys.length = xs.length →
      ys'.length = xs'.length → xs.length = xs'.length →
      (∀ j, i + 1 - w ≤ j → j ≤ i → xs[j]? = xs'[j]?) →
      (∀ j, i + 1 - w ≤ j → j ≤ i → ys[j]? = ys'[j]?) →
      (ts2 f sh xs ys w mp)[i]? = (ts2 f sh xs' ys' w mp)[i]?) ∧
    (∀ (f : Fn1) (xs xs' : List (Option Rat)), xs.length = xs'.length →
      (∀ j, i + 1 - w ≤ j → j ≤ i → xs[j]? = xs'[j]?) →
      (ts1 f sh xs w mp)[i]? = (ts1 f sh xs' w mp)[i]?) := by
  constructor
  · intro f xs ys xs' ys' hl hl' hlen hx hy
    obtain ⟨F, hF⟩ := ts2_windowed f sh w mp hw
    rw [hF xs ys hl, hF xs' ys' hl']
    exact rolling2_local F xs ys xs' ys' w hlen i hx hy
  · intro f xs xs' hlen h
    obtain ⟨F, hF⟩ := ts1_windowed f sh w mp hw
    rw [hF, hF]
    exact rolling1_local F xs xs' w hlen i h

/-- non-vacuity: `ts_vregx_beta` on the first three positions of two 5-element series (with a
null) is the first three outputs of the full run, and position 4 (window 2) ignores a change at
position 0 -/
example :
    ts2 .beta .to ([some 1, some 5, none, some 2, some 5].take 3) ([some 2, some 5, some 4, some 3, some 7].take 3) 2 (some 1)
      = (ts2 .beta .to [some 1, some 5, none, some 2, some 5] [some 2, some 5, some 4, some 3, some 7] 2 (some 1)).take 3 ∧
    (ts2 .beta .to [some 1, some 5, none, some 2, some 5] [some 2, some 5, some 4, some 3, some 7] 2 (some 1))[4]?
      = (ts2 .beta .to [some 9, some 5, none, some 2, some 5] [none, some 5, some 4, some 3, some 7] 2 (some 1))[4]? := by
  constructor
  · exact (c04_prefix .to 2 (some 1) (by decide) 3).1 .beta _ _ (by decide)
  · refine (c04_prewindow .to 2 (some 1) (by decide) 4).1 .beta _ _ _ _ (by decide) (by decide) (by decide) ?_ ?_ <;>
    · intro j h1 h2
      have : j = 3 ∨ j = 4 := by omega
      rcases this with rfl | rfl <;> rfl

end Tv.C06
