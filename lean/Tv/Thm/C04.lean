import Tv.Lemmas.C04Line
import Tv.Generated
/-!
# C04 — rolling covariance, correlation and regressions equal per-window least squares

Property theorems only (helper lemmas: `Tv/Lemmas/C04*.lean`). All statements are for every
pair of equal-length series of `Option Rat` (independent null patterns), every window `w ≥ 1`,
every `min_periods` (omitted or not), both driver shapes (`Shape.to` = the two-phase `*_to`
loops of Vec / ndarray / caller buffers, `Shape.iter` = the iterator bodies of VecDeque / Polars)
and every position: the model of the incremental closures (`Model/C04.lean`, transcribed from
`binary.rs` / `reg.rs` after the `fix:` commits for F20 and F21) equals the from-scratch
definitions of `Spec/C04.lean` evaluated on the pairwise-complete observations of the window
(`Spec.complete (window (xs.zip ys) i w)`), resp. on the valid values of the window with
`t = 1..n` for the trend family. Arithmetic is exact (`Rat`); "up to floating-point rounding" is
the job of the correspondence run (DESIGN 5.1).

The algebraic obligations named in DESIGN §6/C04 are proved in the lemma files and audited with
the theorems below: `cross_sum_centered`, `normal_eq_beta`, `normal_eq_alpha`, `sse_identity`,
`sum_t`, `sum_tt` (`Tv/Lemmas/C04Alg.lean`, `C04Trend.lean`).
-/
namespace Tv.C04
open Tv Tv.Spec Tv.C04.Spec

/-! ### covariance and correlation -/

/-- `ts_vcov` = sample covariance `Σ(a-ā)(b-b̄)/(n-1)` of the pairwise-complete window -/
theorem vcov_exact (sh : Shape) (xs ys : List (Option Rat)) (w : Nat) (mp : Option Nat)
    (hw : 1 ≤ w) (hlen : ys.length = xs.length) :
    ts2 .cov sh xs ys w mp = rolling2 (cov (effMp mp w 2)) xs ys w := by
  unfold ts2 rolling2
  simp only [Fn2.minK]
  rw [cross_run _ sh xs ys w hw hlen]
  simp only [emitCov_spec]

/-- `ts_vcorr` = Pearson correlation of the pairwise-complete window (as a signed square root;
undefined when a population variance is at or below `EPS`) -/
theorem vcorr_exact (sh : Shape) (xs ys : List (Option Rat)) (w : Nat) (mp : Option Nat)
    (hw : 1 ≤ w) (hlen : ys.length = xs.length) :
    ts2 .corr sh xs ys w mp = rolling2 (corr (effMp mp w 0)) xs ys w := by
  unfold ts2 rolling2
  simp only [Fn2.minK]
  rw [cross_run _ sh xs ys w hw hlen]
  simp only [emitCorr_spec]

/-! ### regression of the first series on the second -/

/-- `ts_vregx_alpha` = least-squares intercept `ȳ - β x̄` -/
theorem vregx_alpha_exact (sh : Shape) (xs ys : List (Option Rat)) (w : Nat) (mp : Option Nat)
    (hw : 1 ≤ w) (hlen : ys.length = xs.length) :
    ts2 .alpha sh xs ys w mp = rolling2 (regxAlpha (effMp mp w 0)) xs ys w := by
  unfold ts2 rolling2
  simp only [Fn2.minK]
  rw [cross_run _ sh xs ys w hw hlen]
  simp only [emitAlpha_spec]

/-- `ts_vregx_beta` = least-squares slope `Σ(x-x̄)(y-ȳ)/Σ(x-x̄)²` -/
theorem vregx_beta_exact (sh : Shape) (xs ys : List (Option Rat)) (w : Nat) (mp : Option Nat)
    (hw : 1 ≤ w) (hlen : ys.length = xs.length) :
    ts2 .beta sh xs ys w mp = rolling2 (regxBeta (effMp mp w 0)) xs ys w := by
  unfold ts2 rolling2
  simp only [Fn2.minK]
  rw [cross_run _ sh xs ys w hw hlen]
  simp only [emitBeta_spec]

/-- `ts_vregx_all` = `(α, β, Σ(y-α-βx)²)` of the least-squares line -/
theorem vregx_all_exact (sh : Shape) (xs ys : List (Option Rat)) (w : Nat) (mp : Option Nat)
    (hw : 1 ≤ w) (hlen : ys.length = xs.length) :
    tsRegxAll sh xs ys w mp = (List.range xs.length).map fun i =>
      let l := complete (window (xs.zip ys) i w)
      (regxAlpha (effMp mp w 0) l, regxBeta (effMp mp w 0) l, regxSse (effMp mp w 0) l) := by
  unfold tsRegxAll
  rw [cross_run _ sh xs ys w hw hlen]
  simp only [emitAll, emitAlpha_spec, emitBeta_spec, emitSse_spec]

/-- `ts_vregx_resid_mean` = mean of the least-squares residuals `e_j = y_j - α - β x_j` -/
theorem vregx_resid_mean_exact (sh : Shape) (xs ys : List (Option Rat)) (w : Nat) (mp : Option Nat)
    (hw : 1 ≤ w) (hlen : ys.length = xs.length) :
    ts2 .residMean sh xs ys w mp = rolling2 (regxResidMean (effMp mp w 0)) xs ys w := by
  unfold ts2 rolling2
  simp only [Fn2.minK]
  rw [resid_run _ _ sh xs ys w hw hlen]
  apply List.map_congr_left
  intro i _
  simp only
  generalize complete (window (xs.zip ys) i w) = l
  unfold regxResidMean
  rw [regx_eval]
  by_cases hm : l.length ≥ effMp mp w 0
  · rw [if_pos hm, if_pos hm]
    by_cases hd : undefinedReg l
    · rw [if_pos hd, if_pos hd]
    · rw [if_neg hd, if_neg hd]
      apply aggMean_spec
      unfold residuals
      rw [residualsOf_length]
      exact fun h0 => hd (Or.inl h0)
  · rw [if_neg hm, if_neg hm]

/-- `ts_vregx_resid_std` = sample standard deviation of the least-squares residuals -/
theorem vregx_resid_std_exact (sh : Shape) (xs ys : List (Option Rat)) (w : Nat) (mp : Option Nat)
    (hw : 1 ≤ w) (hlen : ys.length = xs.length) :
    ts2 .residStd sh xs ys w mp = rolling2 (regxResidStd (effMp mp w 0)) xs ys w := by
  unfold ts2 rolling2
  simp only [Fn2.minK]
  rw [resid_run _ _ sh xs ys w hw hlen]
  apply List.map_congr_left
  intro i _
  simp only
  generalize complete (window (xs.zip ys) i w) = l
  unfold regxResidStd
  rw [regx_eval]
  simp only [aggStd_spec]

/-- `ts_vregx_resid_skew` = adjusted Fisher–Pearson skewness of the least-squares residuals -/
theorem vregx_resid_skew_exact (sh : Shape) (xs ys : List (Option Rat)) (w : Nat) (mp : Option Nat)
    (hw : 1 ≤ w) (hlen : ys.length = xs.length) :
    ts2 .residSkew sh xs ys w mp = rolling2 (regxResidSkew (effMp mp w 0)) xs ys w := by
  unfold ts2 rolling2
  simp only [Fn2.minK]
  rw [resid_run _ _ sh xs ys w hw hlen]
  apply List.map_congr_left
  intro i _
  simp only
  generalize complete (window (xs.zip ys) i w) = l
  unfold regxResidSkew
  rw [regx_eval]
  simp only [aggSkew_spec]

/-! ### time-trend family: least squares of the window's valid values on `1..n` -/

/-- `ts_vreg` = fitted value at the last point, `α + β n` -/
theorem vreg_exact (sh : Shape) (xs : List (Option Rat)) (w : Nat) (mp : Option Nat) (hw : 1 ≤ w) :
    ts1 .reg sh xs w mp = rolling1 (trendFitted (effMp mp w 0)) xs w := by
  unfold ts1 rolling1
  rw [trend_run _ sh xs w hw]
  simp only [Fn1.emit, trend_fitted_spec]

/-- `ts_vtsf` = one-step-ahead forecast, `α + β (n+1)` -/
theorem vtsf_exact (sh : Shape) (xs : List (Option Rat)) (w : Nat) (mp : Option Nat) (hw : 1 ≤ w) :
    ts1 .tsf sh xs w mp = rolling1 (trendForecast (effMp mp w 0)) xs w := by
  unfold ts1 rolling1
  rw [trend_run _ sh xs w hw]
  simp only [Fn1.emit, trend_forecast_spec]

/-- `ts_vreg_slope` = least-squares slope on `t = 1..n` -/
theorem vreg_slope_exact (sh : Shape) (xs : List (Option Rat)) (w : Nat) (mp : Option Nat) (hw : 1 ≤ w) :
    ts1 .slope sh xs w mp = rolling1 (trendSlope (effMp mp w 0)) xs w := by
  unfold ts1 rolling1
  rw [trend_run _ sh xs w hw]
  simp only [Fn1.emit, trend_slope_spec]

/-- `ts_vreg_intercept` = least-squares intercept on `t = 1..n` -/
theorem vreg_intercept_exact (sh : Shape) (xs : List (Option Rat)) (w : Nat) (mp : Option Nat) (hw : 1 ≤ w) :
    ts1 .intercept sh xs w mp = rolling1 (trendIntercept (effMp mp w 0)) xs w := by
  unfold ts1 rolling1
  rw [trend_run _ sh xs w hw]
  simp only [Fn1.emit, trend_intercept_spec]

/-- `ts_vreg_resid_mean` (after the F21 repair) = mean squared residual `Σ(y_k - α - βk)²/n` -/
theorem vreg_resid_mean_exact (sh : Shape) (xs : List (Option Rat)) (w : Nat) (mp : Option Nat) (hw : 1 ≤ w) :
    ts1 .residMean sh xs w mp = rolling1 (trendMsr (effMp mp w 0)) xs w := by
  unfold ts1 rolling1
  rw [trend_run _ sh xs w hw]
  simp only [Fn1.emit, trend_msr_spec]

/-- **F21 witness**: the pinned `ts_vreg_resid_mean` (weight `n·Σt²` on `β²`) returns `5/2` and
`379/18 ≈ 21.06` on `[1,2,4]`, `w = 3`, where the mean squared residuals of the OLS lines are `0`
and `1/18 ≈ 0.056`. -/
theorem vreg_resid_mean_pinned_wrong :
    tsResidMeanPinned .to [some 1, some 2, some 4] 3 (some 0) = [.degen, .val (5/2), .val (379/18)] ∧
    rolling1 (trendMsr 0) [some 1, some 2, some 4] 3 = [.degen, .val 0, .val (1/18)] ∧
    ts1 .residMean .to [some 1, some 2, some 4] 3 (some 0) = [.degen, .val 0, .val (1/18)] := by
  decide +kernel

/-- **F20 witness**: the pinned `ts_vcov` (no `.max(2)`) panics (usize underflow of `n - 1`) as soon
as a window without a complete pair is reached with `min_periods = 0`; the repaired closure masks
that position. -/
theorem vcov_pinned_panics :
    tsCovPinned .to [none, some 1] [some 1, some 1] 2 (some 0) = none ∧
    ts2 .cov .to [none, some 1] [some 1, some 1] 2 (some 0) = [.null, .null] := by
  decide +kernel

/-! ### a perfect linear window has zero residual; least squares minimises the residual sum -/

/-- if the complete observations of a window lie on `y = a + b x` (and `x` is not constant), least
squares returns exactly `(a, b)`, every residual is `0`, and so are SSE, residual mean and residual
standard deviation (whatever `min_periods ≤ n` is in force) -/
theorem perfect_line_zero_resid (l : List (Rat × Rat)) (a b : Rat) (mp : Nat)
    (hline : ∀ p ∈ l, p.1 = a + b * p.2) (hd : ¬ undefinedReg l) (hm : l.length ≥ mp) :
    regxAlpha mp l = .val a ∧ regxBeta mp l = .val b ∧ regxSse mp l = .val 0 ∧
    regxResidMean mp l = .val 0 ∧ regxResidStd mp l = .val 0 ∧ (∀ e ∈ residuals l, e = 0) := by
  obtain ⟨hb, ha⟩ := line_beta_alpha l a b hline hd
  have hr := line_residuals l a b hline hd
  have hn2 : ¬ l.length < 2 := fun h => hd (undefined_of_length_le_one l (by omega))
  have hn0 : (l.length : Rat) ≠ 0 := by
    have : l.length ≠ 0 := by omega
    exact_mod_cast this
  have hmean : mean (l.map fun _ => (0 : Rat)) = 0 := by unfold mean; rw [sum_zeros]; simp
  refine ⟨?_, ?_, ?_, ?_, ?_, ?_⟩
  · unfold regxAlpha; rw [regx_eval, if_pos hm, if_neg hd, ha]
  · unfold regxBeta; rw [regx_eval, if_pos hm, if_neg hd, hb]
  · unfold regxSse Spec.sse; rw [regx_eval, if_pos hm, if_neg hd, hr]
    congr 1
    rw [List.map_map]
    have : ((fun e : Rat => e * e) ∘ fun _ : Rat × Rat => (0 : Rat)) = fun _ => (0 : Rat) := by
      funext p; simp
    rw [this, sum_zeros]
  · unfold regxResidMean; rw [regx_eval, if_pos hm, if_neg hd, hr, hmean]
  · unfold regxResidStd
    rw [regx_eval, if_pos hm, if_neg hd]
    simp only [hr, List.length_map]
    rw [if_neg hn2]
    have hc : cmom 2 (l.map fun _ => (0 : Rat)) = 0 := by
      unfold cmom csum
      rw [hmean, List.map_map]
      have : ((fun x : Rat => (x - 0) ^ 2) ∘ fun _ : Rat × Rat => (0 : Rat)) = fun _ => (0 : Rat) := by
        funext p; simp
      rw [this, sum_zeros]; simp
    rw [if_pos (by rw [hc]; exact EPS_pos.le)]
  · intro e he
    rw [hr] at he
    simp only [List.mem_map] at he
    obtain ⟨_, _, h⟩ := he
    exact h.symm

/-- model-level form of `perfect_line_zero_resid`: at a position whose window's complete pairs lie
on a line (x not constant, enough observations) the closures return `(a, b, 0)`, residual mean `0`
and residual standard deviation `0` -/
theorem perfect_line_zero_resid_model (sh : Shape) (xs ys : List (Option Rat)) (w : Nat) (mp : Option Nat)
    (hw : 1 ≤ w) (hlen : ys.length = xs.length) (i : Nat) (hi : i < xs.length) (a b : Rat)
    (hline : ∀ p ∈ complete (window (xs.zip ys) i w), p.1 = a + b * p.2)
    (hd : ¬ undefinedReg (complete (window (xs.zip ys) i w)))
    (hm : (complete (window (xs.zip ys) i w)).length ≥ effMp mp w 0) :
    (tsRegxAll sh xs ys w mp)[i]? = some (.val a, .val b, .val 0) ∧
    (ts2 .residMean sh xs ys w mp)[i]? = some (.val 0) ∧
    (ts2 .residStd sh xs ys w mp)[i]? = some (.val 0) := by
  obtain ⟨h1, h2, h3, h4, h5, _⟩ := perfect_line_zero_resid _ a b _ hline hd hm
  rw [vregx_all_exact sh xs ys w mp hw hlen, vregx_resid_mean_exact sh xs ys w mp hw hlen,
    vregx_resid_std_exact sh xs ys w mp hw hlen]
  unfold rolling2
  simp only [List.getElem?_map, List.getElem?_range hi, Option.map_some, h1, h2, h3, h4, h5]
  exact ⟨trivial, trivial, trivial⟩

/-- trend form: if the valid values of a window are `v_k = a + b k` (`k = 1..n`, `n ≥ 2`), the trend
family returns slope `b`, intercept `a`, fitted value `a + b n`, forecast `a + b (n+1)` and mean
squared residual `0` -/
theorem perfect_trend_zero_resid (v : List Rat) (a b : Rat) (mp : Nat)
    (hline : ∀ p ∈ timed 0 v, p.1 = a + b * p.2) (hd : ¬ undefinedReg (timed 0 v)) (hm : v.length ≥ mp) :
    trendSlope mp v = .val b ∧ trendIntercept mp v = .val a ∧
    trendFitted mp v = .val (a + b * (v.length : Rat)) ∧
    trendForecast mp v = .val (a + b * ((v.length : Rat) + 1)) ∧ trendMsr mp v = .val 0 := by
  obtain ⟨hb, ha⟩ := line_beta_alpha _ a b hline hd
  have hr := line_residuals _ a b hline hd
  have hs : Spec.sse (timed 0 v) = 0 := by
    unfold Spec.sse
    rw [hr, List.map_map]
    have : ((fun e : Rat => e * e) ∘ fun _ : Rat × Rat => (0 : Rat)) = fun _ => (0 : Rat) := by
      funext p; simp
    rw [this, sum_zeros]
  unfold trendSlope trendIntercept trendFitted trendForecast trendMsr trend
  simp only [if_pos hm, if_neg hd, hb, ha, hs, timed_length, zero_div, and_self]

/-- **ols_minimises**: the closed-form line minimises the squared-residual sum over all lines -/
theorem ols_minimises (l : List (Rat × Rat)) (hd : ¬ undefinedReg l) (a b : Rat) :
    Spec.sse l ≤ sum ((residualsOf a b l).map fun e => e * e) := by
  obtain ⟨h1, h2⟩ := normal_equations l hd
  have hsq := sum_sq_nonneg (fun p : Rat × Rat => (a - alpha l) + (b - beta l) * p.2) l
  rw [sq_line_expand] at hsq
  unfold Spec.sse residuals
  rw [sse_expand, sse_expand]
  have e1 : (l.length : Rat) * alpha l + beta l * sB l - sA l = 0 := by linarith
  have e2 : alpha l * sB l + beta l * sBB l - sAB l = 0 := by linarith
  have key :
      (sAA l - 2 * a * sA l - 2 * b * sAB l + (l.length : Rat) * a * a + 2 * a * b * sB l + b * b * sBB l)
        - (sAA l - 2 * alpha l * sA l - 2 * beta l * sAB l + (l.length : Rat) * alpha l * alpha l
            + 2 * alpha l * beta l * sB l + beta l * beta l * sBB l)
      = ((l.length : Rat) * (a - alpha l) * (a - alpha l) + 2 * (a - alpha l) * (b - beta l) * sB l
            + (b - beta l) * (b - beta l) * sBB l)
        + 2 * (a - alpha l) * ((l.length : Rat) * alpha l + beta l * sB l - sA l)
        + 2 * (b - beta l) * (alpha l * sB l + beta l * sBB l - sAB l) := by ring
  rw [e1, e2] at key
  linarith

/-! ### tie to the Rust text: mask expression and driver of each entry point (regenerated table) -/

/-- what the model assumes about an entry point: `.min(window)` present, window not clamped to the
length first, the `.max(k)` constant, the driver, the standard `unwrap_or(window / 2)` form -/
def expectedRow (name : String) (k : Nat) (driver : String) : String × Bool × Bool × Nat × String × String :=
  (name, true, false, k, driver, "std")

/-- the rows of `Generated.maskTable` (extracted from binary.rs / reg.rs on every run) for the 13
entry points are exactly what `ts2` / `tsRegxAll` / `ts1` model: `effMp mp w 2` for `ts_vcov`
(the F20 repair), `effMp mp w 0` elsewhere; value drivers for the closed forms, index drivers for
the residual closures. A change of a mask expression or of a driver breaks this theorem. -/
theorem maskTable_matches :
    [expectedRow "ts_vcov" (Fn2.minK .cov) "rolling2_apply",
     expectedRow "ts_vcorr" (Fn2.minK .corr) "rolling2_apply",
     expectedRow "ts_vregx_alpha" (Fn2.minK .alpha) "rolling2_apply",
     expectedRow "ts_vregx_beta" (Fn2.minK .beta) "rolling2_apply",
     expectedRow "ts_vregx_all" 0 "rolling2_apply",
     expectedRow "ts_vregx_resid_mean" (Fn2.minK .residMean) "rolling2_apply_idx",
     expectedRow "ts_vregx_resid_std" (Fn2.minK .residStd) "rolling2_apply_idx",
     expectedRow "ts_vregx_resid_skew" (Fn2.minK .residSkew) "rolling2_apply_idx",
     expectedRow "ts_vreg" 0 "rolling_apply",
     expectedRow "ts_vtsf" 0 "rolling_apply",
     expectedRow "ts_vreg_slope" 0 "rolling_apply",
     expectedRow "ts_vreg_intercept" 0 "rolling_apply",
     expectedRow "ts_vreg_resid_mean" 0 "rolling_apply"].all (fun r => Generated.maskTable.contains r) = true := by
  decide

/-! ### non-vacuity: concrete inputs with nulls, a non-collinear window, removal in action -/

example : ts2 .cov .to [some 1, some 5, some 3, some 2, some 5] [some 2, some 5, some 4, some 3, some 6] 3 (some 2)
    = [.null, .val 6, .val 3, .val (3/2), .val (7/3)] := by decide +kernel
example : tsRegxAll .to [some 1, some 5, some 3, none, some 5] [some 2, some 5, some 4, some 3, some 7] 3 (some 1)
    = [(.degen, .degen, .degen), (.val (-5/3), .val (4/3), .val 0), (.val (-12/7), .val (9/7), .val (2/7)),
       (.val (-5), .val 2, .val 0), (.val (1/3), .val (2/3), .val 0)] := by decide +kernel
example : ts2 .residStd .iter [some 1, some 5, some 3, none, some 5] [some 2, some 5, some 4, some 3, some 7] 4 (some 1)
    = [.degen, .val 0, .root 1 (1/7), .root 1 (1/7), .root 1 (4/7)] := by decide +kernel
example : ts1 .tsf .to [some 1, some 2, some 4, none, some 3] 3 none
    = [.degen, .val 3, .val (16/3), .val 6, .val 2] := by decide +kernel
/-- the hypotheses of `perfect_line_zero_resid` are satisfiable: `y = 1 + 2x` on three points -/
example : (∀ p ∈ [((1:Rat), (0:Rat)), (3, 1), (7, 3)], p.1 = 1 + 2 * p.2) ∧ ¬ undefinedReg [((1:Rat), (0:Rat)), (3, 1), (7, 3)] := by
  decide +kernel

end Tv.C04
