import Tv.Thm.C07
import Tv.Thm.C01Gen
import Tv.Thm.C03Gen
import Tv.Thm.C04Gen
set_option linter.unusedVariables false
/-!
# C07 — fast path and default path of the code regenerated from source give the same results

The contiguous backends (Vec, slice, array, ndarray) override the rolling drivers with the `*_to`
fast paths, every other backend (VecDeque, Arc-wrapped containers, the option view, Polars) runs
the default iterator bodies; a caller buffer always takes the `*_to` path. Both driver shapes are
regenerated from view.rs (C02Gen) and every closure from tea-rolling (C01Gen, C03Gen, C04Gen): the
regenerated closure driven over the callbacks of *either* shape agrees at every position with one
and the same from-scratch statistic of the window. Hence which backend, output container or path is
taken cannot change a result (up to `Agree`, i.e. the reading of a value as a float).
-/
namespace Tv.C07Gen
open Tv Tv.GenSim
open Tv.C03Gen (genRunIdx)

/-- generic: two runs that agree position by position with the same list of reference values
agree with each other's reference at every position -/
theorem same_reference {β γ : Type} (R : β → γ → Prop) (l1 l2 : List β) (L : List γ)
    (h1 : List.Forall₂ R l1 L) (h2 : List.Forall₂ R l2 L) (i : Nat) (hi : i < L.length) :
    ∃ a b, l1[i]? = some a ∧ l2[i]? = some b ∧ R a L[i] ∧ R b L[i] := by
  have e1 := h1.length_eq
  have e2 := h2.length_eq
  have hi1 : i < l1.length := by omega
  have hi2 : i < l2.length := by omega
  refine ⟨l1[i], l2[i], List.getElem?_eq_getElem hi1, List.getElem?_eq_getElem hi2, ?_, ?_⟩
  · exact (List.forall₂_iff_get.mp h1).2 i hi1 hi
  · exact (List.forall₂_iff_get.mp h2).2 i hi2 hi

/-- regenerated `ts_vsum`: fast path and iterator path -/
theorem ts_vsum_path_indep (sqrt : Rat → Rat) (xs : List (Option Rat)) (w : Nat) (mp : Option Nat) (hw : 1 ≤ w)
    (i : Nat) (hi : i < xs.length) :
    ∃ a b,
      (genRun (Gen.ts_vsum.step sqrt w (Gen.ts_vsum.minPeriods w mp)) (Gen.ts_vsum.init w) (applyCalls .to xs w))[i]? = some a ∧
      (genRun (Gen.ts_vsum.step sqrt w (Gen.ts_vsum.minPeriods w mp)) (Gen.ts_vsum.init w) (applyCalls .iter xs w))[i]? = some b ∧
      Agree sqrt a (Spec.feat .sum w mp (vwin xs i w)) ∧ Agree sqrt b (Spec.feat .sum w mp (vwin xs i w)) := by
  have := same_reference (Agree sqrt) _ _ _ (C01Gen.ts_vsum_exact sqrt .to xs w mp hw)
    (C01Gen.ts_vsum_exact sqrt .iter xs w mp hw) i (by simpa using hi)
  simpa using this

/-- regenerated `ts_vkurt` -/
theorem ts_vkurt_path_indep (sqrt : Rat → Rat) (xs : List (Option Rat)) (w : Nat) (mp : Option Nat) (hw : 1 ≤ w)
    (i : Nat) (hi : i < xs.length) :
    ∃ a b,
      (genRun (Gen.ts_vkurt.step sqrt w (Gen.ts_vkurt.minPeriods w mp)) (Gen.ts_vkurt.init w) (applyCalls .to xs w))[i]? = some a ∧
      (genRun (Gen.ts_vkurt.step sqrt w (Gen.ts_vkurt.minPeriods w mp)) (Gen.ts_vkurt.init w) (applyCalls .iter xs w))[i]? = some b ∧
      Agree sqrt a (Spec.feat .kurt w mp (vwin xs i w)) ∧ Agree sqrt b (Spec.feat .kurt w mp (vwin xs i w)) := by
  have := same_reference (Agree sqrt) _ _ _ (C01Gen.ts_vkurt_exact sqrt .to xs w mp hw)
    (C01Gen.ts_vkurt_exact sqrt .iter xs w mp hw) i (by simpa using hi)
  simpa using this

/-- regenerated `ts_vmax` (index drivers) -/
theorem ts_vmax_path_indep (sqrt : Rat → Rat) (xs : List (Option Rat)) (w : Nat) (mp : Option Nat) (hw : 1 ≤ w)
    (i : Nat) (hi : i < xs.length) :
    ∃ a b,
      (genRunIdx (Gen.ts_vmax.step sqrt xs xs.length w (Gen.ts_vmax.minPeriods xs.length w mp))
        (Gen.ts_vmax.init xs.length w) (idxCalls .to xs (Gen.ts_vmax.effWindow xs.length w)))[i]? = some a ∧
      (genRunIdx (Gen.ts_vmax.step sqrt xs xs.length w (Gen.ts_vmax.minPeriods xs.length w mp))
        (Gen.ts_vmax.init xs.length w) (idxCalls .iter xs (Gen.ts_vmax.effWindow xs.length w)))[i]? = some b ∧
      Agree sqrt a (C03.Spec.tsMax (C03.cmpMp mp w xs.length) (window xs i w)) ∧
      Agree sqrt b (C03.Spec.tsMax (C03.cmpMp mp w xs.length) (window xs i w)) := by
  have := same_reference (Agree sqrt) _ _ _ (C03Gen.ts_vmax_exact sqrt .to xs w mp hw)
    (C03Gen.ts_vmax_exact sqrt .iter xs w mp hw) i (by simpa using hi)
  simpa using this

/-- regenerated `ts_vrank` (index drivers) -/
theorem ts_vrank_path_indep (sqrt : Rat → Rat) (xs : List (Option Rat)) (w : Nat) (mp : Option Nat) (pct rev : Bool)
    (hw : 1 ≤ w) (i : Nat) (hi : i < xs.length) :
    ∃ a b,
      (genRunIdx (Gen.ts_vrank.step sqrt xs xs.length w (Gen.ts_vrank.minPeriods xs.length w mp) pct rev)
        (Gen.ts_vrank.init xs.length w) (idxCalls .to xs (Gen.ts_vrank.effWindow xs.length w)))[i]? = some a ∧
      (genRunIdx (Gen.ts_vrank.step sqrt xs xs.length w (Gen.ts_vrank.minPeriods xs.length w mp) pct rev)
        (Gen.ts_vrank.init xs.length w) (idxCalls .iter xs (Gen.ts_vrank.effWindow xs.length w)))[i]? = some b ∧
      Agree sqrt a (C03.Spec.tsRank (C03.cmpMp mp w xs.length) pct rev (window xs i w)) ∧
      Agree sqrt b (C03.Spec.tsRank (C03.cmpMp mp w xs.length) pct rev (window xs i w)) := by
  have := same_reference (Agree sqrt) _ _ _ (C03Gen.ts_vrank_exact sqrt .to xs w mp pct rev hw)
    (C03Gen.ts_vrank_exact sqrt .iter xs w mp pct rev hw) i (by simpa using hi)
  simpa using this

/-- regenerated `ts_vcov` (two-series drivers) -/
theorem ts_vcov_path_indep (sqrt : Rat → Rat) (xs ys : List (Option Rat)) (w : Nat) (mp : Option Nat)
    (hw : 1 ≤ w) (hlen : ys.length = xs.length) :
    List.Forall₂ (Agree sqrt)
      (genRun (Gen.ts_vcov.step sqrt w (Gen.ts_vcov.minPeriods w mp)) (Gen.ts_vcov.init w) (apply2Calls .to xs ys w))
      (C04.Spec.rolling2 (C04.Spec.cov (effMp mp w 2)) xs ys w) ∧
    List.Forall₂ (Agree sqrt)
      (genRun (Gen.ts_vcov.step sqrt w (Gen.ts_vcov.minPeriods w mp)) (Gen.ts_vcov.init w) (apply2Calls .iter xs ys w))
      (C04.Spec.rolling2 (C04.Spec.cov (effMp mp w 2)) xs ys w) :=
  ⟨C04Gen.ts_vcov_exact sqrt .to xs ys w mp hw hlen, C04Gen.ts_vcov_exact sqrt .iter xs ys w mp hw hlen⟩

/-- regenerated `ts_vreg` (trend regression on one series) -/
theorem ts_vreg_path_indep (sqrt : Rat → Rat) (xs : List (Option Rat)) (w : Nat) (mp : Option Nat) (hw : 1 ≤ w) :
    List.Forall₂ (Agree sqrt)
      (genRun (Gen.ts_vreg.step sqrt w (Gen.ts_vreg.minPeriods w mp)) (Gen.ts_vreg.init w) (applyCalls .to xs w))
      (C04.Spec.rolling1 (C04.Spec.trendFitted (effMp mp w 0)) xs w) ∧
    List.Forall₂ (Agree sqrt)
      (genRun (Gen.ts_vreg.step sqrt w (Gen.ts_vreg.minPeriods w mp)) (Gen.ts_vreg.init w) (applyCalls .iter xs w))
      (C04.Spec.rolling1 (C04.Spec.trendFitted (effMp mp w 0)) xs w) :=
  ⟨C04Gen.ts_vreg_exact sqrt .to xs w mp hw, C04Gen.ts_vreg_exact sqrt .iter xs w mp hw⟩

end Tv.C07Gen
