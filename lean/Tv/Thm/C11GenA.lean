import Tv.GenAgg
import Tv.Lemmas.GenSim
import Tv.Thm.C11
import Mathlib.Tactic.Ring
import Mathlib.Tactic.NormNum
set_option linter.unusedSimpArgs false
set_option linter.unusedTactic false
set_option linter.unreachableTactic false
/-!
# C11 (part A) — the moment aggregations regenerated from agg.rs (`vsum`, `vmean`, `vmean_var`,
`vvar`, `vstd`, `vskew`) agree with the model

Split from `C11Gen.lean` so that `C04Gen.lean` (the residual closures call `vmean` / `vstd` /
`vskew`) depends on exactly these and not on the other aggregations.
-/
namespace Tv.C11Gen
open Tv Tv.GenSim Tv.C11

theorem eps_eq : GenAgg.EPS = C11.EPS := by norm_num [GenAgg.EPS, C11.EPS]

/-- the prelude's reading of `vfold_n` is the model's -/
theorem vfoldN_eq {σ : Type} (f : σ → Rat → σ) (init : σ) (xs : List (Option Rat)) :
    Gen.vfoldN f init xs = C11.vfoldN f init xs := by
  unfold Gen.vfoldN C11.vfoldN
  congr 1
  funext p v
  cases v <;> rfl

theorem vfold_eq {σ : Type} (f : σ → Rat → σ) (init : σ) (xs : List (Option Rat)) :
    Gen.vfold f init xs = C11.vfold f init xs := by
  unfold Gen.vfold C11.vfold
  congr 1
  funext p v
  cases v <;> rfl

theorem vsum_agree (sqrt : Rat → Rat) (xs : List (Option Rat)) :
    Agree sqrt (GenAgg.vsum.run sqrt xs) (C11.vsum xs) := by
  simp only [GenAgg.vsum.run, C11.vsum, vfoldN_eq]
  generalize C11.vfoldN (fun acc x => acc + x) (0 : Rat) xs = p
  obtain ⟨n, s⟩ := p
  by_cases h : n ≥ 1 <;> simp [h, Agree]

theorem vmean_agree (sqrt : Rat → Rat) (xs : List (Option Rat)) :
    Agree sqrt (GenAgg.vmean.run sqrt xs) (C11.vmean xs) := by
  simp only [GenAgg.vmean.run, C11.vmean, vfoldN_eq]
  generalize C11.vfoldN (fun acc x => acc + x) (0 : Rat) xs = p
  obtain ⟨n, s⟩ := p
  by_cases h : n ≥ 1 <;> simp [h, Agree]

/-- componentwise agreement of a pair of results -/
def Agree2 (sqrt : Rat → Rat) (o : Option Rat × Option Rat) (t : Out × Out) : Prop :=
  Agree sqrt o.1 t.1 ∧ Agree sqrt o.2 t.2

/-- a `vapply_n` closure that accumulates `Σv, Σv²` computes the model's power sums -/
theorem vapplyN_pow2 (f : Rat × Rat → Rat → Rat × Rat) (hf : ∀ a b v, f (a, b) v = (a + v, b + v * v))
    (xs : List (Option Rat)) :
    Gen.vapplyN f (0, 0) xs = (((pows xs).s1, (pows xs).s2), (pows xs).n) := by
  unfold Gen.vapplyN pows
  have e0 : (((0 : Rat), (0 : Rat)), 0) = ((Pow.zero.s1, Pow.zero.s2), Pow.zero.n) := rfl
  rw [e0]
  generalize Pow.zero = s
  induction xs generalizing s with
  | nil => rfl
  | cons v xs ih =>
    cases v with
    | none => exact ih s
    | some x =>
      rw [List.foldl_cons, List.foldl_cons]
      show List.foldl _ (f _ x, s.n + 1) xs = _
      rw [hf]
      exact ih ⟨s.n + 1, s.s1 + x, s.s2 + x * x, s.s3 + x * x * x, s.s4 + (x * x) * (x * x)⟩

theorem vapplyN_pow3 (f : Rat × Rat × Rat → Rat → Rat × Rat × Rat)
    (hf : ∀ a b c v, f (a, b, c) v = (a + v, b + v * v, c + v * v * v))
    (xs : List (Option Rat)) :
    Gen.vapplyN f (0, 0, 0) xs = (((pows xs).s1, (pows xs).s2, (pows xs).s3), (pows xs).n) := by
  unfold Gen.vapplyN pows
  have e0 : (((0 : Rat), (0 : Rat), (0 : Rat)), 0) = ((Pow.zero.s1, Pow.zero.s2, Pow.zero.s3), Pow.zero.n) := rfl
  rw [e0]
  generalize Pow.zero = s
  induction xs generalizing s with
  | nil => rfl
  | cons v xs ih =>
    cases v with
    | none => exact ih s
    | some x =>
      rw [List.foldl_cons, List.foldl_cons]
      show List.foldl _ (f _ x, s.n + 1) xs = _
      rw [hf]
      exact ih ⟨s.n + 1, s.s1 + x, s.s2 + x * x, s.s3 + x * x * x, s.s4 + (x * x) * (x * x)⟩

theorem vmean_var_agree (sqrt : Rat → Rat) (xs : List (Option Rat)) (mp : Nat) :
    Agree2 sqrt (GenAgg.vmean_var.run sqrt xs mp) (C11.vmeanVar mp xs) := by
  unfold GenAgg.vmean_var.run
  simp only []
  rw [vapplyN_pow2 _ (fun a b v => by first | rfl | (simp only [pow_two]) | (simp [pow_two, pow_succ]; try ring)) xs]
  simp only [C11.vmeanVar, Agree2, eps_eq, decide_eq_true_eq, sq, Pow.pvar]
  generalize pows xs = s
  by_cases h1 : s.n < mp
  · simp [h1, Agree]
  · simp only [h1, if_false]
    by_cases h2 : s.n < 2
    · simp only [h2, if_true, Out.div]
      refine ⟨?_, rfl⟩
      split_ifs <;> first | trivial | rfl
    · simp only [h2, if_false, Out.div]
      have hn : (s.n : Rat) ≠ 0 := by
        have : 2 ≤ s.n := by omega
        exact_mod_cast (by omega : s.n ≠ 0)
      simp only [hn, if_false]
      split_ifs <;> exact ⟨rfl, rfl⟩

theorem vvar_agree (sqrt : Rat → Rat) (xs : List (Option Rat)) (mp : Nat) :
    Agree sqrt (GenAgg.vvar.run sqrt xs mp) (C11.vvar mp xs) :=
  (vmean_var_agree sqrt xs mp).2

theorem vvar_not_root (mp : Nat) (xs : List (Option Rat)) (sg : Int) (q : Rat) : C11.vvar mp xs ≠ .root sg q := by
  unfold C11.vvar C11.vmeanVar
  simp only []
  split_ifs <;> simp

theorem vstd_agree (sqrt : Rat → Rat) (xs : List (Option Rat)) (mp : Nat) :
    Agree sqrt (GenAgg.vstd.run sqrt xs mp) (C11.vstd mp xs) := by
  have h := vvar_agree sqrt xs mp
  have hr := vvar_not_root mp xs
  unfold GenAgg.vstd.run C11.vstd
  simp only []
  generalize GenAgg.vvar.run sqrt xs mp = o at h ⊢
  generalize C11.vvar mp xs = t at h hr ⊢
  cases t with
  | root sg q => exact absurd rfl (hr sg q)
  | null => simp_all [Agree, sqrtOut]
  | degen => simp_all [Agree, sqrtOut]
  | val q => simp_all [Agree, sqrtOut]

theorem ite_ne {α : Type} (c : Prop) [Decidable c] (a b z : α) (ha : a ≠ z) (hb : b ≠ z) :
    (if c then a else b) ≠ z := by
  split_ifs <;> assumption

/-- mask agreement: the generated result is the NaN literal exactly where the model is null -/
def AgreeMask (o : Option Rat) (t : Out) : Prop := t = .null ↔ o = none

/-- `vskew`: the closed form is rewritten under the root sign in the model and its zero test
(`res != 0.`) is a statement about `sqrt`; proved here: the result is NaN exactly below
`max(min_periods, 3)` valid elements (values: correspondence run) -/
theorem vskew_mask (sqrt : Rat → Rat) (xs : List (Option Rat)) (mp : Nat) :
    AgreeMask (GenAgg.vskew.run sqrt xs mp) (C11.vskew mp xs) := by
  unfold GenAgg.vskew.run
  simp only []
  rw [vapplyN_pow3 _ (fun a b c v => by first | rfl | (simp only [pow_two]) | (simp [pow_two, pow_succ]; try ring)) xs]
  simp only [C11.vskew, eps_eq, decide_eq_true_eq, sq, Pow.pvar, AgreeMask]
  generalize pows xs = s
  by_cases h1 : s.n < mp
  · simp [h1]
  · by_cases h2 : s.n ≥ 3
    · simp only [h1, h2, if_false, if_true]
      by_cases h3 : s.s2 / ↑s.n - s.s1 / ↑s.n * (s.s1 / ↑s.n) ≤ EPS
      · simp [h3]
      · simp only [h3, if_false]
        constructor
        · intro h; exact absurd h (ite_ne _ _ _ _ (by simp) (by simp))
        · intro h; exact absurd h (ite_ne _ _ _ _ (by simp) (by simp))
    · simp [h1, h2]

end Tv.C11Gen
