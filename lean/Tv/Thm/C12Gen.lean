import Tv.GenPart
import Tv.GenAgg
import Tv.Lemmas.GenSim
import Tv.Thm.C12
import Mathlib.Tactic.SplitIfs
import Mathlib.Data.List.Induction
set_option linter.unusedSimpArgs false
set_option linter.unusedVariables false
/-!
# C12 — `vpartition` / `varg_partition` regenerated from tea-map/src/vec_map.rs are the model's

`Tv.GenPart.<fn>.run` threads the in-place updates of the scratch vector in source order
(translator/parts.py); std's `sort_unstable_by` / `select_nth_unstable_by` are the abstract `S :
C12.Std` with the documented contract `S.Ok`.  Proved: the regenerated functions equal the model
(`*_eq`), hence the order-statistic specification (`*_spec` via `C12.partition_exact` /
`argpartition_exact`); and the returned iterator yields exactly the length it announces
(`*_trusted`), which is `kth + 1` on every path.
-/
namespace Tv.C12Gen
open Tv Tv.GenSim Tv.C12

theorem valid_length (xs : List Elem) : (valid xs).length = (xs.filter Option.isSome).length := by
  induction xs with
  | nil => rfl
  | cons x xs ih => cases x <;> simp [valid, List.filterMap_cons, List.filter_cons] at * <;> omega

theorem sort_rev (S : Std) (rev : Bool) (l : List Elem) :
    (if rev = false then S.sort (leE false) l else S.sort (leE true) l) = S.sort (leE rev) l := by
  cases rev <;> rfl

theorem cmp_rev (rev : Bool) : (if rev = false then leE false else leE true) = leE rev := by
  cases rev <;> rfl

theorem select_head_length {S : Std} (hS : S.Ok) {α : Type} (le : α → α → Bool)
    (htot : ∀ a b, le a b = true ∨ le b a = true) (htr : ∀ a b c, le a b = true → le b c = true → le a c = true)
    (l : List α) (j : Nat) (h : List α) (m : α) (t : List α) (hj : j < l.length)
    (hs : S.select le l j = some (h, m, t)) : h.length = j := by
  obtain ⟨h', m', t', e, _, hl, _⟩ := hS.select_spec le htot htr l j hj
  rw [e] at hs
  cases hs
  exact hl

theorem take_head (h : List α) (m : α) (t : List α) (k : Nat) (hl : h.length = k) :
    (h ++ m :: t).take (k + 1) = h ++ [m] := by
  subst hl
  simp [List.take_append]

theorem vpartition_eq {S : Std} (hS : S.Ok) (xs : List Elem) (kth : Nat) (sort rev : Bool) :
    GenPart.vpartition.run S xs kth sort rev = C12.vpartition S xs kth sort rev := by
  unfold GenPart.vpartition.run C12.vpartition
  simp only [valid_length, decide_eq_true_eq, Bool.and_eq_true, Bool.not_eq_true', sort_rev, cmp_rev]
  by_cases h1 : (xs.filter Option.isSome).length = kth + 1 ∧ sort = false
  · simp [h1]
  · by_cases h2 : (xs.filter Option.isSome).length ≤ kth + 1
    · cases sort <;> simp_all
    · have hj : kth < xs.length := by
        have := List.length_filter_le Option.isSome xs
        omega
      simp only [h1, h2, if_false]
      cases hsel : S.select (leE rev) xs kth with
      | none => rfl
      | some p =>
        obtain ⟨h, m, t⟩ := p
        have hl := select_head_length hS (leE rev) (leE_total rev) (leE_trans rev) xs kth h m t hj hsel
        simp only [take_head h m t kth hl]

theorem idx_sort_rev (S : Std) (rev : Bool) (xs : List Elem) (l : List Nat) :
    (if rev = false then S.sort (leIdx false xs) l else S.sort (leIdx true xs) l) = S.sort (leIdx rev xs) l := by
  cases rev <;> rfl

theorem enumerate_append_singleton {α : Type} (ys : List α) (v : α) :
    Gen.enumerate (ys ++ [v]) = Gen.enumerate ys ++ [(ys.length, v)] := by
  unfold Gen.enumerate
  simp only [List.length_append, List.length_singleton, List.range_succ]
  rw [List.zip_append (by simp)]
  simp

theorem validIdx_append_singleton (ys : List Elem) (v : Elem) :
    validIdx (ys ++ [v]) = validIdx ys ++ (if v.isSome then [ys.length] else []) := by
  unfold validIdx
  simp only [List.length_append, List.length_singleton, List.range_succ, List.filter_append]
  congr 1
  · apply List.filter_congr
    intro i hi
    have : i < ys.length := by simpa using hi
    simp [List.getD_eq_getElem?_getD, List.getElem?_append_left this]
  · simp [List.getD_eq_getElem?_getD]
    cases v <;> simp

theorem enum_filterMap (F : Nat × Elem → Option Int)
    (hF : ∀ i v, F (i, v) = if v.isSome then some (Int.ofNat i) else none) (xs : List Elem) :
    (Gen.enumerate xs).filterMap F = (validIdx xs).map Int.ofNat := by
  induction xs using List.reverseRecOn with
  | nil => rfl
  | append_singleton ys v ih =>
    rw [enumerate_append_singleton, validIdx_append_singleton, List.filterMap_append, ih, List.map_append]
    congr 1
    simp only [List.filterMap_cons, List.filterMap_nil, hF]
    cases v <;> simp

theorem varg_partition_eq {S : Std} (hS : S.Ok) (xs : List Elem) (kth : Nat) (sort rev : Bool) :
    GenPart.varg_partition.run S xs kth sort rev = C12.vargPartition S xs kth sort rev := by
  unfold GenPart.varg_partition.run C12.vargPartition
  simp only [valid_length, decide_eq_true_eq, Bool.not_eq_true', idx_sort_rev]
  by_cases h2 : (xs.filter Option.isSome).length ≤ kth + 1
  · simp only [h2, if_true]
    cases sort
    · simp only [if_true]
      rw [enum_filterMap _ (fun i v => by cases v <;> rfl) xs]
    · simp
  · have hj : kth < (List.range xs.length).length := by
      have := List.length_filter_le Option.isSome xs
      simp; omega
    simp only [h2, if_false]
    cases rev
    · simp only [↓reduceIte]
      cases hsel : S.select (leIdx false xs) (List.range xs.length) kth with
      | none => rfl
      | some p =>
        obtain ⟨h, m, t⟩ := p
        have hl := select_head_length hS (leIdx false xs) (leIdx_total false xs) (leIdx_trans false xs) _ kth h m t hj hsel
        simp only [take_head h m t kth hl]
    · simp only [Bool.true_eq_false, ↓reduceIte]
      cases hsel : S.select (leIdx true xs) (List.range xs.length) kth with
      | none => rfl
      | some p =>
        obtain ⟨h, m, t⟩ := p
        have hl := select_head_length hS (leIdx true xs) (leIdx_total true xs) (leIdx_trans true xs) _ kth h m t hj hsel
        simp only [take_head h m t kth hl]

/-! ## the announced length -/

theorem sort_length {S : Std} (hS : S.Ok) {α : Type} (le : α → α → Bool) (l : List α) : (S.sort le l).length = l.length :=
  (hS.sort_perm le l).length_eq

theorem padTake_length {α : Type} (l : List α) (pad : α) (k : Nat) : (padTake l pad k).length = k := by
  unfold padTake
  simp; omega

/-- `vpartition`: on every path that returns, the iterator yields exactly the `kth + 1` items it announces -/
theorem vpartition_trusted {S : Std} (hS : S.Ok) (xs : List Elem) (kth : Nat) (sort rev : Bool) :
    (GenPart.vpartition.run S xs kth sort rev).map List.length = GenPart.vpartition.announced S xs kth sort rev := by
  unfold GenPart.vpartition.run GenPart.vpartition.announced
  simp only [decide_eq_true_eq, Bool.and_eq_true, Bool.not_eq_true', sort_rev, cmp_rev]
  by_cases h1 : (xs.filter Option.isSome).length = kth + 1 ∧ sort = false
  · simp [h1]
  · by_cases h2 : (xs.filter Option.isSome).length ≤ kth + 1
    · cases sort <;> simp_all [padTake_length]
    · have hj : kth < xs.length := by
        have := List.length_filter_le Option.isSome xs
        omega
      simp only [h1, h2, if_false]
      cases hsel : S.select (leE rev) xs kth with
      | none => rfl
      | some p =>
        obtain ⟨h, m, t⟩ := p
        have hl := select_head_length hS (leE rev) (leE_total rev) (leE_trans rev) xs kth h m t hj hsel
        simp only [take_head h m t kth hl, Option.map_some]
        cases sort <;> simp [sort_length hS, hl]

theorem varg_partition_trusted {S : Std} (hS : S.Ok) (xs : List Elem) (kth : Nat) (sort rev : Bool) :
    (GenPart.varg_partition.run S xs kth sort rev).map List.length
      = GenPart.varg_partition.announced S xs kth sort rev := by
  unfold GenPart.varg_partition.run GenPart.varg_partition.announced
  simp only [decide_eq_true_eq, Bool.not_eq_true', idx_sort_rev]
  by_cases h2 : (xs.filter Option.isSome).length ≤ kth + 1
  · cases sort <;> simp [h2, padTake_length]
  · have hj : kth < (List.range xs.length).length := by
      have := List.length_filter_le Option.isSome xs
      simp; omega
    simp only [h2, if_false]
    cases rev
    · simp only [↓reduceIte]
      cases hsel : S.select (leIdx false xs) (List.range xs.length) kth with
      | none => rfl
      | some p =>
        obtain ⟨h, m, t⟩ := p
        have hl := select_head_length hS (leIdx false xs) (leIdx_total false xs) (leIdx_trans false xs) _ kth h m t hj hsel
        simp only [take_head h m t kth hl, Option.map_some]
        cases sort <;> simp [sort_length hS, hl]
    · simp only [Bool.true_eq_false, ↓reduceIte]
      cases hsel : S.select (leIdx true xs) (List.range xs.length) kth with
      | none => rfl
      | some p =>
        obtain ⟨h, m, t⟩ := p
        have hl := select_head_length hS (leIdx true xs) (leIdx_total true xs) (leIdx_trans true xs) _ kth h m t hj hsel
        simp only [take_head h m t kth hl, Option.map_some]
        cases sort <;> simp [sort_length hS, hl]

/-! ## against the specification -/

/-- the regenerated `vpartition` never panics and returns exactly `kth + 1` entries: a rearrangement of
the `kth + 1` smallest (largest when `rev`) non-null elements, null-padded, in order when `sort` -/
theorem vpartition_spec {S : Std} (hS : S.Ok) (xs : List Elem) (kth : Nat) (sort rev : Bool) :
    ∃ r, GenPart.vpartition.run S xs kth sort rev = some r ∧ r.length = kth + 1 ∧
      r.Perm (Spec.partition xs kth rev) ∧ (sort = true → r = Spec.partition xs kth rev) := by
  rw [vpartition_eq hS]; exact C12.partition_exact hS xs kth sort rev

theorem varg_partition_spec {S : Std} (hS : S.Ok) (xs : List Elem) (kth : Nat) (sort rev : Bool) :
    ∃ r idx, GenPart.varg_partition.run S xs kth sort rev = some r ∧ r.length = kth + 1 ∧ ArgOk xs kth r idx ∧
      (argValues xs kth idx).Perm (Spec.partition xs kth rev) ∧
      (sort = true → argValues xs kth idx = Spec.partition xs kth rev) := by
  rw [varg_partition_eq hS]; exact C12.argpartition_exact hS xs kth sort rev

/-! ## `vpercentile_of` (tea-agg/src/lib.rs), regenerated by aggs.py -/

def pm : Gen.PctMethod → PMethod
  | .rank => .rank
  | .weak => .weak
  | .strict => .strict

/-- the `for_each` closure of `vpercentile_of` with its three counters -/
theorem fold_pct (score : Rat) (F : Nat × Nat × Nat → Elem → Nat × Nat × Nat)
    (hF : ∀ tot lt eq v, F (tot, lt, eq) v =
      ((pctStep score (lt, eq, tot) v).2.2, (pctStep score (lt, eq, tot) v).1, (pctStep score (lt, eq, tot) v).2.1))
    (xs : List Elem) (lt eq tot : Nat) :
    List.foldl F (tot, lt, eq) xs =
      ((xs.foldl (pctStep score) (lt, eq, tot)).2.2, (xs.foldl (pctStep score) (lt, eq, tot)).1,
       (xs.foldl (pctStep score) (lt, eq, tot)).2.1) := by
  induction xs generalizing lt eq tot with
  | nil => rfl
  | cons v xs ih =>
    rw [List.foldl_cons, List.foldl_cons, hF]
    exact ih _ _ _

theorem vpercentile_of_agree (sqrt : Rat → Rat) (xs : List Elem) (score : Elem) (m : Gen.PctMethod) :
    Agree sqrt (GenAgg.vpercentile_of.run sqrt xs score m) (C12.vpercentileOf xs score (pm m)) := by
  unfold GenAgg.vpercentile_of.run C12.vpercentileOf
  cases score with
  | none => simp [Agree]
  | some s =>
    simp only []
    rw [fold_pct s _ (fun tot lt eq v => by
      cases v with
      | none => simp [pctStep]
      | some x =>
        by_cases h1 : x < s
        · simp [pctStep, h1]
        · by_cases h2 : x = s <;> simp [pctStep, h1, h2]) xs 0 0 0]
    generalize xs.foldl (pctStep s) (0, 0, 0) = c
    obtain ⟨lt, eq, tot⟩ := c
    by_cases h0 : tot = 0
    · simp [h0, Agree]
    · have hq : ((tot : Nat) : Rat) ≠ 0 := by exact_mod_cast h0
      cases m <;> simp only [pm, h0, decide_false, decide_true, if_false, Bool.false_eq_true]
      · by_cases he : eq > 1 <;> simp [he, Out.div, hq, Agree]
      · simp [Out.div, hq, Agree]
      · simp [Out.div, hq, Agree]

theorem functions_present :
    GenPart.functions = ["vpartition", "varg_partition"] ∧ GenPart.vpartition.parsed = true ∧
    GenPart.varg_partition.parsed = true := ⟨rfl, rfl, rfl⟩
end Tv.C12Gen
