import Tv.GenFd
import Tv.Lemmas.GenSim
import Tv.Thm.C01
import Tv.Thm.C02Gen
set_option linter.unusedSimpArgs false
set_option linter.unusedVariables false
/-!
# C01 — the fractional-difference code regenerated from tevec/src/rolling.rs is the model's

`Tv.GenFd.fdiff_coef.run`, `ts_fdiff.emit`, `ts_vfdiff.emit` are written by translator/fdiff.py on
every run (`binom d v` = `ffi::binom(d, v as f64)`, instantiated with the exact generalized binomial
`gbinom`).  Proved: the coefficient vector is the model's, each closure agrees with the model closure
on every window slice, and — through `tsFdiff_exact` / `tsVfdiff_exact` — the regenerated closure over
the slices either driver shape hands out is the from-scratch fractional difference of the window.
-/
namespace Tv.C01Fd
open Tv Tv.GenSim

/-- a `map` closure that flips a captured sign, against the model's fold -/
theorem mapSt_sign (d : Rat) (F : Rat → Nat → Rat × Rat) (hF : ∀ s v, F s v = (-s, gbinom d v * -s))
    (l : List Nat) (s : Rat) (acc : List Rat) :
    (l.foldl (fun (a : Rat × List Rat) v => let s := -a.1; (s, a.2 ++ [gbinom d v * s])) (s, acc)).2
      = acc ++ Gen.mapSt F s l := by
  induction l generalizing s acc with
  | nil => simp [Gen.mapSt]
  | cons v l ih =>
    rw [List.foldl_cons, ih]
    simp [Gen.mapSt, hF]

theorem fdiff_coef_eq (d : Rat) (w : Nat) : GenFd.fdiff_coef.run gbinom d w = fdiffCoef d w := by
  unfold GenFd.fdiff_coef.run fdiffCoef
  simp only [decide_eq_true_eq, Nat.sub_zero, ← List.range_eq_range']
  have := mapSt_sign d _ (fun s v => rfl) (List.range w).reverse (if w % 2 = 0 then 1 else -1) []
  rw [this]
  simp

theorem foldl_dot (F : Rat → Rat × Rat → Rat) (hF : ∀ a v c, F a (v, c) = a + v * c) (l : List (Rat × Rat)) (a : Rat) :
    List.foldl F a l = (l.map fun p => p.1 * p.2).foldl (· + ·) a := by
  induction l generalizing a with
  | nil => rfl
  | cons p l ih => obtain ⟨v, c⟩ := p; simp [List.foldl_cons, hF, ih]

theorem ts_fdiff_emit (sqrt : Rat → Rat) (d : Rat) (w : Nat) (arr : List Rat) :
    Agree sqrt (GenFd.ts_fdiff.emit gbinom d w arr) (fdiffEmit d w arr) := by
  unfold GenFd.ts_fdiff.emit fdiffEmit dot
  simp only [fdiff_coef_eq]
  rw [foldl_dot _ (fun a v c => rfl)]
  rfl

theorem foldl_optMul (F : Rat → Option Rat × Rat → Rat)
    (hF : ∀ a v c, F a (v, c) = a + optMul (v, c)) (l : List (Option Rat × Rat)) (a : Rat) :
    List.foldl F a l = (l.map optMul).foldl (· + ·) a := by
  induction l generalizing a with
  | nil => rfl
  | cons p l ih => obtain ⟨v, c⟩ := p; simp [List.foldl_cons, hF, ih]

theorem valid_filter (arr : List (Option Rat)) : (valid arr).length = (arr.filter Option.isSome).length := by
  induction arr with
  | nil => rfl
  | cons x xs ih => cases x <;> simp [valid, List.filterMap_cons, List.filter_cons] at * <;> omega

theorem zip_filter_valid (arr : List (Option Rat)) (cs : List Rat) :
    (((arr.filter Option.isSome).zip cs).map optMul) = ((valid arr).zip cs).map fun p => p.1 * p.2 := by
  induction arr generalizing cs with
  | nil => rfl
  | cons x xs ih =>
    cases x with
    | none => simpa [valid, List.filter_cons] using ih cs
    | some v =>
      cases cs with
      | nil => simp [valid, List.filter_cons]
      | cons c cs =>
        have := ih cs
        simp only [valid] at this
        simp [valid, List.filter_cons, optMul, this]

theorem ts_vfdiff_emit (sqrt : Rat → Rat) (d : Rat) (w mp : Nat) (arr : List (Option Rat)) :
    Agree sqrt (GenFd.ts_vfdiff.emit gbinom d w mp arr) (vfdiffEmit d w mp arr) := by
  unfold GenFd.ts_vfdiff.emit vfdiffEmit dot
  simp only [fdiff_coef_eq, valid_filter, decide_eq_true_eq]
  have hO : ∀ (a : Rat) (v : Option Rat) (c : Rat),
      (match v with | some v => a + v * c | _ => a) = a + optMul (v, c) := by
    intro a v c; cases v <;> simp [optMul]
  by_cases h1 : (arr.filter Option.isSome).length = w
  · simp only [h1, if_true]
    rw [foldl_optMul _ (fun a v c => hO a v c)]
    rfl
  · simp only [h1, if_false]
    by_cases h2 : (arr.filter Option.isSome).length ≥ mp
    · simp only [h2, if_true]
      rw [foldl_optMul _ (fun a v c => hO a v c), zip_filter_valid]
      rfl
    · simp only [h2, if_false]; rfl

theorem ts_vfdiff_minPeriods (w : Nat) (mp : Option Nat) : GenFd.ts_vfdiff.minPeriods w mp = effMp mp w 0 := by
  simp [GenFd.ts_vfdiff.minPeriods, effMp]

/-- the regenerated `ts_vfdiff` closure over the slices of either driver shape = the from-scratch
fractional difference of the valid values of the window, every position -/
theorem ts_vfdiff_exact (sqrt : Rat → Rat) (sh : Shape) (d : Rat) (xs : List (Option Rat)) (w : Nat) (mp : Option Nat)
    (hw : 1 ≤ w) :
    List.Forall₂ (Agree sqrt)
      ((customCalls sh xs w).map (GenFd.ts_vfdiff.emit gbinom d w (GenFd.ts_vfdiff.minPeriods w mp)))
      ((List.range xs.length).map fun i => Spec.tsVfdiff d (effMp mp w 0) (vwin xs i w)) := by
  rw [← C01.tsVfdiff_exact sh d xs w mp hw, ts_vfdiff_minPeriods]
  unfold tsVfdiff
  generalize customCalls sh xs w = cs
  induction cs with
  | nil => exact List.Forall₂.nil
  | cons c cs ih => exact List.Forall₂.cons (ts_vfdiff_emit sqrt d w _ c) ih

theorem ts_fdiff_exact (sqrt : Rat → Rat) (sh : Shape) (d : Rat) (xs : List Rat) (w : Nat) (hw : 1 ≤ w) :
    List.Forall₂ (Agree sqrt)
      ((customCalls sh xs w).map (GenFd.ts_fdiff.emit gbinom d w))
      ((List.range xs.length).map fun i => Spec.tsFdiff d (window xs i w)) := by
  rw [← C01.tsFdiff_exact sh d xs w hw]
  unfold tsFdiff
  generalize customCalls sh xs w = cs
  induction cs with
  | nil => exact List.Forall₂.nil
  | cons c cs ih => exact List.Forall₂.cons (ts_fdiff_emit sqrt d w c) ih

/-- **from source, end to end**: regenerated slice driver (both shapes) + regenerated closure -/
theorem ts_vfdiff_from_source (sqrt : Rat → Rat) (d : Rat) (xs : List (Option Rat)) (w : Nat) (mp : Option Nat) (hw : 1 ≤ w) :
    C02Gen.E2ECustom (fun cs => List.Forall₂ (Agree sqrt)
      (cs.map (GenFd.ts_vfdiff.emit gbinom d w (GenFd.ts_vfdiff.minPeriods w mp)))
      ((List.range xs.length).map fun i => Spec.tsVfdiff d (effMp mp w 0) (vwin xs i w))) xs w :=
  C02Gen.e2e_custom _ xs w hw (ts_vfdiff_exact sqrt .to d xs w mp hw) (ts_vfdiff_exact sqrt .iter d xs w mp hw)

theorem ts_fdiff_from_source (sqrt : Rat → Rat) (d : Rat) (xs : List Rat) (w : Nat) (hw : 1 ≤ w) :
    C02Gen.E2ECustom (fun cs => List.Forall₂ (Agree sqrt)
      (cs.map (GenFd.ts_fdiff.emit gbinom d w))
      ((List.range xs.length).map fun i => Spec.tsFdiff d (window xs i w))) xs w :=
  C02Gen.e2e_custom _ xs w hw (ts_fdiff_exact sqrt .to d xs w hw) (ts_fdiff_exact sqrt .iter d xs w hw)

theorem functions_present :
    GenFd.functions = ["fdiff_coef", "ts_fdiff", "ts_vfdiff"] ∧ GenFd.fdiff_coef.parsed = true ∧
    GenFd.ts_fdiff.parsed = true ∧ GenFd.ts_vfdiff.parsed = true ∧
    GenFd.ts_fdiff.driver = "rolling_custom" ∧ GenFd.ts_vfdiff.driver = "rolling_custom" :=
  ⟨rfl, rfl, rfl, rfl, rfl, rfl⟩
end Tv.C01Fd
