import Tv.Lemmas.C11Moments
import Tv.Lemmas.C11Ext
import Tv.Lemmas.C11Count
import Tv.Lemmas.C11Pair
import Tv.Lemmas.C11Perm
import Tv.Generated
import Mathlib.Tactic.NormNum
/-!
# C11 — aggregations equal their textbook definitions over the non-null elements

Model: `Tv/Model/C11.lean` (the folds of agg.rs / tea-agg/lib.rs as written, repaired
`vmean_var`); spec: `Tv/Spec/C11.lean` (definitions over `valid xs`, no running state).

* `*_exact`    model = from-scratch definition, for every series / `min_periods` / mask
* `*_null_iff`, `*_none_iff`, `*_nan_iff`   null exactly below `max min_periods k`
* `argmin_first`, `argmax_first`            ties resolve to the first position
* `vvar_textbook`, `vvar_floor_bound`       the `EPS` variance floor (DESIGN 5.6)
* `*_perm`     invariance of the symmetric aggregations under `List.Perm`
* `*_filter`   null transparency `g (xs.filter isSome) = g xs` (reused by C08)
* `vvar_pinned_wrong(_all)`                 finding F10 on the model of the pinned code
* `agg_min_obs_matches`, `eps_matches`      constants regenerated from the Rust sources

Series elements are exact rationals, `none` is the canonical null (DESIGN §3, 5.4); the plain
(`AggBasic`) family is stated on null-free lists (DESIGN 5.6).
-/
namespace Tv.C11
open Tv

/-! ## sums and means -/

/-- `vsum` is `Σ` over the non-null elements, null iff there is none. -/
theorem vsum_exact (xs : List (Option Rat)) : vsum xs = Spec.vsum xs := by
  unfold vsum Spec.vsum
  rw [vfoldN_eq, foldl_add_eq]
  by_cases h : (valid xs).length < 1
  · have : ¬ (valid xs).length ≥ 1 := by omega
    simp [h, this]
  · have : (valid xs).length ≥ 1 := by omega
    simp [h, this]

/-- `vmean` is the arithmetic mean of the non-null elements, null iff there is none. -/
theorem vmean_exact (xs : List (Option Rat)) : vmean xs = Spec.vmean xs := by
  unfold vmean Spec.vmean
  rw [vfoldN_eq, foldl_add_eq]
  by_cases h : (valid xs).length < 1
  · have : ¬ (valid xs).length ≥ 1 := by omega
    simp [h, this]
  · have : (valid xs).length ≥ 1 := by omega
    simp [h, this, Tv.Spec.mean]

/-- `vmean_var` (repaired code): mean and floored sample variance of the non-null elements. -/
theorem vmean_var_exact (mp : Nat) (xs : List (Option Rat)) :
    vmeanVar mp xs = Spec.vmeanVar mp xs := by
  unfold vmeanVar Spec.vmeanVar Spec.vmeanMp Spec.vvar Spec.req
  simp only [pows_n, pows_s1]
  by_cases h1 : (valid xs).length < mp
  · have : (valid xs).length < max mp 2 := by omega
    simp [h1, this]
  · simp only [h1, if_false]
    have hm : Out.div (psum 1 (valid xs)) ((valid xs).length : Rat)
        = if (valid xs).length = 0 then Out.degen else Out.val (Tv.Spec.mean (valid xs)) := by
      unfold Out.div
      by_cases h0 : (valid xs).length = 0
      · simp [h0]
      · have : ((valid xs).length : Rat) ≠ 0 := by exact_mod_cast h0
        simp [h0, this, mean_eq_psum]
    rw [hm]
    by_cases h2 : (valid xs).length < 2
    · have : (valid xs).length < max mp 2 := by omega
      simp [h2, this]
    · have h3 : ¬ (valid xs).length < max mp 2 := by omega
      simp only [h2, h3, if_false]
      rw [pows_pvar xs (by omega), EPS_eq]
      by_cases h4 : Tv.Spec.cmom 2 (valid xs) ≤ Tv.Spec.EPS
      · simp [h4]
      · simp only [h4, if_false]
        rw [var_value _ (by omega)]


/-- `vvar` (repaired code): `Σ(x-mean)²/(n-1)` over the non-null elements with the documented
`EPS` floor; null iff `n < max min_periods 2`. -/
theorem vvar_exact (mp : Nat) (xs : List (Option Rat)) : vvar mp xs = Spec.vvar mp xs := by
  unfold vvar; rw [vmean_var_exact]; rfl

/-- `vstd` is the square root of `vvar`. -/
theorem vstd_exact (mp : Nat) (xs : List (Option Rat)) : vstd mp xs = Spec.vstd mp xs := by
  unfold vstd; rw [vvar_exact]
  unfold Spec.vvar Spec.vstd
  by_cases h1 : (valid xs).length < Spec.req mp 2
  · simp [h1, sqrtOut]
  · by_cases h2 : Tv.Spec.cmom 2 (valid xs) ≤ Tv.Spec.EPS <;> simp [h1, h2, sqrtOut]

/-- `vskew`: adjusted Fisher–Pearson skewness `√(n(n−1))/(n−2)·m₃/m₂^{3/2}` of the non-null
elements (as sign and square), `0` under the variance floor, null iff `n < max min_periods 3`. -/
theorem vskew_exact (mp : Nat) (xs : List (Option Rat)) : vskew mp xs = Spec.vskew mp xs := by
  unfold vskew Spec.vskew Spec.req
  simp only [pows_n, pows_s1, pows_s3]
  by_cases h1 : (valid xs).length < mp
  · have : (valid xs).length < max mp 3 := by omega
    simp [h1, this]
  · by_cases h2 : (valid xs).length ≥ 3
    · have h3 : ¬ (valid xs).length < max mp 3 := by omega
      simp only [h1, h2, h3, if_false, if_true]
      rw [pows_pvar xs (by omega), EPS_eq]
      by_cases h4 : Tv.Spec.cmom 2 (valid xs) ≤ Tv.Spec.EPS
      · simp [h4]
      · simp only [h4, if_false]
        rw [c3_eq_cmom3 _ (by omega)]
        unfold Spec.skewOf Spec.sroot
        by_cases h5 : Tv.Spec.cmom 3 (valid xs) = 0
        · simp [h5]
        · simp only [h5, ne_eq, not_false_eq_true, if_true, if_false, sgn_eq]
          congr 1
          ring
    · have : (valid xs).length < max mp 3 := by omega
      simp [h1, h2, this]

/-- `vkurt`: excess kurtosis `((n²−1)·m₄/m₂² − 3(n−1)²)/((n−2)(n−3))` of the non-null elements,
`0` under the variance floor, null iff `n < max min_periods 4`. -/
theorem vkurt_exact (mp : Nat) (xs : List (Option Rat)) : vkurt mp xs = Spec.vkurt mp xs := by
  unfold vkurt Spec.vkurt Spec.req
  simp only [pows_n, pows_s1, pows_s3, pows_s4]
  by_cases h1 : (valid xs).length < mp
  · have : (valid xs).length < max mp 4 := by omega
    simp [h1, this]
  · by_cases h2 : (valid xs).length ≥ 4
    · have h3 : ¬ (valid xs).length < max mp 4 := by omega
      have hn : (valid xs).length ≠ 0 := by omega
      simp only [h1, h2, h3, if_false, if_true]
      rw [pows_pvar xs hn, EPS_eq]
      by_cases h4 : Tv.Spec.cmom 2 (valid xs) ≤ Tv.Spec.EPS
      · simp [h4]
      · have hv : Tv.Spec.cmom 2 (valid xs) ≠ 0 := by
          intro h0; apply h4; rw [h0]; exact le_of_lt EPS_pos
        simp only [h4, if_false]
        rw [kurt_res_eq _ hn hv]
        have hres : Tv.Spec.cmom 4 (valid xs)
            / (Tv.Spec.cmom 2 (valid xs) * Tv.Spec.cmom 2 (valid xs)) ≠ 0 :=
          div_ne_zero (cmom4_ne_zero _ hn hv) (mul_ne_zero hv hv)
        simp only [hres, ne_eq, not_false_eq_true, if_true]
        rw [kurt_final _ h2]
        rfl
    · have : (valid xs).length < max mp 4 := by omega
      simp [h1, h2, this]


/-! ## counts, first / last, any / all -/

/-- `count_valid` (and the deprecated `count`) is the number of non-null elements. -/
theorem count_valid_exact (xs : List (Option α)) : countValid xs = Spec.countValid xs := by
  unfold countValid Spec.countValid; rw [vfoldN_eq]

/-- `count_none` is the number of null elements. -/
theorem count_none_exact (xs : List (Option α)) : countNone xs = Spec.countNone xs := by
  unfold countNone Spec.countNone
  rw [foldl_count (fun v : Option α => v.isNone = true) xs 0, Nat.zero_add]
  congr 1
  apply List.filter_congr
  intro x _
  cases x <;> rfl

/-- valid and null elements partition the series. -/
theorem count_valid_add_count_none (xs : List (Option α)) :
    countValid xs + countNone xs = xs.length := by
  rw [count_valid_exact, count_none_exact]
  unfold Spec.countValid Spec.countNone
  induction xs with
  | nil => rfl
  | cons x xs ih => cases x <;> simp <;> omega

/-- `vcount_value v` counts the elements equal to `v`; a null `v` counts the nulls. -/
theorem vcount_value_exact [DecidableEq α] (value : Option α) (xs : List (Option α)) :
    vcountValue value xs = Spec.countValue value xs := by
  unfold vcountValue Spec.countValue
  cases value with
  | some c =>
    simp only []
    rw [vfold_eq, foldl_count (fun x => x = c), filter_valid_eq]; simp
  | none =>
    simp only []
    rw [foldl_count (fun x : Option α => x.isNone = true), filter_isNone_eq]; simp

/-- `vfirst` is the first non-null element (never a null wrapped in `Some`). -/
theorem vfirst_exact (xs : List (Option α)) : vfirst xs = (Spec.firstValid xs).map some := by
  unfold vfirst Spec.firstValid; exact find_isSome_eq xs

/-- `vlast` is the last non-null element. -/
theorem vlast_exact (xs : List (Option α)) : vlast xs = (Spec.lastValid xs).map some := by
  unfold vlast Spec.lastValid
  rw [find_isSome_eq, valid_reverse, List.head?_reverse]

/-- `vany`: some non-null element is true. -/
theorem vany_exact (xs : List (Option Bool)) : vany xs = Spec.anyValid xs := by
  unfold vany Spec.anyValid; rw [vfold_eq, foldl_or]; simp

/-- `vall`: no non-null element is false. -/
theorem vall_exact (xs : List (Option Bool)) : vall xs = Spec.allValid xs := by
  unfold vall Spec.allValid; rw [vfold_eq, foldl_and]; simp

/-! ## extrema and first arg-extrema -/

/-- `vmin` is the least non-null element (a member `≤` every member). -/
theorem vmin_exact (xs : List (Option Rat)) : vmin xs = Spec.vmin xs := by
  unfold vmin Spec.vmin
  rw [vfold_eq, least_eq, ← foldl_extStep_eq_extFind leR_good]
  congr 1
  funext acc x
  cases acc <;> simp [extStep, minWith_eq]

/-- `vmax` is the greatest non-null element. -/
theorem vmax_exact (xs : List (Option Rat)) : vmax xs = Spec.vmax xs := by
  unfold vmax Spec.vmax
  rw [vfold_eq, greatest_eq, ← foldl_extStep_eq_extFind geR_good]
  congr 1
  funext acc x
  cases acc <;> simp [extStep, maxWith_eq]

/-- **the minimum is a lower bound, the maximum an upper bound, and `vmin ≤ vmax`**: both are
non-null elements of the series, every non-null element lies between them -/
theorem vmin_le_vmax (xs : List (Option Rat)) (a b : Rat) (ha : vmin xs = some a)
    (hb : vmax xs = some b) :
    some a ∈ xs ∧ some b ∈ xs ∧ (∀ x, some x ∈ xs → a ≤ x ∧ x ≤ b) ∧ a ≤ b := by
  rw [vmin_exact] at ha
  rw [vmax_exact] at hb
  unfold Spec.vmin Spec.least at ha
  unfold Spec.vmax Spec.greatest at hb
  have ha1 := List.mem_of_find?_eq_some ha
  have hb1 := List.mem_of_find?_eq_some hb
  have ha2 := List.find?_some ha
  have hb2 := List.find?_some hb
  simp only [List.all_eq_true, decide_eq_true_eq] at ha2 hb2
  have hv : ∀ x : Rat, x ∈ valid xs ↔ some x ∈ xs := by
    intro x; simp [valid]
  refine ⟨(hv a).1 ha1, (hv b).1 hb1, ?_, ha2 b hb1⟩
  intro x hx
  exact ⟨ha2 x ((hv x).2 hx), hb2 x ((hv x).2 hx)⟩

/-- `vargmin` is the position (nulls counted) of the FIRST occurrence of the least non-null
element. -/
theorem vargmin_exact (xs : List (Option Rat)) : vargmin xs = Spec.vargmin xs := by
  unfold vargmin Spec.vargmin
  have : vargminStep = argStep leR := by funext s v; exact vargminStep_eq s v
  rw [this, argFold_eq leR_good, least_eq]
  cases extFind leR (valid xs) <;> rfl

/-- `vargmax` is the position of the FIRST occurrence of the greatest non-null element. -/
theorem vargmax_exact (xs : List (Option Rat)) : vargmax xs = Spec.vargmax xs := by
  unfold vargmax Spec.vargmax
  have : vargmaxStep = argStep geR := by funext s v; exact vargmaxStep_eq s v
  rw [this, argFold_eq geR_good, greatest_eq]
  cases extFind geR (valid xs) <;> rfl

/-- **argmin_first**: the reported index holds the minimum, every valid element is `≥` it, and
every valid element strictly before it is strictly greater (ties resolve to the first). -/
theorem argmin_first (xs : List (Option Rat)) (i : Nat) (h : vargmin xs = some i) :
    ∃ m, xs[i]? = some (some m) ∧ (∀ v, some v ∈ xs → m ≤ v) ∧
      ∀ j v, j < i → xs[j]? = some (some v) → m < v := by
  rw [vargmin_exact] at h
  unfold Spec.vargmin at h
  cases hl : Spec.least (valid xs) with
  | none => rw [hl] at h; exact absurd h (by simp)
  | some m =>
    rw [hl] at h
    simp only [] at h
    have hext := (extFind_eq_some_iff leR_good _ _).mp (by rw [← least_eq]; exact hl)
    have hi := List.findIdx?_eq_some_iff_getElem.mp h
    obtain ⟨hlt, hget, hbefore⟩ := hi
    refine ⟨m, ?_, ?_, ?_⟩
    · rw [List.getElem?_eq_getElem hlt]; simpa using hget
    · intro v hv; exact hext.2 v (mem_valid.mpr hv)
    · intro j v hj hjv
      have hjl : j < xs.length := by omega
      have hne := hbefore j hj
      rw [List.getElem?_eq_getElem hjl] at hjv
      have hv : xs[j] = some v := by simpa using hjv
      have hmv : m ≤ v := hext.2 v (mem_valid.mpr (hv ▸ List.getElem_mem hjl))
      rcases lt_or_eq_of_le hmv with h' | h'
      · exact h'
      · exfalso; apply hne; simp [hv, h']

/-- **argmax_first**: mirror image of `argmin_first`. -/
theorem argmax_first (xs : List (Option Rat)) (i : Nat) (h : vargmax xs = some i) :
    ∃ m, xs[i]? = some (some m) ∧ (∀ v, some v ∈ xs → v ≤ m) ∧
      ∀ j v, j < i → xs[j]? = some (some v) → v < m := by
  rw [vargmax_exact] at h
  unfold Spec.vargmax at h
  cases hl : Spec.greatest (valid xs) with
  | none => rw [hl] at h; exact absurd h (by simp)
  | some m =>
    rw [hl] at h
    simp only [] at h
    have hext := (extFind_eq_some_iff geR_good _ _).mp (by rw [← greatest_eq]; exact hl)
    have hi := List.findIdx?_eq_some_iff_getElem.mp h
    obtain ⟨hlt, hget, hbefore⟩ := hi
    refine ⟨m, ?_, ?_, ?_⟩
    · rw [List.getElem?_eq_getElem hlt]; simpa using hget
    · intro v hv; exact hext.2 v (mem_valid.mpr hv)
    · intro j v hj hjv
      have hjl : j < xs.length := by omega
      have hne := hbefore j hj
      rw [List.getElem?_eq_getElem hjl] at hjv
      have hv : xs[j] = some v := by simpa using hjv
      have hmv : v ≤ m := hext.2 v (mem_valid.mpr (hv ▸ List.getElem_mem hjl))
      rcases lt_or_eq_of_le hmv with h' | h'
      · exact h'
      · exfalso; apply hne; simp [hv, h']


/-! ## two series: pairwise-complete observations -/

/-- `vcov`: sample covariance `Σ(a-ā)(b-b̄)/(n-1)` over the pairwise-complete pairs; null iff
`n < max min_periods 2`. -/
theorem vcov_exact (mp : Nat) (xs ys : List (Option Rat)) : vcov mp xs ys = Spec.vcov mp xs ys := by
  unfold vcov Spec.vcov Spec.req
  rw [pairs_eq, maxWithNat_eq]
  simp only []
  by_cases h : (Spec.pairsValid xs ys).length ≥ max mp 2
  · have h' : ¬ (Spec.pairsValid xs ys).length < max mp 2 := by omega
    simp only [h, h', if_true, if_false]
    rw [cov_value _ (by omega)]
  · have h' : (Spec.pairsValid xs ys).length < max mp 2 := by omega
    simp [h, h']

/-- `vcorr_pearson`: `Σ(a-ā)(b-b̄)/√(Σ(a-ā)²Σ(b-b̄)²)` over the pairwise-complete pairs (sign and
square); the zero denominator (a series without spread) is `degen`; null iff
`n < max min_periods 2`. -/
theorem vcorr_exact (mp : Nat) (xs ys : List (Option Rat)) :
    vcorr mp xs ys = Spec.vcorr mp xs ys := by
  unfold vcorr Spec.vcorr Spec.req
  rw [pairs_eq, maxWithNat_eq]
  simp only []
  by_cases h : (Spec.pairsValid xs ys).length ≥ max mp 2
  · have h' : ¬ (Spec.pairsValid xs ys).length < max mp 2 := by omega
    have hn : (Spec.pairsValid xs ys).length ≠ 0 := by omega
    have hnq : ((Spec.pairsValid xs ys).length : Rat) ≠ 0 := by exact_mod_cast hn
    simp only [h, h', if_true, if_false]
    rw [pairVarA _ hn, pairVarB _ hn, corr_num _ hn, EPS_eq]
    by_cases hv : Tv.Spec.cmom 2 ((Spec.pairsValid xs ys).map (·.1)) > Tv.Spec.EPS ∧
        Tv.Spec.cmom 2 ((Spec.pairsValid xs ys).map (·.2)) > Tv.Spec.EPS
    · have hv' : ¬ (Tv.Spec.cmom 2 ((Spec.pairsValid xs ys).map (·.1)) ≤ Tv.Spec.EPS ∨
          Tv.Spec.cmom 2 ((Spec.pairsValid xs ys).map (·.2)) ≤ Tv.Spec.EPS) := by
        intro hc; rcases hc with hc | hc
        · exact absurd hv.1 (not_lt.mpr hc)
        · exact absurd hv.2 (not_lt.mpr hc)
      have hA : Tv.Spec.cmom 2 ((Spec.pairsValid xs ys).map (·.1)) ≠ 0 :=
        ne_of_gt (lt_trans EPS_pos hv.1)
      have hB : Tv.Spec.cmom 2 ((Spec.pairsValid xs ys).map (·.2)) ≠ 0 :=
        ne_of_gt (lt_trans EPS_pos hv.2)
      simp only [hv, hv', and_self, if_true, if_false]
      have hpos : (0 : Rat) < ((Spec.pairsValid xs ys).length : Rat) := by
        have : 0 < (Spec.pairsValid xs ys).length := by omega
        exact_mod_cast this
      rw [sgn_eq, sgn_div_pos _ _ hpos, corr_sq _ _ _ _ hnq hA hB,
        csum2_eq_n_mul_cmom2 _ (by simpa using hn), csum2_eq_n_mul_cmom2 _ (by simpa using hn)]
      simp only [List.length_map]
    · have hv' : (Tv.Spec.cmom 2 ((Spec.pairsValid xs ys).map (·.1)) ≤ Tv.Spec.EPS ∨
          Tv.Spec.cmom 2 ((Spec.pairsValid xs ys).map (·.2)) ≤ Tv.Spec.EPS) := by
        by_contra hc
        apply hv
        constructor
        · exact not_le.mp (fun h1 => hc (Or.inl h1))
        · exact not_le.mp (fun h1 => hc (Or.inr h1))
      simp only [hv, hv', if_true, if_false]
  · have h' : (Spec.pairsValid xs ys).length < max mp 2 := by omega
    simp [h, h']

/-! ## masked aggregations -/

/-- `n_vsum_filter`: count and sum of the non-null elements whose mask entry is a valid `true`. -/
theorem n_vsum_filter_exact (xs : List (Option Rat)) (ms : List (Option Bool)) :
    nVsumFilter xs ms = Spec.nVsumFilter xs ms := by
  unfold nVsumFilter Spec.nVsumFilter
  rw [vfoldN_eq, valid_keepFlag, foldl_add_eq]; simp

/-- `n_sum_filter`: that sum, null iff nothing is selected. -/
theorem n_sum_filter_exact (xs : List (Option Rat)) (ms : List (Option Bool)) :
    nSumFilter xs ms = Spec.nSumFilter xs ms := by
  unfold nSumFilter Spec.nSumFilter
  rw [n_vsum_filter_exact]; unfold Spec.nVsumFilter
  by_cases h : (Spec.selected xs ms).length < 1
  · have : ¬ (Spec.selected xs ms).length > 0 := by omega
    simp [h, this]
  · have : (Spec.selected xs ms).length > 0 := by omega
    simp [h, this]

/-- `vmean_filter`: mean of the selected elements; null iff fewer than `min_periods` are
selected (`0/0` when `min_periods = 0` and nothing is selected). -/
theorem vmean_filter_exact (mp : Nat) (xs : List (Option Rat)) (ms : List (Option Bool)) :
    vmeanFilter mp xs ms = Spec.vmeanFilter mp xs ms := by
  unfold vmeanFilter Spec.vmeanFilter
  rw [n_vsum_filter_exact]; unfold Spec.nVsumFilter
  by_cases h : (Spec.selected xs ms).length < mp
  · have : ¬ (Spec.selected xs ms).length ≥ mp := by omega
    simp [h, this]
  · have h' : (Spec.selected xs ms).length ≥ mp := by omega
    simp only [h, h', if_true, if_false]
    unfold Out.div
    by_cases h0 : (Spec.selected xs ms).length = 0
    · simp [h0]
    · have : ((Spec.selected xs ms).length : Rat) ≠ 0 := by exact_mod_cast h0
      simp [h0, this, Tv.Spec.mean]

/-! ## plain aggregations (`AggBasic`; null-free input, DESIGN 5.6) -/

/-- `count_value`: number of elements equal to the value. -/
theorem count_value_exact [DecidableEq α] (v : α) (xs : List α) :
    countValueP v xs = Spec.countEq v xs := by
  unfold countValueP Spec.countEq
  rw [foldl_count (fun x => x = v)]; simp

/-- `any` / `all` on booleans. -/
theorem any_exact (xs : List Bool) : anyP xs = xs.contains true := any_id_eq xs
theorem all_exact (xs : List Bool) : allP xs = !xs.contains false := all_id_eq xs

/-- `first` / `last` element. -/
theorem first_exact (xs : List α) : firstP xs = xs.head? := rfl
theorem last_exact (xs : List α) : lastP xs = xs.getLast? := by
  unfold lastP firstP; exact List.head?_reverse

/-- `n_sum`: length and sum (null on the empty series). -/
theorem n_sum_exact (xs : List Rat) : nSumP xs = (xs.length, Spec.sumPlain xs) := by
  unfold nSumP Spec.sumPlain
  rw [foldl_nsum]
  by_cases h : xs.length < 1
  · simp [h]
  · simp [h]

theorem sum_exact (xs : List Rat) : sumP xs = Spec.sumPlain xs := by
  unfold sumP; rw [n_sum_exact]

theorem mean_exact (xs : List Rat) : meanP xs = Spec.meanPlain xs := by
  unfold meanP; rw [n_sum_exact]
  unfold Spec.sumPlain Spec.meanPlain
  by_cases h : xs.length < 1 <;> simp [h, Tv.Spec.mean]

theorem min_exact (xs : List Rat) : minP xs = Spec.least xs := by
  unfold minP
  rw [least_eq, ← foldl_extStep_eq_extFind leR_good]
  congr 1
  funext acc x
  cases acc <;> simp [extStep, minWith_eq]

theorem max_exact (xs : List Rat) : maxP xs = Spec.greatest xs := by
  unfold maxP
  rw [greatest_eq, ← foldl_extStep_eq_extFind geR_good]
  congr 1
  funext acc x
  cases acc <;> simp [extStep, maxWith_eq]

theorem argminP_eq_vargmin (xs : List Rat) : argminP xs = vargmin (xs.map some) := by
  unfold argminP vargmin
  rw [List.foldl_map]; rfl

theorem argmaxP_eq_vargmax (xs : List Rat) : argmaxP xs = vargmax (xs.map some) := by
  unfold argmaxP vargmax
  rw [List.foldl_map]; rfl

/-- `argmin`: position of the first occurrence of the least element. -/
theorem argmin_exact (xs : List Rat) : argminP xs = Spec.argmin xs := by
  rw [argminP_eq_vargmin, vargmin_exact]
  unfold Spec.vargmin Spec.argmin
  rw [valid_map_some]
  cases Spec.least xs with
  | none => rfl
  | some m =>
    simp only [List.findIdx?_map]
    congr 1
    funext x; simp

/-- `argmax`: position of the first occurrence of the greatest element. -/
theorem argmax_exact (xs : List Rat) : argmaxP xs = Spec.argmax xs := by
  rw [argmaxP_eq_vargmax, vargmax_exact]
  unfold Spec.vargmax Spec.argmax
  rw [valid_map_some]
  cases Spec.greatest xs with
  | none => rfl
  | some m =>
    simp only [List.findIdx?_map]
    congr 1
    funext x; simp


/-! ## null exactly when fewer than the required number of valid observations exist

`req`: sum / mean / extrema 1, variance / std / covariance / correlation 2, skewness 3,
kurtosis 4, each combined with `min_periods` by `max`. `Out.degen` (a `0/0`) is not `Out.null`;
the `_nan_iff` variants cover both. -/

theorem vsum_null_iff (xs : List (Option Rat)) : vsum xs = .null ↔ (valid xs).length < 1 := by
  rw [vsum_exact]; unfold Spec.vsum
  by_cases h : (valid xs).length < 1 <;> simp [h]

theorem vmean_null_iff (xs : List (Option Rat)) : vmean xs = .null ↔ (valid xs).length < 1 := by
  rw [vmean_exact]; unfold Spec.vmean
  by_cases h : (valid xs).length < 1 <;> simp [h]

theorem vvar_null_iff (mp : Nat) (xs : List (Option Rat)) :
    vvar mp xs = .null ↔ (valid xs).length < max mp 2 := by
  rw [vvar_exact]; unfold Spec.vvar Spec.req
  by_cases h : (valid xs).length < max mp 2
  · simp [h]
  · by_cases h2 : Tv.Spec.cmom 2 (valid xs) ≤ Tv.Spec.EPS <;> simp [h, h2]

theorem vstd_null_iff (mp : Nat) (xs : List (Option Rat)) :
    vstd mp xs = .null ↔ (valid xs).length < max mp 2 := by
  rw [vstd_exact]; unfold Spec.vstd Spec.req
  by_cases h : (valid xs).length < max mp 2
  · simp [h]
  · by_cases h2 : Tv.Spec.cmom 2 (valid xs) ≤ Tv.Spec.EPS <;> simp [h, h2]

/-- the mean component of `vmean_var` is NaN (null or `0/0`) iff `n < max min_periods 1` -/
theorem vmean_var_mean_nan_iff (mp : Nat) (xs : List (Option Rat)) :
    ((vmeanVar mp xs).1 = .null ∨ (vmeanVar mp xs).1 = .degen) ↔ (valid xs).length < max mp 1 := by
  rw [vmean_var_exact]; unfold Spec.vmeanVar Spec.vmeanMp
  by_cases h : (valid xs).length < mp
  · have : (valid xs).length < max mp 1 := by omega
    simp [h, this]
  · by_cases h0 : (valid xs).length = 0
    · have : (valid xs).length < max mp 1 := by omega
      have hmp : mp = 0 := by omega
      simp [h0, hmp]
    · have : ¬ (valid xs).length < max mp 1 := by omega
      simp [h, h0, this]

theorem vmean_var_var_null_iff (mp : Nat) (xs : List (Option Rat)) :
    (vmeanVar mp xs).2 = .null ↔ (valid xs).length < max mp 2 := vvar_null_iff mp xs

theorem vskew_null_iff (mp : Nat) (xs : List (Option Rat)) :
    vskew mp xs = .null ↔ (valid xs).length < max mp 3 := by
  rw [vskew_exact]; unfold Spec.vskew Spec.req
  by_cases h : (valid xs).length < max mp 3
  · simp [h]
  · by_cases h2 : Tv.Spec.cmom 2 (valid xs) ≤ Tv.Spec.EPS
    · simp [h, h2]
    · simp only [h, h2, if_false]
      unfold Spec.skewOf Spec.sroot
      by_cases h3 : Tv.Spec.cmom 3 (valid xs) = 0 <;> simp [h3]

theorem vkurt_null_iff (mp : Nat) (xs : List (Option Rat)) :
    vkurt mp xs = .null ↔ (valid xs).length < max mp 4 := by
  rw [vkurt_exact]; unfold Spec.vkurt Spec.req
  by_cases h : (valid xs).length < max mp 4
  · simp [h]
  · by_cases h2 : Tv.Spec.cmom 2 (valid xs) ≤ Tv.Spec.EPS <;> simp [h, h2]

theorem vmin_none_iff (xs : List (Option Rat)) : vmin xs = none ↔ (valid xs).length < 1 := by
  rw [vmin_exact]; unfold Spec.vmin
  rw [least_eq, extFind_eq_none_iff leR_good]
  cases valid xs <;> simp

theorem vmax_none_iff (xs : List (Option Rat)) : vmax xs = none ↔ (valid xs).length < 1 := by
  rw [vmax_exact]; unfold Spec.vmax
  rw [greatest_eq, extFind_eq_none_iff geR_good]
  cases valid xs <;> simp

theorem vargmin_none_iff (xs : List (Option Rat)) : vargmin xs = none ↔ (valid xs).length < 1 := by
  constructor
  · intro h
    by_contra hc
    have hne : valid xs ≠ [] := by intro h0; rw [h0] at hc; simp at hc
    have hs := extFind_isSome leR_good (valid xs) hne
    obtain ⟨m, hm⟩ := Option.isSome_iff_exists.mp hs
    have hext := (extFind_eq_some_iff leR_good _ _).mp hm
    rw [vargmin_exact] at h
    unfold Spec.vargmin at h
    rw [least_eq, hm] at h
    simp only [] at h
    rw [List.findIdx?_eq_none_iff] at h
    have := h (some m) (mem_valid.mp hext.1)
    simp at this
  · intro h
    have h0 : valid xs = [] := by cases hv : valid xs with
      | nil => rfl
      | cons a t => rw [hv] at h; simp at h
    rw [vargmin_exact]; unfold Spec.vargmin; rw [h0]; rfl

theorem vargmax_none_iff (xs : List (Option Rat)) : vargmax xs = none ↔ (valid xs).length < 1 := by
  constructor
  · intro h
    by_contra hc
    have hne : valid xs ≠ [] := by intro h0; rw [h0] at hc; simp at hc
    have hs := extFind_isSome geR_good (valid xs) hne
    obtain ⟨m, hm⟩ := Option.isSome_iff_exists.mp hs
    have hext := (extFind_eq_some_iff geR_good _ _).mp hm
    rw [vargmax_exact] at h
    unfold Spec.vargmax at h
    rw [greatest_eq, hm] at h
    simp only [] at h
    rw [List.findIdx?_eq_none_iff] at h
    have := h (some m) (mem_valid.mp hext.1)
    simp at this
  · intro h
    have h0 : valid xs = [] := by cases hv : valid xs with
      | nil => rfl
      | cons a t => rw [hv] at h; simp at h
    rw [vargmax_exact]; unfold Spec.vargmax; rw [h0]; rfl

theorem vcov_null_iff (mp : Nat) (xs ys : List (Option Rat)) :
    vcov mp xs ys = .null ↔ (Spec.pairsValid xs ys).length < max mp 2 := by
  rw [vcov_exact]; unfold Spec.vcov Spec.req
  by_cases h : (Spec.pairsValid xs ys).length < max mp 2 <;> simp [h]

theorem vcorr_null_iff (mp : Nat) (xs ys : List (Option Rat)) :
    vcorr mp xs ys = .null ↔ (Spec.pairsValid xs ys).length < max mp 2 := by
  rw [vcorr_exact]; unfold Spec.vcorr Spec.req
  by_cases h : (Spec.pairsValid xs ys).length < max mp 2
  · simp [h]
  · simp only [h, if_false]
    split <;> simp

theorem n_sum_filter_null_iff (xs : List (Option Rat)) (ms : List (Option Bool)) :
    nSumFilter xs ms = .null ↔ (Spec.selected xs ms).length < 1 := by
  rw [n_sum_filter_exact]; unfold Spec.nSumFilter
  by_cases h : (Spec.selected xs ms).length < 1 <;> simp [h]

/-- `vmean_filter` is NaN (null or `0/0`) iff fewer than `max min_periods 1` elements are
selected -/
theorem vmean_filter_nan_iff (mp : Nat) (xs : List (Option Rat)) (ms : List (Option Bool)) :
    (vmeanFilter mp xs ms = .null ∨ vmeanFilter mp xs ms = .degen)
      ↔ (Spec.selected xs ms).length < max mp 1 := by
  rw [vmean_filter_exact]; unfold Spec.vmeanFilter
  by_cases h : (Spec.selected xs ms).length < mp
  · have : (Spec.selected xs ms).length < max mp 1 := by omega
    simp [h, this]
  · by_cases h0 : (Spec.selected xs ms).length = 0
    · have hmp : mp = 0 := by omega
      simp [h0, hmp]
    · have : ¬ (Spec.selected xs ms).length < max mp 1 := by omega
      simp [h, h0, this]

/-! ## the variance floor (DESIGN 5.6) -/

/-- outside the floor band the reported variance IS the textbook sample variance -/
theorem vvar_textbook (mp : Nat) (xs : List (Option Rat)) (hn : max mp 2 ≤ (valid xs).length)
    (hv : Tv.Spec.cmom 2 (valid xs) = 0 ∨ Tv.Spec.cmom 2 (valid xs) > Tv.Spec.EPS) :
    vvar mp xs = .val (Spec.sampleVar (valid xs)) := by
  rw [vvar_exact]; unfold Spec.vvar Spec.req
  have h : ¬ (valid xs).length < max mp 2 := by omega
  simp only [h, if_false]
  rcases hv with hv | hv
  · have : Tv.Spec.cmom 2 (valid xs) ≤ Tv.Spec.EPS := by rw [hv]; exact le_of_lt EPS_pos
    simp only [this, if_true]
    unfold Spec.sampleVar
    rw [csum2_eq_n_mul_cmom2 _ (by omega), hv]; simp
  · have : ¬ Tv.Spec.cmom 2 (valid xs) ≤ Tv.Spec.EPS := not_le.mpr hv
    simp only [this, if_false]

/-- unconditionally the reported variance is within `2·EPS` of the textbook sample variance -/
theorem vvar_floor_bound (mp : Nat) (xs : List (Option Rat)) (hn : max mp 2 ≤ (valid xs).length) :
    ∃ v, vvar mp xs = .val v ∧ |v - Spec.sampleVar (valid xs)| ≤ 2 * Tv.Spec.EPS := by
  rw [vvar_exact]; unfold Spec.vvar Spec.req
  have h : ¬ (valid xs).length < max mp 2 := by omega
  simp only [h, if_false]
  by_cases hv : Tv.Spec.cmom 2 (valid xs) ≤ Tv.Spec.EPS
  · refine ⟨0, by simp [hv], ?_⟩
    have h2 : (2 : Rat) ≤ ((valid xs).length : Rat) := by
      have : 2 ≤ (valid xs).length := by omega
      exact_mod_cast this
    have hsv : Spec.sampleVar (valid xs)
        = Tv.Spec.cmom 2 (valid xs) * ((valid xs).length : Rat) / (((valid xs).length : Rat) - 1) := by
      unfold Spec.sampleVar; rw [csum2_eq_n_mul_cmom2 _ (by omega)]
    have hpos : (0 : Rat) < ((valid xs).length : Rat) - 1 := by linarith
    have h0 := cmom2_nonneg (valid xs)
    have hge : 0 ≤ Spec.sampleVar (valid xs) := by
      rw [hsv]; exact div_nonneg (mul_nonneg h0 (by linarith)) (le_of_lt hpos)
    have hle : Spec.sampleVar (valid xs) ≤ 2 * Tv.Spec.EPS := by
      rw [hsv, div_le_iff₀ hpos]
      have e := EPS_pos
      nlinarith
    rw [zero_sub, abs_neg, abs_of_nonneg hge]; exact hle
  · refine ⟨Spec.sampleVar (valid xs), by simp [hv], ?_⟩
    rw [sub_self, abs_zero]
    have := EPS_pos
    linarith

/-! ## finding F10: the pinned `vmean_var` reported variance 0 for a single observation -/

/-- witness on the model of the PINNED code: one observation, variance `0` instead of null -/
theorem vvar_pinned_wrong :
    vvarPinned 0 [some 5] = .val 0 ∧ Spec.vvar 0 [some 5] = .null ∧ vvar 0 [some 5] = .null := by
  refine ⟨?_, ?_, ?_⟩
  · unfold vvarPinned vmeanVarPinned pows Pow.pvar
    simp only [List.foldl_cons, List.foldl_nil, Pow.step, Pow.zero]
    norm_num [EPS]
  · unfold Spec.vvar Spec.req; simp
  · rw [vvar_exact]; unfold Spec.vvar Spec.req; simp

/-- the pinned model disagrees with the spec for EVERY series with exactly one valid element
(`min_periods ≤ 1`); the repaired one agrees everywhere (`vvar_exact`) -/
theorem vvar_pinned_wrong_all (mp : Nat) (xs : List (Option Rat)) (h1 : (valid xs).length = 1)
    (hmp : mp ≤ 1) : vvarPinned mp xs = .val 0 ∧ Spec.vvar mp xs = .null := by
  constructor
  · unfold vvarPinned vmeanVarPinned
    simp only [pows_n, h1]
    have hp : (pows xs).pvar = 0 := by
      rw [pows_pvar xs (by omega)]
      obtain ⟨a, ha⟩ := List.length_eq_one_iff.mp h1
      rw [ha]; simp [Tv.Spec.cmom, Tv.Spec.csum, Tv.Spec.mean, Tv.Spec.sum]
    have : ¬ 1 < mp := by omega
    have he : (0 : Rat) ≤ EPS := by rw [EPS_eq]; exact le_of_lt EPS_pos
    simp [this, hp, he]
  · unfold Spec.vvar Spec.req
    have : (valid xs).length < max mp 2 := by omega
    simp [this]


/-! ## invariance under any permutation of the input (the symmetric aggregations)

`vfirst`, `vlast`, `vargmin`, `vargmax` (and their plain versions) are positional and are not
in this list. For two series / a masked series the permutation acts on the zipped pairs. -/

section Perm
variable {xs ys : List (Option Rat)}

theorem count_valid_perm {xs ys : List (Option α)} (h : xs.Perm ys) :
    countValid xs = countValid ys := by
  rw [count_valid_exact, count_valid_exact]; exact (valid_perm h).length_eq

theorem count_none_perm {xs ys : List (Option α)} (h : xs.Perm ys) :
    countNone xs = countNone ys := by
  rw [count_none_exact, count_none_exact]; exact filter_length_perm _ h

theorem vcount_value_perm [DecidableEq α] (v : Option α) {xs ys : List (Option α)}
    (h : xs.Perm ys) : vcountValue v xs = vcountValue v ys := by
  rw [vcount_value_exact, vcount_value_exact]; exact filter_length_perm _ h

theorem vany_perm {xs ys : List (Option Bool)} (h : xs.Perm ys) : vany xs = vany ys := by
  rw [vany_exact, vany_exact]; exact contains_perm (valid_perm h)

theorem vall_perm {xs ys : List (Option Bool)} (h : xs.Perm ys) : vall xs = vall ys := by
  rw [vall_exact, vall_exact]; unfold Spec.allValid; rw [contains_perm (valid_perm h)]

theorem vsum_perm (h : xs.Perm ys) : vsum xs = vsum ys := by
  rw [vsum_exact, vsum_exact]; unfold Spec.vsum
  simp only [(valid_perm h).length_eq, sum_perm (valid_perm h)]

theorem vmean_perm (h : xs.Perm ys) : vmean xs = vmean ys := by
  rw [vmean_exact, vmean_exact]; unfold Spec.vmean
  simp only [(valid_perm h).length_eq, mean_perm (valid_perm h)]

theorem vvar_perm (mp : Nat) (h : xs.Perm ys) : vvar mp xs = vvar mp ys := by
  rw [vvar_exact, vvar_exact]; unfold Spec.vvar
  simp only [(valid_perm h).length_eq, cmom_perm 2 (valid_perm h), sampleVar_perm (valid_perm h)]

theorem vmean_var_perm (mp : Nat) (h : xs.Perm ys) : vmeanVar mp xs = vmeanVar mp ys := by
  rw [vmean_var_exact, vmean_var_exact]; unfold Spec.vmeanVar Spec.vmeanMp
  have := vvar_perm mp h
  rw [vvar_exact, vvar_exact] at this
  simp only [(valid_perm h).length_eq, mean_perm (valid_perm h), this]

theorem vstd_perm (mp : Nat) (h : xs.Perm ys) : vstd mp xs = vstd mp ys := by
  unfold vstd; rw [vvar_perm mp h]

theorem vskew_perm (mp : Nat) (h : xs.Perm ys) : vskew mp xs = vskew mp ys := by
  rw [vskew_exact, vskew_exact]; unfold Spec.vskew
  simp only [(valid_perm h).length_eq, cmom_perm 2 (valid_perm h), skewOf_perm (valid_perm h)]

theorem vkurt_perm (mp : Nat) (h : xs.Perm ys) : vkurt mp xs = vkurt mp ys := by
  rw [vkurt_exact, vkurt_exact]; unfold Spec.vkurt
  simp only [(valid_perm h).length_eq, cmom_perm 2 (valid_perm h), kurtOf_perm (valid_perm h)]

theorem vmin_perm (h : xs.Perm ys) : vmin xs = vmin ys := by
  rw [vmin_exact, vmin_exact]; exact least_perm (valid_perm h)

theorem vmax_perm (h : xs.Perm ys) : vmax xs = vmax ys := by
  rw [vmax_exact, vmax_exact]; exact greatest_perm (valid_perm h)

theorem vcov_perm (mp : Nat) {xs' ys' : List (Option Rat)}
    (h : (xs.zip ys).Perm (xs'.zip ys')) : vcov mp xs ys = vcov mp xs' ys' := by
  rw [vcov_exact, vcov_exact]; unfold Spec.vcov
  have hp := pairsValid_perm h
  simp only [hp.length_eq, ccross_perm hp]

theorem vcorr_perm (mp : Nat) {xs' ys' : List (Option Rat)}
    (h : (xs.zip ys).Perm (xs'.zip ys')) : vcorr mp xs ys = vcorr mp xs' ys' := by
  rw [vcorr_exact, vcorr_exact]; unfold Spec.vcorr
  have hp := pairsValid_perm h
  have ha := hp.map (·.1)
  have hb := hp.map (·.2)
  simp only [hp.length_eq, ccross_perm hp, cmom_perm 2 ha, cmom_perm 2 hb, mean_perm ha,
    mean_perm hb, csum_perm 2 _ ha, csum_perm 2 _ hb]

theorem n_vsum_filter_perm {xs' : List (Option Rat)} {ms ms' : List (Option Bool)}
    (h : (xs.zip ms).Perm (xs'.zip ms')) : nVsumFilter xs ms = nVsumFilter xs' ms' := by
  rw [n_vsum_filter_exact, n_vsum_filter_exact]; unfold Spec.nVsumFilter
  rw [(selected_perm h).length_eq, sum_perm (selected_perm h)]

theorem n_sum_filter_perm {xs' : List (Option Rat)} {ms ms' : List (Option Bool)}
    (h : (xs.zip ms).Perm (xs'.zip ms')) : nSumFilter xs ms = nSumFilter xs' ms' := by
  unfold nSumFilter; rw [n_vsum_filter_perm h]

theorem vmean_filter_perm (mp : Nat) {xs' : List (Option Rat)} {ms ms' : List (Option Bool)}
    (h : (xs.zip ms).Perm (xs'.zip ms')) : vmeanFilter mp xs ms = vmeanFilter mp xs' ms' := by
  unfold vmeanFilter; rw [n_vsum_filter_perm h]

theorem count_value_perm [DecidableEq α] (v : α) {a b : List α} (h : a.Perm b) :
    countValueP v a = countValueP v b := by
  rw [count_value_exact, count_value_exact]; exact filter_length_perm _ h

theorem any_perm {a b : List Bool} (h : a.Perm b) : anyP a = anyP b := by
  rw [any_exact, any_exact]; exact contains_perm h

theorem all_perm {a b : List Bool} (h : a.Perm b) : allP a = allP b := by
  rw [all_exact, all_exact, contains_perm h]

theorem sum_plain_perm {a b : List Rat} (h : a.Perm b) : sumP a = sumP b := by
  rw [sum_exact, sum_exact]; unfold Spec.sumPlain; rw [h.length_eq, sum_perm h]

theorem mean_plain_perm {a b : List Rat} (h : a.Perm b) : meanP a = meanP b := by
  rw [mean_exact, mean_exact]; unfold Spec.meanPlain; rw [h.length_eq, mean_perm h]

theorem min_perm {a b : List Rat} (h : a.Perm b) : minP a = minP b := by
  rw [min_exact, min_exact]; exact least_perm h

theorem max_perm {a b : List Rat} (h : a.Perm b) : maxP a = maxP b := by
  rw [max_exact, max_exact]; exact greatest_perm h

end Perm

/-! ## null transparency: `g xs = g (xs.filter isSome)` (reused by C08) -/

section Filter
variable (xs : List (Option Rat))

theorem count_valid_filter (xs : List (Option α)) :
    countValid (xs.filter (·.isSome)) = countValid xs := by
  rw [count_valid_exact, count_valid_exact]; unfold Spec.countValid; rw [valid_filter_isSome]

theorem vfirst_filter (xs : List (Option α)) : vfirst (xs.filter (·.isSome)) = vfirst xs := by
  rw [vfirst_exact, vfirst_exact]; unfold Spec.firstValid; rw [valid_filter_isSome]

theorem vlast_filter (xs : List (Option α)) : vlast (xs.filter (·.isSome)) = vlast xs := by
  rw [vlast_exact, vlast_exact]; unfold Spec.lastValid; rw [valid_filter_isSome]

theorem vany_filter (xs : List (Option Bool)) : vany (xs.filter (·.isSome)) = vany xs := by
  rw [vany_exact, vany_exact]; unfold Spec.anyValid; rw [valid_filter_isSome]

theorem vall_filter (xs : List (Option Bool)) : vall (xs.filter (·.isSome)) = vall xs := by
  rw [vall_exact, vall_exact]; unfold Spec.allValid; rw [valid_filter_isSome]

theorem vsum_filter : vsum (xs.filter (·.isSome)) = vsum xs := by
  rw [vsum_exact, vsum_exact]; unfold Spec.vsum; rw [valid_filter_isSome]

theorem vmean_filter : vmean (xs.filter (·.isSome)) = vmean xs := by
  rw [vmean_exact, vmean_exact]; unfold Spec.vmean; rw [valid_filter_isSome]

theorem vmean_var_filter (mp : Nat) : vmeanVar mp (xs.filter (·.isSome)) = vmeanVar mp xs := by
  rw [vmean_var_exact, vmean_var_exact]; unfold Spec.vmeanVar Spec.vmeanMp Spec.vvar
  rw [valid_filter_isSome]

theorem vvar_filter (mp : Nat) : vvar mp (xs.filter (·.isSome)) = vvar mp xs := by
  unfold vvar; rw [vmean_var_filter]

theorem vstd_filter (mp : Nat) : vstd mp (xs.filter (·.isSome)) = vstd mp xs := by
  unfold vstd; rw [vvar_filter]

theorem vskew_filter (mp : Nat) : vskew mp (xs.filter (·.isSome)) = vskew mp xs := by
  rw [vskew_exact, vskew_exact]; unfold Spec.vskew; rw [valid_filter_isSome]

theorem vkurt_filter (mp : Nat) : vkurt mp (xs.filter (·.isSome)) = vkurt mp xs := by
  rw [vkurt_exact, vkurt_exact]; unfold Spec.vkurt; rw [valid_filter_isSome]

theorem vmin_filter : vmin (xs.filter (·.isSome)) = vmin xs := by
  rw [vmin_exact, vmin_exact]; unfold Spec.vmin; rw [valid_filter_isSome]

theorem vmax_filter : vmax (xs.filter (·.isSome)) = vmax xs := by
  rw [vmax_exact, vmax_exact]; unfold Spec.vmax; rw [valid_filter_isSome]

/-- counting a non-null value ignores the nulls -/
theorem vcount_value_filter [DecidableEq α] (c : α) (xs : List (Option α)) :
    vcountValue (some c) (xs.filter (·.isSome)) = vcountValue (some c) xs := by
  unfold vcountValue
  simp only []
  rw [vfold_eq, vfold_eq, valid_filter_isSome]

end Filter

/-! ## ties to the Rust sources (regenerated by translator/extract.py on every run) -/

/-- the `n >= k` / `n < k` / `max_with(k)` constants of the Rust bodies are the ones modelled -/
theorem agg_min_obs_matches : Generated.aggMinObs = minObsTable := by decide

/-- `EPS` of tea-core/src/prelude.rs is the model's (and the spec's) floor -/
theorem eps_matches : EPS = (Generated.epsNum : Rat) / (Generated.epsDen : Rat) := by
  norm_num [EPS, Generated.epsNum, Generated.epsDen]

/-! ## non-vacuity: the hypotheses / branches are inhabited by concrete canonical series -/

/-- three valid observations among nulls: every moment is non-null -/
example : vsum [some 1, none, some 2, some 4] = .val 7 := by
  rw [vsum_exact]
  simp [Spec.vsum, valid, Tv.Spec.sum]
  norm_num

example : (valid [some (1 : Rat), none, some 2, some 4]).length = 3 := by decide

/-- the hypotheses of `vvar_textbook` / `vvar_floor_bound` hold for `[1, null, 3]`, `mp = 2` -/
example : max 2 2 ≤ (valid [some (1 : Rat), none, some 3]).length := by decide

/-- `argmin_first` is not vacuous: ties are present and the first one is reported -/
example : vargmin [none, some 2, some (-1), some (-1)] = some 2 := by
  rw [vargmin_exact]
  unfold Spec.vargmin Spec.least
  simp [valid, List.find?, List.findIdx?, List.findIdx?.go]
  norm_num

/-- a permutation with nulls moved around -/
example : [some (1 : Rat), none, some 3].Perm [none, some 3, some 1] := by decide

end Tv.C11
