import Tv.Lemmas.C15
import Tv.Lemmas.C15Ord
import Tv.Lemmas.C15Str
import Tv.Generated
/-!
# C15 — null and cast algebra is coherent across all element types

Property theorems. Part 1: every `IsNone` instance is `Lawful`. Part 2: the extracted macro
tables equal the tables the model is built from. Part 3: the cast laws on the whole numeric /
bool / Option lattice, and on the String and time arms. Part 4: the sort comparators are total
preorders ordering non-nulls by value with nulls last in both directions.
-/
namespace Tv.C15

/-! ## Part 1 — the instances -/

/-- `impl IsNone for f32 / f64` satisfies every law (all values are canonical) -/
theorem floatRepr_lawful : Lawful floatRepr (fun _ => True) where
  isNone_iff_toOpt x := by simp only [floatRepr]; cases isNanV x <;> simp
  notNone_eq_not _ := rfl
  asOpt_eq_toOpt _ := rfl
  none_isNone n h := by simp only [floatRepr] at h ⊢; cases h; rfl
  fromInner_unwrap x _ _ := ⟨x, rfl, rfl⟩
  fromOpt_toOpt x _ := by
    simp only [floatRepr, NullRepr.fromOpt]
    by_cases h : isNanV x = true
    · simp only [h, if_true]; rw [(isNanV_eq x).1 h]
    · simp only [h]; rfl

/-- the `impl_not_none!` instance (bool, u8, i32, i64, isize, u64, usize) satisfies every law;
`none()` panics, so `none_isNone` holds vacuously and says so -/
theorem neverRepr_lawful : Lawful neverRepr (fun _ => True) where
  isNone_iff_toOpt _ := rfl
  notNone_eq_not _ := rfl
  asOpt_eq_toOpt _ := rfl
  none_isNone n h := by simp [neverRepr] at h
  fromInner_unwrap x _ _ := ⟨x, rfl, rfl⟩
  fromOpt_toOpt _ _ := rfl

/-- `impl IsNone for String` / `&str` -/
theorem strRepr_lawful : Lawful strRepr (fun _ => True) where
  isNone_iff_toOpt x := by simp only [strRepr]; cases isNoneStr x <;> simp
  notNone_eq_not _ := rfl
  asOpt_eq_toOpt _ := rfl
  none_isNone n h := by simp only [strRepr] at h ⊢; cases h; rfl
  fromInner_unwrap x _ _ := ⟨x, rfl, rfl⟩
  fromOpt_toOpt x _ := by
    simp only [strRepr, NullRepr.fromOpt]
    by_cases h : isNoneStr x = true
    · simp only [h, if_true]; rw [(isNoneStr_eq x).1 h]
    · simp only [h]; rfl

/-- `impl IsNone for DateTime<U>` / `Time` on stored integers -/
theorem timeRepr_lawful : Lawful timeRepr (fun x => ∃ i, x = .int i) where
  isNone_iff_toOpt x := by simp only [timeRepr]; cases isNatV x <;> simp
  notNone_eq_not _ := rfl
  asOpt_eq_toOpt _ := rfl
  none_isNone n h := by simp only [timeRepr] at h ⊢; cases h; rfl
  fromInner_unwrap x _ _ := ⟨x, rfl, rfl⟩
  fromOpt_toOpt x hx := by
    obtain ⟨i, rfl⟩ := hx
    simp only [timeRepr, NullRepr.fromOpt, isNatV]
    by_cases h : (i == i64Min) = true
    · simp only [h, if_true]; rw [eq_of_beq h]
    · simp only [h]; rfl

/-- `impl IsNone for TimeDelta`; canonical NaT is `{ months: i32::MIN, inner: 0 }` -/
theorem tdRepr_lawful : Lawful tdRepr (fun x => ∃ m n, x = .td m n ∧ (m = i32Min → n = 0)) where
  isNone_iff_toOpt x := by simp only [tdRepr, timeRepr]; cases isNatV x <;> simp
  notNone_eq_not _ := rfl
  asOpt_eq_toOpt _ := rfl
  none_isNone n h := by simp only [tdRepr] at h ⊢; cases h; rfl
  fromInner_unwrap x _ _ := ⟨x, rfl, rfl⟩
  fromOpt_toOpt x hx := by
    obtain ⟨m, n, rfl, hn⟩ := hx
    simp only [tdRepr, timeRepr, NullRepr.fromOpt, isNatV]
    by_cases h : (m == i32Min) = true
    · simp only [h, if_true]
      have hm := eq_of_beq h
      rw [hm, hn hm]
    · simp only [h]; rfl

/-- `impl<T: IsNone<Inner = T>> IsNone for Option<T>` is lawful on canonical values (no
`Some(null)`) whenever `T`'s instance is -/
theorem optionRepr_lawful {R : NullRepr ι ι} {C : ι → Prop} (_h : Lawful R C) :
    Lawful (optionRepr R) (CanonOpt R C) where
  isNone_iff_toOpt _ := rfl
  notNone_eq_not x := by cases x <;> rfl
  asOpt_eq_toOpt _ := rfl
  none_isNone n h := by simp only [optionRepr] at h ⊢; cases h; rfl
  fromInner_unwrap x hx hn := by
    cases x with
    | none => simp [optionRepr] at hn
    | some v => exact ⟨v, rfl, by simp only [optionRepr]; rw [hx.2]; rfl⟩
  fromOpt_toOpt x hx := by
    cases x with
    | none => rfl
    | some v => simp only [optionRepr, NullRepr.fromOpt, id]; rw [hx.2]; rfl

/-! ## Part 2 — the extracted macro tables -/

/-- the `impl_numeric_cast!` invocations found in `cast.rs` by the translator are exactly the
pairs the model (and, through the generated include, the harness) instantiates -/
theorem castPairs_matches : Generated.castPairs = castPairs := by decide

/-- `impl_not_none!(...)` in `isnone.rs` names exactly the never-null types of the model -/
theorem notNoneTypes_matches : Generated.notNoneTypes = notNoneTypes := by decide

/-- `impl_time_cast!(...)` in `cast.rs` names exactly the time-cast targets of the model -/
theorem timeCastTypes_matches : Generated.timeCastTypes = timeCastTypes := by decide

/-- every extracted pair is a pair of distinct numeric base types of the model, and all
`8 · 7 = 56` ordered pairs of distinct numeric types are present -/
theorem castPairs_complete :
    (∀ p ∈ Generated.castPairs, isNumPair p = true) ∧
    (∀ s ∈ numTys, ∀ d ∈ numTys, s ≠ d → (s, d) ∈ Generated.castPairs) := by
  rw [castPairs_matches]; decide

/-- every type of `impl_not_none!` gets the never-null instance and the `sort_cmp` override -/
theorem notNoneTypes_instances :
    ∀ n ∈ Generated.notNoneTypes, ((Base.ofName n).map Base.notNoneImpl) = some true := by
  rw [notNoneTypes_matches]; decide


/-! ## Part 3 — the cast laws -/

/-- **uniformity of the lattice**: for all 18 x 18 pairs among the numeric types, bool and their
`Option` forms, whatever impl the compiler selects (one of the four `impl_numeric_cast!` arms, the
identity / blanket / `Option<T> → T` impls, the eight bool arms, the hand-written bool impls)
computes the same four-arm scheme around the plain conversion `convL` -/
theorem castModel_lattice (s d : Ty) (hs : s.base.inLattice = true) (hd : d.base.inLattice = true)
    (x : XV) : castModel s d x = liftCast (convL s.base d.base) s d x := by
  obtain ⟨sb, so⟩ := s
  obtain ⟨db, dopt⟩ := d
  simp only at hs hd
  have hnb : Base.isNum .bool = false := rfl
  rcases inLattice_cases sb hs with ⟨hsn, hsb⟩ | rfl
  · rcases inLattice_cases db hd with ⟨hdn, hdb⟩ | rfl
    · by_cases e : (sb == db) = true
      · have := eq_of_beq e; subst this
        simp only [castModel, castModelAt, hsn, if_true, beq_self_eq_true, convL_same, castSame_eq]
      · have e' : (sb == db) = false := by simpa using e
        simp only [castModel, castModelAt, hsn, hdn, if_true, e', convL_num sb db e' hdb hsb, castNumNum_eq,
          Bool.false_eq_true, if_false]
    · simp only [castModel, castModelAt, hsn, hnb, if_true, convL_toBool sb hsb, beq_self_eq_true,
        castNumBool_eq, Bool.false_eq_true, if_false]
  · rcases inLattice_cases db hd with ⟨hdn, hdb⟩ | rfl
    · have hne : (Base.bool == db) = false := by cases db <;> simp_all
      simp only [castModel, castModelAt, hnb, hdn, if_true, convL_fromBool db hne hdb, beq_self_eq_true,
        castBoolNum_eq, Bool.false_eq_true, if_false]
    · simp only [castModel, castModelAt, hnb, convL_same, beq_self_eq_true, if_true, castBoolBool_eq,
        Bool.false_eq_true, if_false]

/-- **null-ness is preserved** (18 x 18 lattice): when the target can represent a null, the result
of a cast is null exactly when the (typed, canonical) argument is — a null is never turned into a
value, a value never into a null. Targets without a null (`i32`, `bool`, ...) are excluded:
there `NaN as i32 = 0` and `None` panics. -/
theorem cast_null (s d : Ty) (hs : s.base.inLattice = true) (hd : d.base.inLattice = true)
    (x y : XV) (hx : Typed s x) (hn : d.nullable = true) (h : castModel s d x = .ok y) :
    xvIsNone d y = xvIsNone s x := by
  rw [castModel_lattice s d hs hd] at h
  have hconv : d.opt = false → ∀ a w, ValOf s.base a → convL s.base d.base a = .ok w →
      isNoneOf d.base w = isNoneOf s.base a := by
    intro ho a w ha hw
    obtain ⟨f, hf⟩ := lattice_nullable_plain d hd ho hn
    exact convL_null s.base d.base hs f hf a w ha hw
  obtain ⟨sb, so⟩ := s
  obtain ⟨db, dopt⟩ := d
  simp only at hconv
  rcases hx.shape with ⟨a, rfl, rfl, ha⟩ | ⟨rfl, rfl⟩ | ⟨a, rfl, rfl, ha, hnn⟩ <;> cases dopt <;>
    simp only [liftCast] at h
  · -- T → D
    obtain ⟨w, hc, rfl⟩ := Res.map_eq_ok h
    exact hconv rfl a w ha hc
  · -- T → Option<D>
    by_cases hnull : isNoneOf sb a = true
    · simp only [hnull, if_true, Res.ok.injEq] at h; subst h; simp [xvIsNone, hnull]
    · simp only [hnull, Bool.false_eq_true, if_false] at h
      obtain ⟨w, _, rfl⟩ := Res.map_eq_ok h
      simp only [xvIsNone, Option.isNone_some]
      cases hq : isNoneOf sb a <;> simp_all
  · -- Option<T> → D, None
    simp only [nullXV, Bool.false_eq_true, if_false] at h
    obtain ⟨n, hn', rfl⟩ := Res.map_eq_ok h
    simpa [xvIsNone] using noneOf_isNone db n hn'
  · -- Option<T> → Option<D>, None
    simp only [Res.ok.injEq] at h; subst h; rfl
  · -- Option<T> → D, Some
    obtain ⟨w, hc, rfl⟩ := Res.map_eq_ok h
    have := hconv rfl a w ha hc
    simp only [xvIsNone, Option.isNone_some]; rw [this]; exact hnn
  · -- Option<T> → Option<D>, Some
    obtain ⟨w, _, rfl⟩ := Res.map_eq_ok h
    rfl

/-- **a null goes to the target's null** ("null to float gives NaN, to optional gives None"): for a
nullable target the cast of a null is exactly `None` resp. `<D as IsNone>::none()` -/
theorem cast_null_value (s d : Ty) (hs : s.base.inLattice = true) (hd : d.base.inLattice = true)
    (x : XV) (hx : Typed s x) (hn : d.nullable = true) (hnull : xvIsNone s x = true) :
    castModel s d x = nullXV d := by
  rw [castModel_lattice s d hs hd]
  obtain ⟨sb, so⟩ := s
  obtain ⟨db, dopt⟩ := d
  rcases hx.shape with ⟨a, rfl, rfl, ha⟩ | ⟨rfl, rfl⟩ | ⟨a, rfl, rfl, ha, hnn⟩ <;> cases dopt <;>
    simp only [liftCast, xvIsNone, Option.isNone_some, Bool.false_eq_true] at hnull ⊢
  · -- a null float into a float: `NaN as f32 = NaN`
    obtain ⟨f, hf⟩ := lattice_nullable_plain ⟨db, false⟩ hd rfl hn
    have hsn : sb.isNum = true := by
      rcases inLattice_cases sb hs with ⟨h, _⟩ | rfl
      · exact h
      · exact absurd hnull (by simp [isNoneOf_bool])
    have ha' : a = .flt .nan := (isNanV_eq a).1 (by rw [← isNoneOf_eq_isNanV sb hsn a ha]; exact hnull)
    subst ha'
    have hsb : (sb == Base.bool) = false := (isNum_not_special sb hsn).1
    have hdb : (db == Base.bool) = false := by cases db <;> simp_all [Base.fltTy]
    have hi : db.intTy = none := by cases db <;> simp_all [Base.fltTy, Base.intTy]
    have hnone : noneOf db = .ok (.flt .nan) := by cases db <;> simp_all [Base.fltTy] <;> rfl
    simp only [nullXV, Bool.false_eq_true, if_false, hnone, Res.map, convL]
    by_cases e : (sb == db) = true
    · simp [e]
    · simp [e, hdb, hsb, arm1, asNum, hi, hf, fltToFlt]
  · simp [hnull, nullXV]
  · rfl

/-- **agreement with the language on non-null values**: the cast of a value whose `to_opt` is
`Some v` is the plain conversion of `v`, re-wrapped for the target -/
theorem cast_val (s d : Ty) (hs : s.base.inLattice = true) (hd : d.base.inLattice = true)
    (x : XV) (v : Val) (hx : Typed s x) (hv : innerOf s x = some v) :
    castModel s d x = (convL s.base d.base v).map (wrapXV d) := by
  rw [castModel_lattice s d hs hd]
  obtain ⟨sb, so⟩ := s
  obtain ⟨db, dopt⟩ := d
  rcases hx.shape with ⟨a, rfl, rfl, ha⟩ | ⟨rfl, rfl⟩ | ⟨a, rfl, rfl, ha, hnn⟩ <;> cases dopt <;>
    simp only [liftCast, innerOf] at hv ⊢
  · by_cases hnull : isNoneOf sb a = true
    · simp [hnull] at hv
    · simp only [hnull, Bool.false_eq_true, if_false, Option.some.injEq] at hv; subst hv
      cases convL sb db a <;> rfl
  · by_cases hnull : isNoneOf sb a = true
    · simp [hnull] at hv
    · simp only [hnull, Bool.false_eq_true, if_false, Option.some.injEq] at hv ⊢; subst hv
      cases convL sb db a <;> rfl
  · cases hv
  · cases hv
  · cases hv; cases convL sb db v <;> rfl
  · cases hv; cases convL sb db v <;> rfl

/-- for every extracted `impl_numeric_cast!` pair the plain conversion *is* Rust's `as`
(value-class semantics `asNum`: wrap, saturate with NaN ↦ 0, round to nearest even), so by
`cast_val` all four arms agree with `as` on non-null values -/
theorem cast_val_as (s d : Ty) (hs : s.base.isNum = true) (hd : d.base.isNum = true)
    (hne : s.base ≠ d.base) (x : XV) (v : Val) (hx : Typed s x) (hv : innerOf s x = some v) :
    castModel s d x = .ok (wrapXV d (asNum d.base v)) := by
  have hs' : s.base.inLattice = true := by simp [Base.inLattice, hs]
  have hd' : d.base.inLattice = true := by simp [Base.inLattice, hd]
  rw [cast_val s d hs' hd' x v hx hv]
  have e : (s.base == d.base) = false := by simpa using hne
  rw [convL_num s.base d.base e (isNum_not_special _ hd).1 (isNum_not_special _ hs).1]
  rfl

/-- same source and target base: the value is passed through unchanged -/
theorem cast_val_same (s d : Ty) (hs : s.base.inLattice = true) (he : s.base = d.base)
    (x : XV) (v : Val) (hx : Typed s x) (hv : innerOf s x = some v) :
    castModel s d x = .ok (wrapXV d v) := by
  rw [cast_val s d hs (he ▸ hs) x v hx hv, ← he, convL_same]; rfl

/-- **composition through `Option` on the source side**: `Some(v)` casts like `v`, `None` casts
to the target's null (`None`, NaN, or the "no null" panic) -/
theorem cast_opt_left (sb : Base) (d : Ty) (hs : sb.inLattice = true) (hd : d.base.inLattice = true) :
    (∀ v, isNoneOf sb v = false → castModel ⟨sb, true⟩ d (.o (some v)) = castModel ⟨sb, false⟩ d (.v v)) ∧
    castModel ⟨sb, true⟩ d (.o none) = nullXV d := by
  rw [castModel_lattice ⟨sb, true⟩ d hs hd]
  refine ⟨fun v hv => ?_, ?_⟩
  · rw [castModel_lattice ⟨sb, true⟩ d hs hd, castModel_lattice ⟨sb, false⟩ d hs hd]
    obtain ⟨db, dopt⟩ := d
    cases dopt <;> simp [liftCast, hv]
  · obtain ⟨db, dopt⟩ := d
    cases dopt <;> simp [liftCast, nullXV]

/-- **composition through `Option` on the target side**: casting into `Option<D>` is `None` for a
null and `Some` of the cast into `D` otherwise -/
theorem cast_opt_right (s : Ty) (db : Base) (hs : s.base.inLattice = true) (hd : db.inLattice = true)
    (x : XV) (hx : Typed s x) :
    castModel s ⟨db, true⟩ x =
      if xvIsNone s x then .ok (.o none) else (castModel s ⟨db, false⟩ x).map toOptXV := by
  rw [castModel_lattice s ⟨db, true⟩ hs hd, castModel_lattice s ⟨db, false⟩ hs hd]
  obtain ⟨sb, so⟩ := s
  rcases hx.shape with ⟨a, rfl, rfl, ha⟩ | ⟨rfl, rfl⟩ | ⟨a, rfl, rfl, ha, hnn⟩ <;>
    simp only [liftCast, xvIsNone, Option.isNone_some, Option.isNone_none, if_true, Bool.false_eq_true, if_false]
  · by_cases hnull : isNoneOf sb a = true
    · simp [hnull]
    · simp only [hnull, Bool.false_eq_true, if_false]
      cases convL sb db a <;> rfl
  · cases convL sb db a <;> rfl

/-! ### String and time arms (repaired tree) and the witnesses of the pinned behaviour -/

/-- numeric / bool → `String`: a null gives the null string `"None"`, a non-null its `to_string`,
and `Option` composes (`Some(v)` like `v`, `None` ↦ `"None"`) -/
theorem cast_str (sb : Base) (hs : sb.inLattice = true) :
    (∀ a, castModel ⟨sb, false⟩ ⟨.str, false⟩ (.v a) =
      .ok (.v (.str (if isNoneOf sb a then "None" else displayVal a)))) ∧
    (∀ v, castModel ⟨sb, true⟩ ⟨.str, false⟩ (.o (some v)) = .ok (.v (.str (displayVal v)))) ∧
    castModel ⟨sb, true⟩ ⟨.str, false⟩ (.o none) = .ok (.v (.str "None")) := by
  have hstr : Base.isNum .str = false := rfl
  rcases inLattice_cases sb hs with ⟨hsn, hsb⟩ | rfl
  · refine ⟨fun a => ?_, fun v => ?_, ?_⟩ <;>
      simp only [castModel, castModelAt, hsn, hstr, if_true, castNumStr, toStr, optToStr] <;>
      simp
    by_cases h : isNoneOf sb a = true <;> simp [h]
  · refine ⟨fun a => ?_, fun v => ?_, ?_⟩ <;>
      simp [castModel, castModelAt, castBoolStr, optBoolToStr, optToStr, isNoneOf_bool, Base.isNum, Base.intTy, Base.fltTy]

/-- pinned tree: `f64::NAN.cast::<String>()` was `"NaN"`, which is not a null string -/
theorem nan_to_str_pinned_wrong :
    castModelAt true ⟨.f64, false⟩ ⟨.str, false⟩ (.v (.flt .nan)) = .ok (.v (.str "NaN")) ∧
    isNoneStr (.str "NaN") = false := by decide

/-- **numeric / bool → String preserves null-ness in both directions**: the result is the null
string exactly when the (typed) argument is null — `to_string` of a number or bool is never
`"None"` -/
theorem cast_str_null (s : Ty) (hs : s.base.inLattice = true) (x : XV) (hx : Typed s x) (y : XV)
    (h : castModel s ⟨.str, false⟩ x = .ok y) : xvIsNone ⟨.str, false⟩ y = xvIsNone s x := by
  obtain ⟨sb, so⟩ := s
  have hv : ∀ a, ValOf sb a → (∀ t, a ≠ .str t) ∧ (∀ m n, a ≠ .td m n) := by
    intro a ha
    rcases inLattice_cases sb hs with ⟨hsn, _⟩ | rfl
    · cases sb <;> simp [Base.isNum, Base.intTy, Base.fltTy] at hsn <;> cases a <;> simp_all [ValOf]
    · cases a <;> simp_all [ValOf]
  have hstr : ∀ t : String, isNoneOf .str (.str t) = (t == "None") := fun _ => rfl
  obtain ⟨c1, c2, c3⟩ := cast_str sb hs
  rcases hx.shape with ⟨a, rfl, rfl, ha⟩ | ⟨rfl, rfl⟩ | ⟨a, rfl, rfl, ha, hnn⟩
  · rw [c1 a] at h; cases h
    simp only [xvIsNone, hstr]
    by_cases hn : isNoneOf sb a = true
    · simp [hn]
    · have := displayVal_ne_None a (hv a ha).1 (hv a ha).2
      simp [hn, this]
  · rw [c3] at h; cases h; rfl
  · rw [c2 a] at h; cases h
    have := displayVal_ne_None a (hv a ha).1 (hv a ha).2
    simp [xvIsNone, hstr, this]

/-- pinned tree: `Some(true).cast::<String>()` was `"Some(true)"` while `true.cast::<String>()`
is `"true"` — the cast did not compose through `Option` -/
theorem optbool_to_str_pinned_wrong :
    castModelAt true ⟨.bool, true⟩ ⟨.str, false⟩ (.o (some (.bool true))) = .ok (.v (.str "Some(true)")) ∧
    castModelAt true ⟨.bool, false⟩ ⟨.str, false⟩ (.v (.bool true)) = .ok (.v (.str "true")) := by decide

/-- numeric → `DateTime` / `TimeDelta` / `Time`: a null gives NaT; a non-null goes through
`as i64` (where the in-band sentinel `i64::MIN` *is* NaT); `Option` composes -/
theorem cast_time (sb db : Base) (hs : sb.isNum = true) (hd : db.isTime = true) :
    (∀ a, castModel ⟨sb, false⟩ ⟨db, false⟩ (.v a) =
      .ok (.v (if isNoneOf sb a then natOf db else fromRaw db (raw64 sb a)))) ∧
    (∀ v, castModel ⟨sb, true⟩ ⟨db, false⟩ (.o (some v)) = castModel ⟨sb, false⟩ ⟨db, false⟩ (.v v)) ∧
    castModel ⟨sb, true⟩ ⟨db, false⟩ (.o none) = .ok (.v (natOf db)) := by
  have h1 : db.isNum = false := by cases db <;> simp_all [Base.isTime, Base.isNum, Base.intTy, Base.fltTy]
  have h2 : (db == Base.bool) = false := by cases db <;> simp_all [Base.isTime]
  have h3 : (db == Base.str) = false := by cases db <;> simp_all [Base.isTime]
  refine ⟨fun a => ?_, fun v => ?_, ?_⟩ <;>
    simp [castModel, castModelAt, hs, hd, h1, h2, h3, castNumTime, toTime, optToTime]

/-- the NaT produced for a null is a null of the time type, and a non-null source gives NaT only
through the sentinel -/
theorem cast_time_null (sb db : Base) (hs : sb.isNum = true) (hd : db.isTime = true) (a : Val) (y : XV)
    (h : castModel ⟨sb, false⟩ ⟨db, false⟩ (.v a) = .ok y) :
    xvIsNone ⟨db, false⟩ y = (isNoneOf sb a || raw64 sb a == i64Min) := by
  rw [(cast_time sb db hs hd).1 a] at h
  cases h
  have hn : ∀ v, isNoneOf db v = isNatV v := by
    intro v; cases db <;> simp_all [Base.isTime] <;> rfl
  simp only [xvIsNone, hn]
  by_cases hnull : isNoneOf sb a = true
  · simp only [hnull, if_true, Bool.true_or]
    cases db <;> simp_all [Base.isTime, natOf, isNatV]
  · simp only [hnull, Bool.false_eq_true, if_false, Bool.false_or]
    unfold fromRaw
    by_cases hd' : (db == Base.td) = true
    · simp only [hd', if_true]
      by_cases hr : (raw64 sb a == i64Min) = true
      · simp [hr, isNatV]
      · simp only [hr, Bool.false_eq_true, if_false, isNatV]
        decide
    · simp only [hd', Bool.false_eq_true, if_false, isNatV]

/-- pinned tree: `f64::NAN.cast::<DateTime>()` was the epoch, not NaT -/
theorem nan_to_time_pinned_wrong :
    castModelAt true ⟨.f64, false⟩ ⟨.dt, false⟩ (.v (.flt .nan)) = .ok (.v (.int 0)) ∧
    isNatV (.int 0) = false := by decide

/-- time → float (repaired `impl_time_cast!`): NaT gives NaN -/
theorem cast_nat_to_float (tb db : Base) (ht : tb.isTime = true) (f : FltTy) (hf : db.fltTy = some f)
    (x : Val) (hx : isNatV x = true) (hv : ValOf tb x) :
    castModel ⟨tb, false⟩ ⟨db, false⟩ (.v x) = .ok (.v (.flt .nan)) ∧
    castModel ⟨tb, false⟩ ⟨db, true⟩ (.v x) = .ok (.o none) := by
  have h1 : tb.isNum = false := by cases tb <;> simp_all [Base.isTime, Base.isNum, Base.intTy, Base.fltTy]
  have h2 : (tb == Base.bool) = false := by cases tb <;> simp_all [Base.isTime]
  have h3 : tb.isStr = false := by cases tb <;> simp_all [Base.isTime, Base.isStr]
  have h4 : db.isNum = true := by cases db <;> simp_all [Base.fltTy, Base.isNum, Base.intTy]
  have h5 : (db == Base.i64) = false := by cases db <;> simp_all [Base.fltTy]
  have h6 : (db == Base.bool) = false := by cases db <;> simp_all [Base.fltTy]
  have hnone : noneOf db = .ok (.flt .nan) := by cases db <;> simp_all [Base.fltTy] <;> rfl
  have hopt : timeToOptI64 false x = .ok none := by
    cases x <;> simp_all [isNatV, timeToOptI64, ValOf] <;> cases tb <;> simp_all [ValOf]
  have harm : arm1 db (.flt .nan) = .flt .nan := by
    cases db <;> simp_all [Base.fltTy] <;> rfl
  constructor <;>
    simp [castModel, castModelAt, h1, h2, h3, h4, h5, h6, ht, castTimeNum, timeTo, timeToOpt, hopt, hx,
      Res.bind, Res.map, optI64To, arm4, hnone, harm]

/-- pinned tree: `DateTime::nat().cast::<f64>()` went through `i64::MIN as f64` and was not NaN -/
theorem nat_to_float_pinned_wrong :
    ∃ v, castModelAt true ⟨.dt, false⟩ ⟨.f64, false⟩ (.v (.int i64Min)) = .ok (.v (.flt v)) ∧ v ≠ .nan := by
  refine ⟨roundFlt f64Ty ((i64Min : Int) : Rat), ?_, roundFlt_ne_nan _ _⟩
  simp [castModelAt, castTimeNum, timeTo, timeToI64, i64To, Res.bind, Res.map, arm1, asNum,
    Base.isNum, Base.intTy, Base.fltTy, Base.isTime, Base.isStr]

/-- pinned tree: `TimeDelta::nat().cast::<Option<i64>>()` panicked; repaired: `None` -/
theorem nat_td_to_opt_i64_pinned_wrong :
    castModelAt true ⟨.td, false⟩ ⟨.i64, true⟩ (.v (.td i32Min 0)) = .panic ∧
    castModel ⟨.td, false⟩ ⟨.i64, true⟩ (.v (.td i32Min 0)) = .ok (.o none) := by decide

/-! ## Part 4 — the sort comparators

Generic over an instance `R : NullRepr α ι`, its `partial_cmp` (`pcmp`), canonical values `C`
and valid inner values `V` (`OrdSetup`); instantiated for every base type and its `Option`
form by `ordSetup_plain` / `ordSetup_option`. `le a b` is `sort_cmp a b ≠ Greater`, the
predicate `slice::sort_by` uses. -/

section Order
variable {α ι : Type} {R : NullRepr α ι} {pcmp : ι → ι → Option Ordering} {C : α → Prop} {V : ι → Prop}

/-- `sort_cmp` orders non-null values by value: it returns what `partial_cmp` returns on the
inner values, and `sort_cmp_rev` returns the reverse -/
theorem sortCmp_by_value (S : OrdSetup R pcmp C V) (inn : ι → Bool) (a b : α) (ha : C a) (hb : C b)
    (va vb : ι) (hva : R.asOpt a = some va) (hvb : R.asOpt b = some vb) :
    ∃ o, pcmp va vb = some o ∧ sortCmp R inn pcmp a b = o ∧ sortCmpRev R inn pcmp a b = o.swap := by
  obtain ⟨o, ho⟩ := S.porder.total va vb (S.valid a va ha hva) (S.valid b vb hb hvb)
  exact ⟨o, ho, by simp [sortCmp, hva, hvb, ho], by simp [sortCmpRev, hva, hvb, ho]⟩

/-- antisymmetry in the strong form Rust's sort needs: `cmp(b, a)` is the reverse of `cmp(a, b)` -/
theorem sortCmp_swap (S : OrdSetup R pcmp C V) (inn : ι → Bool) (a b : α) (ha : C a) (hb : C b) :
    sortCmp R inn pcmp b a = (sortCmp R inn pcmp a b).swap := by
  rw [sortCmp_eq_cmpNL, sortCmp_eq_cmpNL]
  exact cmpNL_swap (S.porder.toC _) _ _ (S.ov a ha) (S.ov b hb)

/-- totality: any two values are comparable -/
theorem sortCmp_total (S : OrdSetup R pcmp C V) (inn : ι → Bool) (a b : α) (ha : C a) (hb : C b) :
    sortCmp R inn pcmp a b ≠ .gt ∨ sortCmp R inn pcmp b a ≠ .gt := by
  rw [sortCmp_swap S inn a b ha hb]
  cases sortCmp R inn pcmp a b <;> simp [Ordering.swap]

/-- transitivity of `≤` -/
theorem sortCmp_trans (S : OrdSetup R pcmp C V) (inn : ι → Bool) (a b c : α) (ha : C a) (hb : C b) (hc : C c)
    (h1 : sortCmp R inn pcmp a b ≠ .gt) (h2 : sortCmp R inn pcmp b c ≠ .gt) :
    sortCmp R inn pcmp a c ≠ .gt := by
  rw [sortCmp_eq_cmpNL] at h1 h2 ⊢
  exact cmpNL_le_trans (S.porder.toC _) _ _ _ (S.ov a ha) (S.ov b hb) (S.ov c hc) h1 h2

/-- `Equal` only for equal values (the preorder is an order on canonical values) -/
theorem sortCmp_antisymm_eq (S : OrdSetup R pcmp C V) (inn : ι → Bool) (a b : α) (ha : C a) (hb : C b) :
    sortCmp R inn pcmp a b = .eq ↔ a = b := by
  rw [sortCmp_eq_cmpNL, cmpNL_eq_iff (S.porder.toC _) _ _ (S.ov a ha) (S.ov b hb)]
  exact ⟨S.inj a b ha hb, fun h => h ▸ rfl⟩

/-- **nulls last, ascending**: a null is `Greater` than every non-null -/
theorem sortCmp_nulls_last (S : OrdSetup R pcmp C V) (inn : ι → Bool) (a b : α)
    (ha : R.isNone a = true) (hb : R.isNone b = false) :
    sortCmp R inn pcmp a b = .gt ∧ sortCmp R inn pcmp b a = .lt := by
  rw [S.null_iff] at ha hb
  cases h1 : R.asOpt a <;> cases h2 : R.asOpt b <;> simp_all [sortCmp]

/-- **nulls last, descending too**: `sort_cmp_rev` also puts a null after every non-null -/
theorem sortCmpRev_nulls_last (S : OrdSetup R pcmp C V) (inn : ι → Bool) (a b : α)
    (ha : R.isNone a = true) (hb : R.isNone b = false) :
    sortCmpRev R inn pcmp a b = .gt ∧ sortCmpRev R inn pcmp b a = .lt := by
  rw [S.null_iff] at ha hb
  cases h1 : R.asOpt a <;> cases h2 : R.asOpt b <;> simp_all [sortCmpRev]

/-- on non-null values `sort_cmp_rev` is exactly the reverse of `sort_cmp`; two nulls are `Equal`
under both -/
theorem sortCmpRev_eq_reverse_on_valid (S : OrdSetup R pcmp C V) (inn : ι → Bool) (a b : α) (ha : C a) (hb : C b) :
    (R.isNone a = false → R.isNone b = false →
      sortCmpRev R inn pcmp a b = (sortCmp R inn pcmp a b).swap) ∧
    (R.isNone a = true → R.isNone b = true →
      sortCmpRev R inn pcmp a b = .eq ∧ sortCmp R inn pcmp a b = .eq) := by
  constructor
  · intro h1 h2
    rw [S.null_iff] at h1 h2
    cases hva : R.asOpt a with
    | none => simp [hva] at h1
    | some va =>
      cases hvb : R.asOpt b with
      | none => simp [hvb] at h2
      | some vb =>
        obtain ⟨o, _, e1, e2⟩ := sortCmp_by_value S inn a b ha hb va vb hva hvb
        rw [e1, e2]
  · intro h1 h2
    rw [S.null_iff] at h1 h2
    cases hva : R.asOpt a <;> cases hvb : R.asOpt b <;> simp_all [sortCmp, sortCmpRev]

/-- `sort_cmp_rev` is a total preorder as well: reverse-symmetric ... -/
theorem sortCmpRev_swap (S : OrdSetup R pcmp C V) (inn : ι → Bool) (a b : α) (ha : C a) (hb : C b) :
    sortCmpRev R inn pcmp b a = (sortCmpRev R inn pcmp a b).swap := by
  rw [sortCmpRev_eq_cmpNL, sortCmpRev_eq_cmpNL]
  exact cmpNL_swap (S.porder.toC _).rev _ _ (S.ov a ha) (S.ov b hb)

/-- ... total ... -/
theorem sortCmpRev_total (S : OrdSetup R pcmp C V) (inn : ι → Bool) (a b : α) (ha : C a) (hb : C b) :
    sortCmpRev R inn pcmp a b ≠ .gt ∨ sortCmpRev R inn pcmp b a ≠ .gt := by
  rw [sortCmpRev_swap S inn a b ha hb]
  cases sortCmpRev R inn pcmp a b <;> simp [Ordering.swap]

/-- ... transitive ... -/
theorem sortCmpRev_trans (S : OrdSetup R pcmp C V) (inn : ι → Bool) (a b c : α) (ha : C a) (hb : C b) (hc : C c)
    (h1 : sortCmpRev R inn pcmp a b ≠ .gt) (h2 : sortCmpRev R inn pcmp b c ≠ .gt) :
    sortCmpRev R inn pcmp a c ≠ .gt := by
  rw [sortCmpRev_eq_cmpNL] at h1 h2 ⊢
  exact cmpNL_le_trans (S.porder.toC _).rev _ _ _ (S.ov a ha) (S.ov b hb) (S.ov c hc) h1 h2

/-- ... and `Equal` only for equal values -/
theorem sortCmpRev_antisymm_eq (S : OrdSetup R pcmp C V) (inn : ι → Bool) (a b : α) (ha : C a) (hb : C b) :
    sortCmpRev R inn pcmp a b = .eq ↔ a = b := by
  rw [sortCmpRev_eq_cmpNL, cmpNL_eq_iff (S.porder.toC _).rev _ _ (S.ov a ha) (S.ov b hb)]
  exact ⟨S.inj a b ha hb, fun h => h ▸ rfl⟩

/-- in any list sorted by `sort_cmp` (resp. `sort_cmp_rev`) no null precedes a non-null -/
theorem sorted_nulls_last (S : OrdSetup R pcmp C V) (inn : ι → Bool) (l : List α) :
    (l.Pairwise (fun a b => sortCmp R inn pcmp a b ≠ .gt) →
      l.Pairwise (fun a b => R.isNone a = true → R.isNone b = true)) ∧
    (l.Pairwise (fun a b => sortCmpRev R inn pcmp a b ≠ .gt) →
      l.Pairwise (fun a b => R.isNone a = true → R.isNone b = true)) := by
  constructor <;> intro h <;> refine h.imp ?_ <;> intro a b hab ha
  · cases hb : R.isNone b with
    | true => rfl
    | false => exact absurd (sortCmp_nulls_last S inn a b ha hb).1 hab
  · cases hb : R.isNone b with
    | true => rfl
    | false => exact absurd (sortCmpRev_nulls_last S inn a b ha hb).1 hab

end Order

/-- the `impl_not_none!` override of `sort_cmp` (`partial_cmp().unwrap()`) never panics on valid
values and agrees with the default body -/
theorem sortCmpNotNone_eq_default (b : Base) (hb : b.notNoneImpl = true) (x y : Val)
    (hx : Valid b x) (hy : Valid b y) (inn : Val → Bool) :
    sortCmpNotNone pcmpVal x y = .ok (sortCmp (reprOf b) inn pcmpVal x y) := by
  obtain ⟨o, ho⟩ := (pcmpVal_porder b).total x y hx hy
  rw [notNoneImpl_repr b hb]
  simp [sortCmpNotNone, sortCmp, neverRepr, ho]

/-- every base type (f32, f64, the integers, bool, String, &str, DateTime, TimeDelta, Time)
satisfies the hypotheses of the comparator theorems on its well-typed values -/
theorem ordSetup_plain (b : Base) : OrdSetup (reprOf b) pcmpVal (ValOf b) (Valid b) where
  porder := pcmpVal_porder b
  valid a v ha h := by
    rw [reprOf_asOpt] at h
    by_cases hn : isNoneOf b a = true
    · simp [hn] at h
    · simp only [hn, Bool.false_eq_true, if_false, Option.some.injEq] at h; subst h
      exact ⟨ha, by simpa using hn⟩
  inj x y hx hy h := by
    rw [reprOf_asOpt, reprOf_asOpt] at h
    by_cases nx : isNoneOf b x = true <;> by_cases ny : isNoneOf b y = true <;> simp [nx, ny] at h
    · exact null_unique b x y hx hy nx ny
    · exact h
  null_iff := reprOf_null_iff b

/-- ... and so does `Option<T>` of every base type on its canonical values -/
theorem ordSetup_option (b : Base) :
    OrdSetup (optionRepr (reprOf b)) pcmpVal (CanonOpt (reprOf b) (ValOf b)) (Valid b) where
  porder := pcmpVal_porder b
  valid a v ha h := by
    simp only [optionRepr, id] at h; subst h
    exact ⟨ha.1, ha.2⟩
  inj _ _ _ _ h := h
  null_iff _ := rfl

/-! ### remaining `IsNone` laws: the summary per base type, `vabs`, `into_cast` -/

/-- **every supported element type is lawful** on its well-typed values ... -/
theorem reprOf_lawful (b : Base) : Lawful (reprOf b) (ValOf b) := by
  cases b
  case f32 => exact floatRepr_lawful.mono fun _ _ => trivial
  case f64 => exact floatRepr_lawful.mono fun _ _ => trivial
  case str => exact strRepr_lawful.mono fun _ _ => trivial
  case sref => exact strRepr_lawful.mono fun _ _ => trivial
  case dt => exact timeRepr_lawful.mono fun x hx => by cases x <;> simp [ValOf] at hx; exact ⟨_, rfl⟩
  case time => exact timeRepr_lawful.mono fun x hx => by cases x <;> simp [ValOf] at hx; exact ⟨_, rfl⟩
  case td =>
    exact tdRepr_lawful.mono fun x hx => by
      cases x <;> simp [ValOf] at hx
      exact ⟨_, _, rfl, hx.2.2⟩
  all_goals exact neverRepr_lawful.mono fun _ _ => trivial

/-- ... and so is its `Option` form on canonical values -/
theorem optionRepr_reprOf_lawful (b : Base) :
    Lawful (optionRepr (reprOf b)) (CanonOpt (reprOf b) (ValOf b)) :=
  optionRepr_lawful (reprOf_lawful b)

/-- `abs` (floats, signed, unsigned — `impl_number!`) never changes null-ness -/
theorem absVal_null (b : Base) (v w : Val) (h : absVal b v = .ok w) : isNoneOf b w = isNoneOf b v := by
  cases v with
  | flt x =>
    cases x <;> simp only [absVal, Res.ok.injEq] at h <;> subst h <;>
      cases b <;> simp [isNoneOf, reprOf, floatRepr, neverRepr, strRepr, timeRepr, tdRepr, isNanV, isNoneStr, isNatV]
  | int i =>
    simp only [absVal] at h
    cases hb : b.intTy with
    | none => simp only [hb, Res.ok.injEq] at h; subst h; rfl
    | some t =>
      simp only [hb] at h
      split at h
      · cases h
      · cases h; cases b <;> simp_all [Base.intTy, isNoneOf, reprOf, neverRepr]
  | bool _ => simp only [absVal, Res.ok.injEq] at h; subst h; rfl
  | str _ => simp only [absVal, Res.ok.injEq] at h; subst h; rfl
  | td _ _ => simp only [absVal, Res.ok.injEq] at h; subst h; rfl

/-- **`vabs` preserves null-ness** on the plain types ... -/
theorem vabs_null_iff_plain (b : Base) (x y : Val) (h : (reprOf b).vabs (absVal b) x = .ok y) :
    (reprOf b).isNone y = (reprOf b).isNone x := by
  have hm : (reprOf b).mapArg x = some x := by cases b <;> rfl
  have hf : ∀ v, (reprOf b).fromInner v = v := by intro v; cases b <;> rfl
  simp only [NullRepr.vabs, NullRepr.map, hm] at h
  obtain ⟨w, hw, rfl⟩ := Res.map_eq_ok h
  rw [hf]; exact absVal_null b x w hw

/-- ... and on `Option<T>` (canonical values): `None.vabs() = None`, `Some(v).vabs() = Some(|v|)` -/
theorem vabs_null_iff_option (b : Base) (x y : Option Val) (hx : CanonOpt (reprOf b) (ValOf b) x)
    (h : (optionRepr (reprOf b)).vabs (absVal b) x = .ok y) : y.isNone = x.isNone := by
  cases x with
  | none => simp [NullRepr.vabs, NullRepr.map, optionRepr] at h; subst h; rfl
  | some v =>
    simp only [NullRepr.vabs, NullRepr.map, optionRepr, id] at h
    obtain ⟨w, hw, rfl⟩ := Res.map_eq_ok h
    have := absVal_null b v w hw
    unfold isNoneOf at this
    rw [this, hx.2]; rfl

/-- `into_cast::<T>()` is the identity, `into_cast::<Option<T>>()` is `to_opt` -/
theorem intoCast_spec (b : Base) (x : Val) :
    intoCastPlain x = x ∧ intoCastOpt (reprOf b) x = (reprOf b).toOpt x := by
  refine ⟨rfl, ?_⟩
  have := (reprOf_lawful b).asOpt_eq_toOpt x
  rw [← this, reprOf_asOpt]; rfl

/-- `String` / `&str` → `Option<T>` (`impl_cast_from_string!`): the null string gives `None`, any
other string gives `Some` of its `parse` (or the parse panic) — never `None` -/
theorem cast_from_str_null (sb db : Base) (hs : sb.isStr = true) (hd : (db.isNum || db == .bool) = true)
    (t : String) (y : XV) (h : castModel ⟨sb, false⟩ ⟨db, true⟩ (.v (.str t)) = .ok y) :
    xvIsNone ⟨db, true⟩ y = (t == "None") := by
  have h1 : sb.isNum = false := by cases sb <;> simp_all [Base.isStr, Base.isNum, Base.intTy, Base.fltTy]
  have h2 : (sb == Base.bool) = false := by cases sb <;> simp_all [Base.isStr]
  have h3 : (db == Base.str) = false := by cases db <;> simp_all [Base.isNum, Base.intTy, Base.fltTy]
  simp only [castModel, castModelAt, h1, h2, h3, hs, hd, Bool.false_eq_true, if_false, if_true, Bool.not_false,
    Bool.and_true, castStrNum, strToOpt] at h
  by_cases e : (t == "None") = true
  · simp only [e, if_true, Res.map, Res.ok.injEq] at h; subst h; simp [xvIsNone, e]
  · simp only [e, Bool.false_eq_true, if_false] at h
    obtain ⟨o, ho, rfl⟩ := Res.map_eq_ok h
    obtain ⟨w, _, rfl⟩ := Res.map_eq_ok ho
    simp [xvIsNone, e]

/- Full-strength string → float law (the property's "null to float gives NaN"):
     castModel ⟨str, false⟩ ⟨f64, false⟩ (.v (.str "None")) = .ok (.v (.flt .nan))
   does NOT hold for the tree (finding F-C15-1, recorded, not repaired): the witness below. The
   `Option` targets are covered in full by `cast_from_str_null`. -/
/-- known finding F-C15-1 (not repaired): the null *string* cast to a float panics
(`"None".parse::<f64>()` fails) although `Option<f64>` gets `None`; the full-strength string law
`cast (str "None") = NaN` therefore does not hold for the tree -/
theorem none_str_to_float_known :
    castModel ⟨.str, false⟩ ⟨.f64, false⟩ (.v (.str "None")) = .panic ∧
    castModel ⟨.str, false⟩ ⟨.f64, true⟩ (.v (.str "None")) = .ok (.o none) := by decide

/-! ### non-vacuity: concrete canonical values with nulls satisfy the hypotheses -/

example : Typed ⟨.f64, false⟩ (.v (.flt .nan)) ∧ Typed ⟨.i32, true⟩ (.o none) ∧
    Typed ⟨.i32, true⟩ (.o (some (.int (-5)))) := by
  refine ⟨⟨rfl, trivial⟩, rfl, rfl, ?_, rfl⟩
  simp [ValOf]

example : castModel ⟨.f64, false⟩ ⟨.i32, true⟩ (.v (.flt .nan)) = .ok (.o none) ∧
    castModel ⟨.i32, true⟩ ⟨.f64, false⟩ (.o none) = .ok (.v (.flt .nan)) ∧
    castModel ⟨.i32, true⟩ ⟨.u8, false⟩ (.o (some (.int (-1)))) = .ok (.v (.int 255)) ∧
    castModel ⟨.i32, true⟩ ⟨.u8, false⟩ (.o none) = .panic := by decide

example : sortCmp floatRepr isNanV pcmpVal (.flt .nan) (.flt (.inf false)) = .gt ∧
    sortCmpRev floatRepr isNanV pcmpVal (.flt .nan) (.flt (.inf false)) = .gt ∧
    sortCmp (optionRepr neverRepr) (fun _ => false) pcmpVal (some (.int 3)) (some (.int 7)) = .lt ∧
    sortCmpRev (optionRepr neverRepr) (fun _ => false) pcmpVal (some (.int 3)) (some (.int 7)) = .gt ∧
    sortCmpRev (optionRepr neverRepr) (fun _ => false) pcmpVal none (some (.int 7)) = .gt := by decide

example : ValOf .td (.td i32Min 0) ∧ isNoneOf .td (.td i32Min 0) = true ∧ Valid .td (.td 1 (-100)) := by
  refine ⟨by simp [ValOf, i32Min], rfl, by simp [ValOf], rfl⟩

end Tv.C15
