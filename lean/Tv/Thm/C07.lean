import Tv.Model.View
import Tv.Thm.C01
/-!
# C07 — results are independent of input backend, output container and out-buffer path

1. Each backend adapter is *coherent*: its accessors all describe one logical sequence.
2. The generic algorithms observe a container only through those accessors, and both code
   shapes a backend may select (fast `*_to` path, default iterator path; returned or written
   into a caller buffer) produce the same result (`C01.tsFeat_shape_indep`, `C02`).
Hence every (backend, output container, path) cell equals the single model result; the
correspondence run checks exactly that on the real code.
-/
namespace Tv.C07
open Tv

theorem coherent_vec (xs : List α) : Coherent (vecView xs) xs :=
  ⟨rfl, fun _ _ => rfl, rfl, fun _ _ _ _ => rfl, fun s h => by simpa [vecView] using h.symm⟩

/-- a ring buffer whose live region fits the capacity -/
def RingWF (r : Ring α) : Prop := r.len ≤ r.cap ∧ (r.len = 0 ∨ r.head < r.cap)

theorem ring_phys_lt (r : Ring α) (h : RingWF r) (i : Nat) (hi : i < r.len) : r.phys i < r.buf.length := by
  unfold Ring.phys Ring.cap
  have : 0 < r.buf.length := by
    have := h.1; unfold Ring.cap at this; omega
  exact Nat.mod_lt _ this

theorem ring_toList_length (r : Ring α) (h : RingWF r) : r.toList.length = r.len := by
  unfold Ring.toList
  have : ∀ l : List Nat, (∀ i ∈ l, i < r.len) →
      (l.filterMap fun i => r.buf[r.phys i]?).length = l.length := by
    intro l
    induction l with
    | nil => simp
    | cons a l ih =>
      intro hl
      have ha := ring_phys_lt r h a (hl a (by simp))
      simp only [List.filterMap_cons, List.getElem?_eq_getElem ha, List.length_cons]
      rw [ih (fun i hi => hl i (by simp [hi]))]
  rw [this _ (by intro i hi; simpa using hi)]
  simp

theorem ring_toList_get (r : Ring α) (h : RingWF r) (i : Nat) (hi : i < r.len) :
    r.toList[i]? = r.buf[r.phys i]? := by
  unfold Ring.toList
  have key : ∀ (n : Nat), n ≤ r.len → ∀ i, i < n →
      ((List.range n).filterMap fun i => r.buf[r.phys i]?)[i]? = r.buf[r.phys i]? := by
    intro n
    induction n with
    | zero => intro _ i hi; omega
    | succ n ih =>
      intro hn i hi
      rw [List.range_succ, List.filterMap_append]
      have hlen : ((List.range n).filterMap fun i => r.buf[r.phys i]?).length = n := by
        have : ∀ l : List Nat, (∀ i ∈ l, i < r.len) →
            (l.filterMap fun i => r.buf[r.phys i]?).length = l.length := by
          intro l
          induction l with
          | nil => simp
          | cons a l ih2 =>
            intro hl
            have ha := ring_phys_lt r h a (hl a (by simp))
            simp only [List.filterMap_cons, List.getElem?_eq_getElem ha, List.length_cons]
            rw [ih2 (fun i hi => hl i (by simp [hi]))]
        rw [this _ (by intro j hj; have := List.mem_range.mp hj; omega)]
        simp
      by_cases hlt : i < n
      · rw [List.getElem?_append_left (by omega)]
        exact ih (by omega) i hlt
      · have : i = n := by omega
        subst this
        rw [List.getElem?_append_right (by omega), hlen]
        have ha := ring_phys_lt r h i (by omega)
        simp [List.getElem?_eq_getElem ha]
  exact key r.len (Nat.le_refl _) i hi

/-- the contiguous case of `as_slices`: when the live region does not wrap, the first slice is
the logical sequence -/
theorem ring_contiguous (r : Ring α) (h : RingWF r) (hc : r.head + r.len ≤ r.cap) :
    r.buf.extract r.head (r.head + r.len) = r.toList := by
  apply List.ext_getElem?
  intro i
  by_cases hi : i < r.len
  · rw [ring_toList_get r h i hi]
    simp only [List.extract_eq_take_drop, List.getElem?_take, List.getElem?_drop]
    have : r.phys i = r.head + i := by
      unfold Ring.phys
      apply Nat.mod_eq_of_lt
      unfold Ring.cap at *; omega
    rw [this]
    simp [hi]
  · have h1 : (r.buf.extract r.head (r.head + r.len)).length ≤ i := by
      simp [List.extract_eq_take_drop]; omega
    have h2 : r.toList.length ≤ i := by rw [ring_toList_length r h]; omega
    rw [List.getElem?_eq_none h1, List.getElem?_eq_none h2]

/-- **VecDeque adapter**, any ring-buffer rotation (wrapped or contiguous) -/
theorem coherent_vecdeque (r : Ring α) (h : RingWF r) : Coherent (ringView r) r.toList := by
  refine ⟨(ring_toList_length r h).symm, ?_, rfl, fun _ _ _ _ => rfl, ?_⟩
  · intro i hi
    rw [ring_toList_length r h] at hi
    simp only [ringView, hi, if_true]
    exact (ring_toList_get r h i hi).symm
  · intro s hs
    simp only [ringView] at hs
    split at hs
    · rename_i hc
      injection hs with hs
      rw [← hs]; exact ring_contiguous r h hc
    · cases hs

/-- every logical position of a strided view lies inside its base storage -/
def StridedWF (s : Strided α) : Prop := ∀ i, i < s.len → (s.at i).isSome

theorem strided_toList_length (s : Strided α) (h : StridedWF s) : s.toList.length = s.len := by
  unfold Strided.toList
  have : ∀ l : List Nat, (∀ i ∈ l, i < s.len) → (l.filterMap s.at).length = l.length := by
    intro l
    induction l with
    | nil => simp
    | cons a l ih =>
      intro hl
      have ha := h a (hl a (by simp))
      obtain ⟨v, hv⟩ := Option.isSome_iff_exists.mp ha
      simp only [List.filterMap_cons, hv, List.length_cons]
      rw [ih (fun i hi => hl i (by simp [hi]))]
  rw [this _ (by intro i hi; simpa using hi)]
  simp

theorem strided_toList_get (s : Strided α) (h : StridedWF s) (i : Nat) (hi : i < s.len) :
    s.toList[i]? = s.at i := by
  unfold Strided.toList
  have key : ∀ (n : Nat), n ≤ s.len → ∀ i, i < n → ((List.range n).filterMap s.at)[i]? = s.at i := by
    intro n
    induction n with
    | zero => intro _ i hi; omega
    | succ n ih =>
      intro hn i hi
      rw [List.range_succ, List.filterMap_append]
      have hlen : ((List.range n).filterMap s.at).length = n := by
        have : ∀ l : List Nat, (∀ i ∈ l, i < s.len) → (l.filterMap s.at).length = l.length := by
          intro l
          induction l with
          | nil => simp
          | cons a l ih2 =>
            intro hl
            obtain ⟨v, hv⟩ := Option.isSome_iff_exists.mp (h a (hl a (by simp)))
            simp only [List.filterMap_cons, hv, List.length_cons]
            rw [ih2 (fun i hi => hl i (by simp [hi]))]
        rw [this _ (by intro j hj; have := List.mem_range.mp hj; omega)]
        simp
      by_cases hlt : i < n
      · rw [List.getElem?_append_left (by omega)]
        exact ih (by omega) i hlt
      · have : i = n := by omega
        subst this
        rw [List.getElem?_append_right (by omega), hlen]
        obtain ⟨v, hv⟩ := Option.isSome_iff_exists.mp (h i (by omega))
        simp [hv]
  exact key s.len (Nat.le_refl _) i hi

/-- standard-layout case: `as_slice()` of a stride-1 view is the logical sequence -/
theorem strided_contiguous (s : Strided α) (h : StridedWF s) (hs : s.stride = 1) :
    s.base.extract s.off (s.off + s.len) = s.toList := by
  apply List.ext_getElem?
  intro i
  by_cases hi : i < s.len
  · rw [strided_toList_get s h i hi]
    simp only [List.extract_eq_take_drop, List.getElem?_take, List.getElem?_drop, Strided.at, Strided.phys, hs]
    have : ¬ ((s.off : Int) + (i : Int) * 1 < 0) := by omega
    simp only [this, if_false]
    have e : ((s.off : Int) + (i : Int) * 1).toNat = s.off + i := by omega
    rw [e]; simp [hi]
  · have h1 : (s.base.extract s.off (s.off + s.len)).length ≤ i := by
      simp [List.extract_eq_take_drop]; omega
    have h2 : s.toList.length ≤ i := by rw [strided_toList_length s h]; omega
    rw [List.getElem?_eq_none h1, List.getElem?_eq_none h2]

/-- **ndarray adapter (repaired `try_as_slice`)**: owned arrays and borrowed / strided /
reversed views; the contiguous view is offered only in standard layout -/
theorem coherent_ndarray (s : Strided α) (h : StridedWF s) (h2 : 2 ≤ s.len ∨ s.stride = 1) :
    Coherent (stridedView false s) s.toList := by
  refine ⟨(strided_toList_length s h).symm, ?_, rfl, fun _ _ _ _ => rfl, ?_⟩
  · intro i hi
    rw [strided_toList_length s h] at hi
    exact (strided_toList_get s h i hi).symm
  · intro t ht
    simp only [stridedView] at ht
    split at ht
    · rename_i hc
      injection ht with ht
      rcases hc with hc | hc
      · rw [← ht]; exact strided_contiguous s h hc
      · rcases h2 with h2 | h2
        · omega
        · rw [← ht]; exact strided_contiguous s h h2
    · simp at ht

/-- the pinned `as_slice_memory_order` offers a *reversed* view the reverse of its logical
sequence (finding F32): concrete witness -/
theorem ndarray_pinned_wrong :
    let s : Strided Nat := ⟨[10, 11, 12], 2, -1, 3⟩
    s.toList = [12, 11, 10] ∧ (stridedView true s).asSlice = some [10, 11, 12] := by decide

theorem coherent_arc (v : View α) (xs : List α) (h : Coherent v xs) : Coherent (arcView v) xs := h

/-- **option view**: describes the decoded sequence, offers no contiguous view -/
theorem coherent_opt (toOpt : α → Option β) (v : View α) (xs : List α) (h : Coherent v xs) :
    Coherent (optView toOpt v) (xs.map toOpt) := by
  refine ⟨by simp [optView, h.len], ?_, by simp [optView, h.iter], ?_, by simp [optView]⟩
  · intro i hi
    have hi' : i < xs.length := by simpa using hi
    simp [optView, h.get i hi']
  · intro a b hab hb
    have hb' : b ≤ xs.length := by simpa using hb
    simp only [optView, h.slice a b hab hb']
    simp [List.extract_eq_take_drop, List.map_take, List.map_drop]

/-- **checked get**: in bounds it is the element, one past the end it is an error -/
theorem get_spec (v : View α) (xs : List α) (h : Coherent v xs) (i : Nat) :
    v.get i = xs[i]? := by
  unfold View.get
  rw [h.len]
  by_cases hi : i < xs.length
  · simp [hi, h.get i hi]
  · simp [hi, List.getElem?_eq_none (Nat.le_of_not_lt hi)]

/-- any algorithm written against the accessors gives the same answer on coherent views of the
same sequence (Vec, VecDeque in any rotation, ndarray views, Arc, ...) -/
theorem algo_view_indep (algo : Nat → (Nat → Option α) → List α → β) (v v' : View α) (xs : List α)
    (h : Coherent v xs) (h' : Coherent v' xs)
    (hlocal : ∀ n g g' l, (∀ i, i < n → g i = g' i) → algo n g l = algo n g' l) :
    algo v.len v.uget v.iter = algo v'.len v'.uget v'.iter := by
  rw [h.len, h'.len, h.iter, h'.iter]
  apply hlocal
  intro i hi
  rw [h.get i hi, h'.get i hi]

/-- returned path = caller-buffer path, fast path = default path, for every rolling feature -/
theorem feat_path_indep (f : Feat) (xs : List (Option Rat)) (w : Nat) (mp : Option Nat) (hw : 1 ≤ w) :
    tsFeat f .to xs w mp = tsFeat f .iter xs w mp := C01.tsFeat_shape_indep f xs w mp hw

example : RingWF (⟨[3, 4, 1, 2], 2, 4⟩ : Ring Nat) := by unfold RingWF Ring.cap; decide
example : (⟨[3, 4, 1, 2], 2, 4⟩ : Ring Nat).toList = [1, 2, 3, 4] := by decide
example : (ringView (⟨[3, 4, 1, 2], 2, 4⟩ : Ring Nat)).asSlice = none := by decide

end Tv.C07
