import Tv.GenMap
import Tv.Thm.C13
import Mathlib.Tactic.SplitIfs
/-!
# C13 — the mapping operations regenerated from tea-map are the model's operations

`Tv.GenMap.<fn>.run` is written by translator/maps.py from the Rust source on every run (function
body in source order; the iterator algebra `repeat_n / chain / take / skip / zip / map` read as the
list algebra of the yielded items).  For `shift`, `vshift`, `vdiff`, `vpct_change`, `vclip`,
`fill`, `ffill(_mask)` and `bfill(_mask)` this file proves that the regenerated function **equals** the hand-written model for every
series and every parameter (`*_eq`), and therefore — through the C13 theorems — the positional
definition of the property (`*_spec`).  `ffill(_mask)` / `bfill(_mask)` — a `map` closure that mutates a captured cell — become the
state-passing map `mapSt`. Not translated: `vabs` / `abs` (element method), `vcut`, `vsorted_unique*`.
-/
set_option linter.unusedSimpArgs false
set_option linter.unusedVariables false
namespace Tv.C13Gen
open Tv Tv.C13

theorem shift_eq (xs : List (Option Rat)) (n : Int) (v : Option Rat) :
    GenMap.shift.run xs n v = C13.shift n v xs := by
  simp only [GenMap.shift.run, C13.shift, decide_eq_true_eq]

theorem vshift_eq (xs : List (Option Rat)) (n : Int) (value : Option (Option Rat)) :
    GenMap.vshift.run xs n value = C13.vshift n value xs := by
  simp only [GenMap.vshift.run, C13.vshift, decide_eq_true_eq]

theorem lift2_sub (b a : Option Rat) : Gen.lift2 (· - ·) b a = osub b a := by
  cases b <;> cases a <;> rfl

theorem map_zip {α β γ : Type} (f : α → β → γ) (l1 : List α) (l2 : List β) :
    (l1.zip l2).map (fun p => f p.1 p.2) = List.zipWith f l1 l2 := by
  induction l1 generalizing l2 with
  | nil => simp
  | cons a l1 ih => cases l2 <;> simp_all

theorem vdiff_eq (xs : List (Option Rat)) (n : Int) (value : Option (Option Rat)) :
    GenMap.vdiff.run xs n value = C13.vdiff n value xs := by
  simp only [GenMap.vdiff.run, C13.vdiff, decide_eq_true_eq, lift2_sub]
  rw [map_zip (fun a b => osub b a), map_zip (fun a b => osub b a)]

theorem map_zip_fn {α β γ : Type} (g : α × β → γ) (f : α → β → γ) (h : ∀ a b, g (a, b) = f a b)
    (l1 : List α) (l2 : List β) : (l1.zip l2).map g = List.zipWith f l1 l2 := by
  induction l1 generalizing l2 with
  | nil => simp
  | cons a l1 ih => cases l2 <;> simp_all

theorem vpct_change_eq (xs : List (Option Rat)) (n : Int) :
    GenMap.vpct_change.run xs n = C13.vpctChange n xs := by
  have hp : ∀ (g : Option Rat × Option Rat → Option Rat), (∀ a b, g (a, b) = pct a b) →
      ∀ l1 l2, (List.zip l1 l2).map g = List.zipWith pct l1 l2 := fun g h => map_zip_fn g pct h
  simp only [GenMap.vpct_change.run, C13.vpctChange, decide_eq_true_eq, List.map_id']
  rw [hp _ (fun a b => by cases a <;> cases b <;> simp [pct]), hp _ (fun a b => by cases a <;> cases b <;> simp [pct])]

theorem fill_mask_eq (xs : List (Option Rat)) (mask : Option Rat → Bool) (value : Option Rat) :
    GenMap.fill_mask.run xs mask value = C13.fillMask mask value xs := by
  simp only [GenMap.fill_mask.run, C13.fillMask]

theorem fill_eq (xs : List (Option Rat)) (value : Option Rat) :
    GenMap.fill.run xs value = C13.fill value xs := by
  simp only [GenMap.fill.run, C13.fill, fill_mask_eq]

theorem ratAbs_eq (q : Rat) : Gen.ratAbs q = C13.rabs q := rfl
theorem abs_eq (xs : List (Option Rat)) : GenMap.abs.run xs = C13.abs xs := rfl
theorem vabs_eq (xs : List (Option Rat)) : GenMap.vabs.run xs = C13.vabs xs := rfl
/-- `drop_none` yields exactly the non-null items, in order -/
theorem drop_none_eq (xs : List (Option Rat)) : GenMap.drop_none.run xs = xs.filter Option.isSome := rfl

theorem vclip_eq (xs : List (Option Rat)) (lower upper : Option Rat) :
    GenMap.vclip.run xs lower upper = C13.vclip lower upper xs := by
  cases lower with
  | none =>
    cases upper with
    | none => simp [GenMap.vclip.run, C13.vclip]
    | some hi =>
      simp only [GenMap.vclip.run, C13.vclip, Option.isSome_none, Option.isSome_some, if_true, Bool.false_eq_true,
        if_false, Option.getD_some, decide_eq_true_eq]
      apply List.map_congr_left
      intro v _
      cases v <;> simp
  | some lo =>
    cases upper with
    | none =>
      simp only [GenMap.vclip.run, C13.vclip, Option.isSome_none, Option.isSome_some, if_true, Bool.false_eq_true,
        if_false, Option.getD_some, decide_eq_true_eq]
      apply List.map_congr_left
      intro v _
      cases v <;> simp
    | some hi =>
      simp only [GenMap.vclip.run, C13.vclip, Option.isSome_none, Option.isSome_some, if_true, Bool.false_eq_true,
        if_false, Option.getD_some, decide_eq_true_eq]
      apply List.map_congr_left
      intro v _
      cases v <;> simp

/-- a state-passing map whose closure stores the last unmasked element and substitutes it (or the
default) for masked ones is the model's `fillGo` -/
theorem mapSt_fill (mask : Option Rat → Bool) (dflt : Option Rat)
    (f : Option (Option Rat) → Option Rat → Option (Option Rat) × Option Rat)
    (hf : ∀ lv v, f lv v = if mask v then (lv, match lv with | some l => l | none => dflt) else (some v, v))
    (lv : Option (Option Rat)) (xs : List (Option Rat)) :
    Gen.mapSt f lv xs = fillGo mask dflt lv xs := by
  induction xs generalizing lv with
  | nil => rfl
  | cons x xs ih =>
    simp only [Gen.mapSt, fillGo, hf]
    by_cases hm : mask x = true
    · simp only [hm, if_true]; rw [ih]; cases lv <;> rfl
    · simp only [hm, if_false, Bool.false_eq_true]; rw [ih]

theorem ffill_mask_eq (xs : List (Option Rat)) (mask : Option Rat → Bool) (value : Option (Option Rat)) :
    GenMap.ffill_mask.run xs mask value = C13.ffillMask mask value xs := by
  unfold GenMap.ffill_mask.run C13.ffillMask
  simp only []
  apply mapSt_fill mask (value.getD none)
  intro lv v
  by_cases hm : mask v = true
  · cases lv <;> cases value <;> simp [hm]
  · simp [hm]

theorem bfill_mask_eq (xs : List (Option Rat)) (mask : Option Rat → Bool) (value : Option (Option Rat)) :
    GenMap.bfill_mask.run xs mask value = C13.bfillMask mask value xs := by
  unfold GenMap.bfill_mask.run C13.bfillMask
  simp only []
  congr 1
  apply mapSt_fill mask (value.getD none)
  intro lv v
  by_cases hm : mask v = true
  · cases lv <;> cases value <;> simp [hm]
  · simp [hm]

theorem ffill_eq (xs : List (Option Rat)) (value : Option (Option Rat)) :
    GenMap.ffill.run xs value = C13.ffill value xs := ffill_mask_eq xs _ value
theorem bfill_eq (xs : List (Option Rat)) (value : Option (Option Rat)) :
    GenMap.bfill.run xs value = C13.bfill value xs := bfill_mask_eq xs _ value

/-! ## the regenerated operations against the positional definitions (`Spec`, via the C13 theorems) -/

theorem shift_spec (xs : List (Option Rat)) (n : Int) (v : Option Rat) :
    GenMap.shift.run xs n v = Spec.shiftS n v xs := by rw [shift_eq, C13.shift_eq_shiftS]
theorem vshift_spec (xs : List (Option Rat)) (n : Int) (value : Option (Option Rat)) :
    GenMap.vshift.run xs n value = Spec.shiftS n (value.getD none) xs := by rw [vshift_eq, C13.vshift_eq_shiftS]
theorem vdiff_spec (xs : List (Option Rat)) (n : Int) (value : Option (Option Rat)) :
    GenMap.vdiff.run xs n value = Spec.diffS n (value.getD none) xs := by rw [vdiff_eq, C13.vdiff_eq_diffS]
theorem vpct_change_spec (xs : List (Option Rat)) (n : Int) :
    GenMap.vpct_change.run xs n = Spec.pctS n xs := by rw [vpct_change_eq, C13.vpct_eq_pctS]
theorem vclip_spec (xs : List (Option Rat)) (lo hi : Option Rat) :
    GenMap.vclip.run xs lo hi = Spec.clipS lo hi xs := by rw [vclip_eq, C13.clip_eq_clipS]
theorem fill_spec (xs : List (Option Rat)) (v : Option Rat) :
    GenMap.fill.run xs v = Spec.fillS Option.isNone v xs := by rw [fill_eq]; rfl

/-- all six functions were found and translated -/
theorem ffill_spec (xs : List (Option Rat)) (mask : Option Rat → Bool) (value : Option (Option Rat)) :
    GenMap.ffill_mask.run xs mask value = Spec.ffillS mask (value.getD none) xs := by
  rw [ffill_mask_eq, C13.ffill_eq_ffillS]
theorem bfill_spec (xs : List (Option Rat)) (mask : Option Rat → Bool) (value : Option (Option Rat)) :
    GenMap.bfill_mask.run xs mask value = Spec.bfillS mask (value.getD none) xs := by
  rw [bfill_mask_eq, C13.bfill_eq_bfillS]

theorem fill_mask_spec (xs : List (Option Rat)) (mask : Option Rat → Bool) (v : Option Rat) :
    GenMap.fill_mask.run xs mask v = Spec.fillS mask v xs := by rw [fill_mask_eq]; rfl
theorem abs_spec (xs : List (Option Rat)) : GenMap.abs.run xs = Spec.absS xs := by
  rw [abs_eq]; exact (C13.abs_eq_absS xs).2
theorem vabs_spec (xs : List (Option Rat)) : GenMap.vabs.run xs = Spec.absS xs := by
  rw [vabs_eq]; exact (C13.abs_eq_absS xs).1

theorem functions_present :
    ∀ n ∈ ["shift", "vclip", "fill_mask", "fill", "ffill_mask", "ffill", "bfill_mask", "bfill", "vshift", "vdiff",
      "vpct_change", "abs", "vabs", "drop_none"], n ∈ GenMap.functions := by
  simp [GenMap.functions]

end Tv.C13Gen
