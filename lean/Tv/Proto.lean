import Tv.Model.Basic
/-!
  Line protocol of the model driver (one request per line, one response per line).

  request : `<fn> key=value key=value ...`
  response: `<model tokens> | <spec tokens>`      (`-` when a side does not apply)

  tokens: `_` null, `!` degenerate, `p/q` or `p` exact rational, `r:<sign>:<p/q>` signed
  root, `P` panic, `E:<kind>` error, anything else literal. Lists are comma separated,
  groups are separated by `;`.
-/
namespace Tv.Proto
open Tv

abbrev Req := List (String × String)

def parseReq (line : String) : String × Req :=
  match (line.trimAscii.toString.splitOn " ").filter (· ≠ "") with
  | [] => ("", [])
  | f :: kvs => (f, kvs.filterMap fun kv =>
      match kv.splitOn "=" with
      | [k, v] => some (k, v)
      | _ => none)

def Req.get (r : Req) (k : String) : Option String := (r.find? (·.1 = k)).map (·.2)

def Req.str (r : Req) (k : String) (dflt : String := "") : String := (r.get k).getD dflt

def Req.nat (r : Req) (k : String) (dflt : Nat := 0) : Nat :=
  match r.get k with
  | some s => s.toNat?.getD dflt
  | none => dflt

def Req.int (r : Req) (k : String) (dflt : Int := 0) : Int :=
  match r.get k with
  | some s => s.toInt?.getD dflt
  | none => dflt

/-- `mp=-` (or absent) means omitted -/
def Req.optNat (r : Req) (k : String) : Option Nat :=
  match r.get k with
  | some s => s.toNat?
  | none => none

/-- stand-in for `f64::INFINITY` in the order-only request streams: larger than every finite `f64` -/
def BIG : Rat := ((2 : Nat) ^ 1100 : Nat)

def parseRat (s : String) : Option Rat :=
  if s = "inf" then some BIG else if s = "-inf" then some (-BIG) else
  match s.splitOn "/" with
  | [a] => a.toInt?.map (fun i => (i : Rat))
  | [a, b] => do
      let x ← a.toInt?
      let y ← b.toNat?
      if y = 0 then none else pure ((x : Rat) / (y : Rat))
  | _ => none

def Req.rat (r : Req) (k : String) (dflt : Rat := 0) : Rat :=
  match r.get k with
  | some s => (parseRat s).getD dflt
  | none => dflt

def Req.optRat (r : Req) (k : String) : Option Rat :=
  match r.get k with
  | some s => parseRat s
  | none => none

def splitList (s : String) : List String :=
  if s = "" ∨ s = "[]" then [] else s.splitOn ","

/-- series of optional rationals: `1,_,3/2`; empty series is `[]` -/
def Req.series (r : Req) (k : String) : List (Option Rat) :=
  (splitList (r.str k)).map parseRat

def Req.ints (r : Req) (k : String) : List Int :=
  (splitList (r.str k)).filterMap (·.toInt?)

def Req.optInts (r : Req) (k : String) : List (Option Int) :=
  (splitList (r.str k)).map (·.toInt?)

def Req.shape (r : Req) : Shape := if r.str "sh" = "iter" then .iter else .to

/-! printers -/

def showRat (q : Rat) : String :=
  if q.den = 1 then toString q.num else s!"{q.num}/{q.den}"

def showOut : Out → String
  | .null => "_"
  | .degen => "!"
  | .val q => showRat q
  | .root s q => s!"r:{s}:{showRat q}"

def showList (f : α → String) (l : List α) : String :=
  if l.isEmpty then "[]" else String.intercalate "," (l.map f)

def showOuts (l : List Out) : String := showList showOut l

def showOptRat : Option Rat → String
  | none => "_"
  | some q => showRat q

def showOptNat : Option Nat → String
  | none => "_"
  | some q => toString q

def showOptInt : Option Int → String
  | none => "_"
  | some q => toString q

def showBool (b : Bool) : String := if b then "1" else "0"

end Tv.Proto
