/-!
  Hand-written reading of the library calls that the regenerated closures (GenClosures.lean) make:
  `self.uget(i)`, the derived `<` on `Option<usize>`, `IsNone::sort_cmp` / `sort_cmp_rev`
  (tea-dtype/src/isnone.rs:223-288; the arm table is regenerated and checked by
  `C12.sortCmp_matches`), and NaN-propagating float arithmetic.
-/
namespace Tv.Gen

/-- `unsafe { self.uget(i) }.to_opt()`: the unchecked read (bounds are the subject of C10) -/
def uget (xs : List (Option Rat)) (i : Nat) : Option Rat := (xs[i]?).getD none

/-- Rust's derived `<` on `Option<usize>`: `None < Some(_)` -/
def optLt : Option Nat → Option Nat → Bool
  | none, some _ => true
  | some a, some b => decide (a < b)
  | _, _ => false

def cmpRat (a b : Rat) : Ordering := if a < b then .lt else if a = b then .eq else .gt

/-- `a.sort_cmp(&b)`: ascending, null last -/
def sortCmp : Option Rat → Option Rat → Ordering
  | some a, some b => cmpRat a b
  | none, none => .eq
  | none, some _ => .gt
  | some _, none => .lt

/-- `a.sort_cmp_rev(&b)`: descending, null last -/
def sortCmpRev : Option Rat → Option Rat → Ordering
  | some a, some b => (cmpRat a b).swap
  | none, none => .eq
  | none, some _ => .gt
  | some _, none => .lt

/-- `match o { Less => a, Equal => b, Greater => c }` -/
def ordCases {α : Type} (o : Ordering) (a b c : α) : α :=
  match o with
  | .lt => a
  | .eq => b
  | .gt => c

/-- an arithmetic operation on floats either of which may be NaN (`none`) -/
def lift2 (f : Rat → Rat → Rat) : Option Rat → Option Rat → Option Rat
  | some a, some b => some (f a b)
  | _, _ => none

end Tv.Gen
