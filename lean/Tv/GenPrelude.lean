/-!
  Hand-written reading of the library calls that the regenerated closures (GenClosures.lean) make:
  `self.uget(i)`, the derived `<` on `Option<usize>`, `IsNone::sort_cmp` / `sort_cmp_rev`
  (tea-dtype/src/isnone.rs:223-288; the arm table is regenerated and checked by
  `C12.sortCmp_matches`), and NaN-propagating float arithmetic.
-/
namespace Tv.Gen

/-- `unsafe { self.uget(i) }.to_opt()`: the unchecked read (bounds are the subject of C10) -/
def uget (xs : List (Option Rat)) (i : Nat) : Option Rat := (xs[i]?).getD none

/-- Rust's derived `<` on `Option<usize>`: `None < Some(_)` -/
def optLt : Option Nat → Option Nat → Bool
  | none, some _ => true
  | some a, some b => decide (a < b)
  | _, _ => false

def cmpRat (a b : Rat) : Ordering := if a < b then .lt else if a = b then .eq else .gt

/-- `a.sort_cmp(&b)`: ascending, null last -/
def sortCmp : Option Rat → Option Rat → Ordering
  | some a, some b => cmpRat a b
  | none, none => .eq
  | none, some _ => .gt
  | some _, none => .lt

/-- `a.sort_cmp_rev(&b)`: descending, null last -/
def sortCmpRev : Option Rat → Option Rat → Ordering
  | some a, some b => (cmpRat a b).swap
  | none, none => .eq
  | none, some _ => .gt
  | some _, none => .lt

/-- `match o { Less => a, Equal => b, Greater => c }` -/
def ordCases {α : Type} (o : Ordering) (a b c : α) : α :=
  match o with
  | .lt => a
  | .eq => b
  | .gt => c

/-- an arithmetic operation on floats either of which may be NaN (`none`) -/
def lift2 (f : Rat → Rat → Rat) : Option Rat → Option Rat → Option Rat
  | some a, some b => some (f a b)
  | _, _ => none

/-! ### tea-core/src/vec_core/iter_traits.rs (`IterBasic`) and the std iteration calls of agg.rs -/

/-- `vapply_n(f)`: `f(v.unwrap())` on every non-null element, in order; returns their number.
The captured variables `f` mutates are the threaded state. -/
def vapplyN {σ : Type} (f : σ → Rat → σ) (init : σ) (xs : List (Option Rat)) : σ × Nat :=
  xs.foldl (fun p v => match v with
    | some x => (f p.1 x, p.2 + 1)
    | none => p) (init, 0)

/-- `vfold_n(init, f)`: `(n, acc)` -/
def vfoldN {σ : Type} (f : σ → Rat → σ) (init : σ) (xs : List (Option Rat)) : Nat × σ :=
  xs.foldl (fun p v => match v with
    | some x => (p.1 + 1, f p.2 x)
    | none => p) (0, init)

/-- `vfold(init, f)` -/
def vfold {σ : Type} (f : σ → Rat → σ) (init : σ) (xs : List (Option Rat)) : σ :=
  xs.foldl (fun acc v => match v with
    | some x => f acc x
    | none => acc) init

/-- `vfold(init, f)` over boolean elements (`T::Inner: BoolType`) -/
def vfoldB {σ : Type} (f : σ → Bool → σ) (init : σ) (xs : List (Option Bool)) : σ :=
  xs.foldl (fun acc v => match v with
    | some x => f acc x
    | none => acc) init

/-- `v >= max` where `max` is either a stored value or still the sentinel `T::MIN` (`none`) -/
def geS (v : Rat) : Option Rat → Bool
  | none => true
  | some m => decide (m ≤ v)
/-- `v <= min` where `min` is either a stored value or still the sentinel `T::MAX` (`none`) -/
def leS (v : Rat) : Option Rat → Bool
  | none => true
  | some m => decide (v ≤ m)
/-- `max != min` for a `T::MIN`-initialised and a `T::MAX`-initialised cache: a sentinel differs from
every stored value and from the other sentinel -/
def sentNe : Option Rat → Option Rat → Bool
  | some a, some b => decide (a ≠ b)
  | _, _ => true

/-- `Number::max_with`: `if other > self { other } else { self }` -/
def maxWith (a b : Rat) : Rat := if b > a then b else a
/-- `Number::min_with`: `if other < self { other } else { self }` -/
def minWith (a b : Rat) : Rat := if b < a then b else a
def maxWithNat (a b : Nat) : Nat := if b > a then b else a
def minWithNat (a b : Nat) : Nat := if b < a then b else a

/-- `PercentileOfMethod` (tea-agg/src/lib.rs) -/
inductive PctMethod where
  | rank | weak | strict
deriving DecidableEq, Repr

/-- `Number::abs` on an exact value -/
def ratAbs (q : Rat) : Rat := if q < 0 then -q else q

/-- `iter.map(f)` with a closure `f` that mutates a captured cell: a state-passing map -/
def mapSt {σ α β : Type} (f : σ → α → σ × β) (s : σ) : List α → List β
  | [] => []
  | x :: xs => let p := f s x; p.2 :: mapSt f p.1 xs

/-- `iter.filter_map(f)` with a closure `f` that mutates a captured cell -/
def filterMapSt {σ α β : Type} (f : σ → α → σ × Option β) (s : σ) : List α → List β
  | [] => []
  | x :: xs =>
    match (f s x).2 with
    | some b => b :: filterMapSt f (f s x).1 xs
    | none => filterMapSt f (f s x).1 xs

/-- `iter.tuple_windows::<(T, T)>()`: the adjacent pairs -/
def windows : List Rat → List (Rat × Rat)
  | a :: b :: t => (a, b) :: windows (b :: t)
  | _ => []

/-- `iter.enumerate()`: `(index, item)` pairs from 0 -/
def enumerate {α : Type} (l : List α) : List (Nat × α) := (List.range l.length).zip l

/-! ### imperative `usize` bookkeeping (translator/finals.py) -/

/-- outcome of a run with `while` loops and checked `usize` subtraction -/
inductive Run (α : Type) where
  | ok (a : α)
  | panic
  | timeout
deriving DecidableEq, Repr

/-- `while cond(s) { s = body(s); }` with fuel: `guard s` is "no `usize` subtraction of the
condition underflows" (false: `panic`), the flag returned by `body` is `break`, running out of
fuel is `timeout` -/
def whileFuel {σ : Type} (guard cond : σ → Bool) (body : σ → σ × Bool) : Nat → σ → Run σ
  | 0, _ => .timeout
  | fuel + 1, s =>
    if guard s then
      if cond s then
        let r := body s
        if r.2 then .ok r.1 else whileFuel guard cond body fuel r.1
      else .ok s
    else .panic

/-- `for i in l { … }` with `break`: the flag returned by `body` stops the loop with the state reached -/
def forBreak {σ ι : Type} (l : List ι) (body : σ → ι → σ × Bool) (s : σ) : σ :=
  (l.foldl (fun (p : σ × Bool) i => if p.2 then p else body p.1 i) (s, false)).1

/-- `usize` subtraction as a release build computes it: wrapping modulo 2^64 -/
def wsub (a b : Nat) : Nat := if b ≤ a then a - b else 2 ^ 64 + a - b

/-- float comparisons against a finite literal: false on NaN (`none`) -/
def fLe (a : Option Rat) (b : Rat) : Bool := match a with | some x => decide (x ≤ b) | none => false
def fLt (a : Option Rat) (b : Rat) : Bool := match a with | some x => decide (x < b) | none => false
def fGe (a : Option Rat) (b : Rat) : Bool := match a with | some x => decide (x ≥ b) | none => false
def fGt (a : Option Rat) (b : Rat) : Bool := match a with | some x => decide (x > b) | none => false

end Tv.Gen
