import Tv.Model.Basic
import Tv.Spec.Stats
/-!
  C11 — from-scratch ("textbook") definitions of the aggregations, written over the list of
  non-null elements `valid xs` (for two series: over the pairwise-complete pairs), with no
  running state. `Spec.sum`, `Spec.mean`, `Spec.csum`, `Spec.cmom` come from `Tv/Spec/Stats.lean`.

  Mask: a statistic that needs `k` observations (`k = 1` sum / mean / extrema, `2` variance,
  covariance, correlation, `3` skewness, `4` kurtosis) is null iff `n < max min_periods k`.
  Documented floor (DESIGN 5.6): a population variance `≤ EPS` counts as zero spread.
-/
namespace Tv.C11.Spec
open Tv Tv.Spec

/-- required number of observations -/
def req (mp k : Nat) : Nat := max mp k

/-! ### counts, first / last, any / all -/

def countValid (xs : List (Option α)) : Nat := (valid xs).length

def countNone (xs : List (Option α)) : Nat := (xs.filter (·.isNone)).length

/-- number of elements matching `value`; a null `value` matches the nulls -/
def countValue [DecidableEq α] (value : Option α) (xs : List (Option α)) : Nat :=
  (xs.filter (· = value)).length

def firstValid (xs : List (Option α)) : Option α := (valid xs).head?

def lastValid (xs : List (Option α)) : Option α := (valid xs).getLast?

/-- some valid element is true -/
def anyValid (xs : List (Option Bool)) : Bool := (valid xs).contains true

/-- no valid element is false -/
def allValid (xs : List (Option Bool)) : Bool := !(valid xs).contains false

/-! ### moments of the valid elements -/

def ofOpt : Option Rat → Out
  | some q => .val q
  | none => .null

def vsum (xs : List (Option Rat)) : Out :=
  let l := valid xs
  if l.length < 1 then .null else .val (sum l)

def vmean (xs : List (Option Rat)) : Out :=
  let l := valid xs
  if l.length < 1 then .null else .val (mean l)

/-- mean under an explicit `min_periods`: null below `min_periods`; with `min_periods = 0` and no
observation the mean is `0/0` -/
def vmeanMp (mp : Nat) (xs : List (Option Rat)) : Out :=
  let l := valid xs
  if l.length < mp then .null else if l.length = 0 then .degen else .val (mean l)

/-- textbook sample variance `Σ (x - mean)² / (n - 1)` -/
def sampleVar (l : List Rat) : Rat := csum 2 (mean l) l / ((l.length : Rat) - 1)

/-- sample variance with the documented floor -/
def vvar (mp : Nat) (xs : List (Option Rat)) : Out :=
  let l := valid xs
  if l.length < req mp 2 then .null
  else if cmom 2 l ≤ EPS then .val 0
  else .val (sampleVar l)

def vstd (mp : Nat) (xs : List (Option Rat)) : Out :=
  let l := valid xs
  if l.length < req mp 2 then .null
  else if cmom 2 l ≤ EPS then .root 1 0
  else .root 1 (sampleVar l)

def vmeanVar (mp : Nat) (xs : List (Option Rat)) : Out × Out := (vmeanMp mp xs, vvar mp xs)

/-- `sign(x) * sqrt(q)` with a zero written as the plain value `0` -/
def sroot (x q : Rat) : Out := if x = 0 then .val 0 else .root (sgn x) q

/-- adjusted Fisher–Pearson skewness `sqrt(n(n-1))/(n-2) · m3 / m2^(3/2)`, as sign and square -/
def skewOf (l : List Rat) : Out :=
  let n : Rat := l.length
  let m2 := cmom 2 l
  let m3 := cmom 3 l
  sroot m3 (n * (n - 1) / ((n - 2) * (n - 2)) * (m3 * m3 / (m2 * m2 * m2)))

def vskew (mp : Nat) (xs : List (Option Rat)) : Out :=
  let l := valid xs
  if l.length < req mp 3 then .null
  else if cmom 2 l ≤ EPS then .val 0
  else skewOf l

/-- excess kurtosis `((n²-1)·m4/m2² − 3(n−1)²) / ((n−2)(n−3))` -/
def kurtOf (l : List Rat) : Rat :=
  let n : Rat := l.length
  let m2 := cmom 2 l
  let m4 := cmom 4 l
  ((n * n - 1) * (m4 / (m2 * m2)) - 3 * ((n - 1) * (n - 1))) / ((n - 2) * (n - 3))

def vkurt (mp : Nat) (xs : List (Option Rat)) : Out :=
  let l := valid xs
  if l.length < req mp 4 then .null
  else if cmom 2 l ≤ EPS then .val 0
  else .val (kurtOf l)

/-! ### extrema -/

/-- the least element: a member that is `≤` every member -/
def least (l : List Rat) : Option Rat := l.find? fun m => l.all fun x => decide (m ≤ x)

/-- the greatest element: a member that is `≥` every member -/
def greatest (l : List Rat) : Option Rat := l.find? fun m => l.all fun x => decide (x ≤ m)

def vmin (xs : List (Option Rat)) : Option Rat := least (valid xs)
def vmax (xs : List (Option Rat)) : Option Rat := greatest (valid xs)

/-- position (in the original series, nulls counted) of the first occurrence of the least
valid element -/
def vargmin (xs : List (Option Rat)) : Option Nat :=
  match least (valid xs) with
  | some m => xs.findIdx? (· = some m)
  | none => none

def vargmax (xs : List (Option Rat)) : Option Nat :=
  match greatest (valid xs) with
  | some m => xs.findIdx? (· = some m)
  | none => none

/-! ### masked aggregations -/

/-- the valid elements at the positions whose mask entry is a valid `true` -/
def selected (xs : List (Option Rat)) (mask : List (Option Bool)) : List Rat :=
  ((List.range (min xs.length mask.length)).filterMap fun i =>
    if mask[i]? = some (some true) then (xs[i]?).join else none)

def nVsumFilter (xs : List (Option Rat)) (mask : List (Option Bool)) : Nat × Rat :=
  ((selected xs mask).length, sum (selected xs mask))

def nSumFilter (xs : List (Option Rat)) (mask : List (Option Bool)) : Out :=
  let l := selected xs mask
  if l.length < 1 then .null else .val (sum l)

def vmeanFilter (mp : Nat) (xs : List (Option Rat)) (mask : List (Option Bool)) : Out :=
  let l := selected xs mask
  if l.length < mp then .null else if l.length = 0 then .degen else .val (mean l)

/-! ### two series: pairwise-complete observations -/

/-- a pair of observations is complete when both are non-null -/
def pairOf (p : Option Rat × Option Rat) : Option (Rat × Rat) :=
  match p.1, p.2 with
  | some a, some b => some (a, b)
  | _, _ => none

def pairsValid (xs ys : List (Option Rat)) : List (Rat × Rat) := (xs.zip ys).filterMap pairOf

/-- `Σ (a - ā)(b - b̄)` -/
def ccross (l : List (Rat × Rat)) : Rat :=
  let ma := mean (l.map (·.1))
  let mb := mean (l.map (·.2))
  sum (l.map fun p => (p.1 - ma) * (p.2 - mb))

/-- sample covariance `Σ (a - ā)(b - b̄) / (n - 1)` -/
def vcov (mp : Nat) (xs ys : List (Option Rat)) : Out :=
  let l := pairsValid xs ys
  if l.length < req mp 2 then .null
  else .val (ccross l / ((l.length : Rat) - 1))

/-- Pearson correlation `Σ(a-ā)(b-b̄) / sqrt(Σ(a-ā)² Σ(b-b̄)²)`, as sign and square; undefined
(zero denominator) when either series has zero spread -/
def vcorr (mp : Nat) (xs ys : List (Option Rat)) : Out :=
  let l := pairsValid xs ys
  let la := l.map (·.1)
  let lb := l.map (·.2)
  if l.length < req mp 2 then .null
  else if cmom 2 la ≤ EPS ∨ cmom 2 lb ≤ EPS then .degen
  else
    let c := ccross l
    .root (sgn c) (c * c / (csum 2 (mean la) la * csum 2 (mean lb) lb))

/-! ### plain aggregations (null-free input) -/

def countEq [DecidableEq α] (value : α) (xs : List α) : Nat := (xs.filter (· = value)).length

def sumPlain (xs : List Rat) : Out := if xs.length < 1 then .null else .val (sum xs)
def meanPlain (xs : List Rat) : Out := if xs.length < 1 then .null else .val (mean xs)

def argmin (xs : List Rat) : Option Nat :=
  match least xs with
  | some m => xs.findIdx? (· = m)
  | none => none

def argmax (xs : List Rat) : Option Nat :=
  match greatest xs with
  | some m => xs.findIdx? (· = m)
  | none => none

end Tv.C11.Spec
