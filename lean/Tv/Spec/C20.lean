import Tv.Model.C20
/-!
  C20 — from-scratch specification of the composite analytics, written independently of the
  code's structure (only the vocabulary `Cls`, `Method`, `Out`, `valid` is shared with the model):

  * half-life: the first lag `≥ 1` whose autocorrelation is not above 0.5, capped at `len-1`
    (a linear search, no doubling, no bisection);
  * winsorize: bounds from the textbook definitions (one quantile formula on the ascending
    order, median ± k·MAD, mean ± k·sample-sigma), then `max lo (min x hi)`;
  * Spearman: ranks read off the sorted order (mean of the first and last position of a value),
    Pearson in its centred textbook form.
-/
namespace Tv.C20.Spec
open Tv Tv.C20

/-! ## half-life -/

/-- first lag in `1..=bound` at which the autocorrelation is not above 0.5 -/
def firstNotAbove (c : Nat → Cls) (bound : Nat) : Option Nat :=
  ((List.range bound).map (· + 1)).find? (fun l => c l ≠ .above)

/-- the half-life: first lag that is not above 0.5, capped at `len - 1` -/
def halfLife (c : Nat → Cls) (len : Nat) : Nat :=
  min ((firstNotAbove c len).getD len) (len - 1)

/-- "stays above 0.5 exactly up to some lag" on the lags `1..=len`: no lag after the first
not-above lag is above again -/
def thresholdShaped (c : Nat → Cls) (len : Nat) : Bool :=
  match firstNotAbove c len with
  | none => true
  | some f => ((List.range len).map (· + 1)).all fun l => l < f || c l ≠ .above

/-- the guarantees that hold for every oracle: the lag is in range, is 0 only for series shorter
than two, and is a down-crossing (`c (r-1)` above or `r = 1`; `c r` not above) -/
def admissible (c : Nat → Cls) (len r : Nat) : Bool :=
  decide (r ≤ len - 1) && decide (r = 0 ↔ len < 2) &&
    (r == 0 || (c r ≠ .above && (r == 1 || c (r - 1) = .above)))

/-! ## winsorize -/

def clip1 (lo hi : Option Rat) (x : Rat) : Rat :=
  let y := match hi with | some h => min x h | none => x
  match lo with | some l => max l y | none => y

def clip (lo hi : Option Rat) (xs : List (Option Rat)) : List (Option Rat) :=
  xs.map (Option.map (clip1 lo hi))

def sorted (vs : List Rat) : List Rat := vs.mergeSort (fun a b => decide (a ≤ b))

/-- linear-interpolation quantile of the valid data: `s[⌊h⌋] + (h - ⌊h⌋)(s[⌈h⌉] - s[⌊h⌋])`,
`h = (n-1) q`, on the ascending order `s` -/
def quantile (vs : List Rat) (q : Rat) : Option Rat :=
  let s := sorted vs
  let n := s.length
  if n = 0 then none else
  let h : Rat := ((n - 1 : Nat) : Rat) * q
  let i := h.floor.toNat
  let j := h.ceil.toNat
  match s[i]?, s[j]? with
  | some a, some b => some (a + (h - (i : Rat)) * (b - a))
  | _, _ => none

def sum (l : List Rat) : Rat := l.foldr (· + ·) 0

def bounds (sqrt : Rat → Rat) (m : Method) (p : Option Rat) (xs : List (Option Rat)) :
    Option Rat × Option Rat :=
  let vs := valid xs
  let k := p.getD (match m with | .quantile => 1 / 100 | _ => 3)
  match m with
  | .quantile => (quantile vs k, quantile vs (1 - k))
  | .median =>
    match quantile vs (1 / 2) with
    | none => (none, none)
    | some med =>
      match quantile (vs.map fun v => if v < med then med - v else v - med) (1 / 2) with
      | none => (none, none)
      | some mad => (some (med - k * mad), some (med + k * mad))
  | .sigma =>
    let n := vs.length
    if n < 2 then (none, none) else
    let mean := sum vs / (n : Rat)
    let var := sum (vs.map fun v => (v - mean) * (v - mean)) / ((n : Rat) - 1)
    let sd := sqrt var
    (some (mean - k * sd), some (mean + k * sd))

def winsorize (sqrt : Rat → Rat) (m : Method) (p : Option Rat) (xs : List (Option Rat)) :
    List (Option Rat) :=
  let b := bounds sqrt m p xs
  clip b.1 b.2 xs

/-! ## Spearman -/

/-- average rank of `v`: mean of its first and last 1-based position in the ascending order -/
def rankSorted (s : List Rat) (v : Rat) : Rat :=
  let first := s.findIdx (· = v)
  let last := s.length - 1 - s.reverse.findIdx (· = v)
  ((first : Rat) + (last : Rat)) / 2 + 1

def ranks (xs : List (Option Rat)) : List (Option Rat) :=
  let s := sorted (valid xs)
  xs.map (Option.map (rankSorted s))

/-- textbook Pearson correlation of the pairwise-valid pairs:
`Σ(a-ā)(b-b̄) / √(Σ(a-ā)² Σ(b-b̄)²)`; undefined (null) with fewer than `max mp 2` pairs or when
a population variance is at or below the documented floor `EPS` -/
def pearson (xs ys : List (Option Rat)) (mp : Nat) : Out :=
  let ps := (xs.zip ys).filterMap fun p => match p.1, p.2 with
    | some a, some b => some (a, b)
    | _, _ => none
  let n := ps.length
  if n < 2 ∨ n < mp then .null else
  let nq : Rat := (n : Rat)
  let ma := sum (ps.map (·.1)) / nq
  let mb := sum (ps.map (·.2)) / nq
  let sxx := sum (ps.map fun p => (p.1 - ma) * (p.1 - ma))
  let syy := sum (ps.map fun p => (p.2 - mb) * (p.2 - mb))
  let sxy := sum (ps.map fun p => (p.1 - ma) * (p.2 - mb))
  if sxx / nq ≤ EPS ∨ syy / nq ≤ EPS then .null
  else .root (sgn sxy) (sxy * sxy / (sxx * syy))

def spearman (xs ys : List (Option Rat)) (mp : Option Nat) : Out :=
  pearson (ranks xs) (ranks ys) (mp.getD (xs.length / 2))

end Tv.C20.Spec
