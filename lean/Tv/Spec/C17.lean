/-
  C17 — from-scratch specification of date-time / duration / time-of-day arithmetic
  (core Lean only).  Nothing here looks at the Rust code or at `Tv.Model.C17`:

  * instants are integers (nanoseconds since 1970-01-01T00:00:00), a `DateTime<u>` value `x`
    denotes the instant `x · mult u`; the value denoting an instant `t` at unit `u` is the
    greatest `r` with `r · mult u ≤ t` (computed through `Rat.floor`);
  * the calendar is defined by counting: days before a year, lengths of the months of a year;
    the civil date of a day number is found by search;
  * adding months steps month by month and clamps the day to the length of the target month;
  * durations are pairs (months, nanoseconds) with component-wise arithmetic;
  * a time of day is `h·3600·10⁹ + m·60·10⁹ + s·10⁹ + f`.
-/
namespace Tv.C17.Spec

def mult (u : String) : Int :=
  if u = "s" then 1000000000 else if u = "ms" then 1000000 else if u = "us" then 1000 else 1

/-- the value at a unit of `m` ns denoting instant `t`: greatest `r` with `r·m ≤ t` -/
def floorUnit (m t : Int) : Int := Rat.floor ((t : Rat) / (m : Rat))

/-! ### calendar by counting -/

def leap (y : Int) : Bool := y % 4 == 0 && (y % 100 != 0 || y % 400 == 0)

def monthLengths (y : Int) : List Int :=
  [31, if leap y then 29 else 28, 31, 30, 31, 30, 31, 31, 30, 31, 30, 31]

def yearLength (y : Int) : Int := if leap y then 366 else 365

/-- number of days from 0001-01-01 to `y`-01-01 (negative before) -/
def daysBeforeYear (y : Int) : Int :=
  let p := y - 1
  365 * p + p / 4 - p / 100 + p / 400

/-- day number (1970-01-01 = 0) of the civil date -/
def dayNumber (y m d : Int) : Int :=
  daysBeforeYear y - daysBeforeYear 1970 + ((monthLengths y).take (m - 1).toNat).sum + (d - 1)

/-- walk forward from a year that is not after the target -/
def findYear : Nat → Int → Int → Int
  | 0, y, _ => y
  | fuel + 1, y, z => if dayNumber (y + 1) 1 1 ≤ z then findYear fuel (y + 1) z else y

def findMonth : List Int → Int → Int → Int × Int
  | [], m, r => (m, r + 1)
  | l :: ls, m, r => if r < l then (m, r + 1) else findMonth ls (m + 1) (r - l)

/-- civil date of a day number -/
def civil (z : Int) : Int × Int × Int :=
  let y0 := 1970 + z * 400 / 146097 - 2   -- a year whose 1 January is not after `z`
  let y := findYear 6 y0 z
  let (m, d) := findMonth (monthLengths y) 1 (z - dayNumber y 1 1)
  (y, m, d)

def nextMonth (ym : Int × Int) : Int × Int := if ym.2 = 12 then (ym.1 + 1, 1) else (ym.1, ym.2 + 1)
def prevMonth (ym : Int × Int) : Int × Int := if ym.2 = 1 then (ym.1 - 1, 12) else (ym.1, ym.2 - 1)

def iter (f : α → α) : Nat → α → α
  | 0, a => a
  | n + 1, a => iter f n (f a)

/-- calendar month addition: move `k` months, then clamp the day to the target month -/
def addMonths (c : Int × Int × Int) (k : Int) : Int × Int × Int :=
  let ym := if k ≥ 0 then iter nextMonth k.toNat (c.1, c.2.1) else iter prevMonth (-k).toNat (c.1, c.2.1)
  let len := (monthLengths ym.1).getD (ym.2 - 1).toNat 31
  (ym.1, ym.2, if c.2.2 > len then len else c.2.2)

def dayNs : Int := 86400 * 1000000000

/-- instant `t` moved by `k` calendar months (same time of day) -/
def addMonthsInstant (t k : Int) : Int :=
  let z := floorUnit dayNs t
  let c := addMonths (civil z) k
  dayNumber c.1 c.2.1 c.2.2 * dayNs + (t - z * dayNs)

/-- first instant of month `m` of year `y` -/
def firstInstant (y m : Int) : Int := dayNumber y m 1 * dayNs

/-! ### durations -/

/-- (months, nanoseconds) -/
abbrev Dur := Int × Int
def Dur.add (a b : Dur) : Dur := (a.1 + b.1, a.2 + b.2)
def Dur.neg (a : Dur) : Dur := (-a.1, -a.2)
def Dur.smul (k : Int) (a : Dur) : Dur := (k * a.1, k * a.2)

/-- representable durations: `i32` months other than the NaT marker, at most `i64::MAX` ms -/
def Dur.ok (a : Dur) : Bool :=
  decide (-2147483648 < a.1) && decide (a.1 ≤ 2147483647) &&
  decide (-(9223372036854775807 * 1000000) ≤ a.2) && decide (a.2 ≤ 9223372036854775807 * 1000000)

/-! ### date-time arithmetic -/

/-- instants a `DateTime<u>` can hold / chrono can represent -/
def instantOk (u : String) (t : Int) : Bool :=
  if u = "ns" then decide (-9223372036854775808 < t) && decide (t ≤ 9223372036854775807)
  else decide (dayNumber (-262143) 1 1 * dayNs ≤ t) && decide (t < (dayNumber 262142 12 31 + 1) * dayNs)

/-- `x + (k months, n ns)`: months first, then the fixed part, expressed at the unit -/
def addInstant (u : String) (x k n : Int) : Option Int :=
  let t0 := x * mult u
  let t1 := addMonthsInstant t0 k
  let t2 := t1 + n
  if instantOk u t0 && instantOk u t1 && instantOk u t2 then some (floorUnit (mult u) t2) else none

/-- greatest multiple of `n > 0` not after `t` -/
def truncFixed (t n : Int) : Int := n * floorUnit n t

/-- first instant of the `dm`-month period (`dm ∣ 12`) of the calendar year containing `t` -/
def truncMonths (t dm : Int) : Int :=
  let c := civil (floorUnit dayNs t)
  firstInstant c.1 (1 + dm * ((c.2.1 - 1) / dm))

/-! ### time of day -/

def timeOf (h m s f : Int) : Int := h * 3600000000000 + m * 60000000000 + s * 1000000000 + f
def dayLen : Int := 86400000000000

end Tv.C17.Spec
