import Tv.Model.Basic
/-!
  From-scratch definitions for C03, written independently of the closures. Every function
  takes one window `l : List (Option Rat)` (oldest element first, the current element
  last, `none` = null) and, where there is one, the effective `min_periods` `mp`.
-/
namespace Tv.C03.Spec
open Tv

/-- non-null elements of the window -/
def vals (l : List (Option Rat)) : List Rat := l.filterMap id

/-- least element of a list of rationals (`none` for the empty list) -/
def least : List Rat → Option Rat
  | [] => none
  | x :: r => match least r with
    | none => some x
    | some m => some (if x ≤ m then x else m)

/-- greatest element -/
def greatest : List Rat → Option Rat
  | [] => none
  | x :: r => match greatest r with
    | none => some x
    | some m => some (if m ≤ x then x else m)

/-- 1-based offset from the window start of the most recent position holding `m` -/
def lastPos (m : Rat) (l : List (Option Rat)) : Option Nat :=
  (((List.range l.length).filter fun k => l[k]? = some (some m)).getLast?).map (· + 1)

def ofOpt : Option Rat → Out
  | some q => .val q
  | none => .null

def ofOptNat : Option Nat → Out
  | some k => .val (k : Rat)
  | none => .null

/-- mask: at least `mp` non-null elements in the window -/
def masked (mp : Nat) (l : List (Option Rat)) (o : Out) : Out :=
  if (vals l).length ≥ mp then o else .null

/-- rolling minimum: least non-null element (null if there is none) -/
def tsMin (mp : Nat) (l : List (Option Rat)) : Out := masked mp l (ofOpt (least (vals l)))

def tsMax (mp : Nat) (l : List (Option Rat)) : Out := masked mp l (ofOpt (greatest (vals l)))

/-- rolling arg-min: offset of the most recent position holding the minimum -/
def tsArgmin (mp : Nat) (l : List (Option Rat)) : Out :=
  masked mp l (match least (vals l) with
    | some m => ofOptNat (lastPos m l)
    | none => .null)

def tsArgmax (mp : Nat) (l : List (Option Rat)) : Out :=
  masked mp l (match greatest (vals l) with
    | some m => ofOptNat (lastPos m l)
    | none => .null)

/-- average rank of `v` among `vs` (which contains `v`): ascending
`#{a < v} + (#{a = v} + 1) / 2`, descending `#{a > v} + (#{a = v} + 1) / 2` -/
def avgRank (rev : Bool) (v : Rat) (vs : List Rat) : Rat :=
  let strict : Nat := if rev then vs.countP (fun a => decide (v < a)) else vs.countP (fun a => decide (a < v))
  let ties : Nat := vs.countP (fun a => decide (a = v))
  (strict : Rat) + ((ties : Rat) + 1) / 2

/-- rolling rank of the current (= last) element among the non-null elements of its window;
null when the current element is null -/
def tsRank (mp : Nat) (pct rev : Bool) (l : List (Option Rat)) : Out :=
  match l.getLast? with
  | some (some v) =>
    masked mp l (.val (if pct then avgRank rev v (vals l) / ((vals l).length : Rat)
                       else avgRank rev v (vals l)))
  | _ => .null

/-- min-max normalisation `(x - min) / (max - min)`; null if `x` is null, below the mask or
when the spread is zero -/
def tsMinmaxnorm (mp : Nat) (l : List (Option Rat)) : Out :=
  match l.getLast?, least (vals l), greatest (vals l) with
  | some (some x), some lo, some hi =>
    masked mp l (if hi = lo then .null else .val ((x - lo) / (hi - lo)))
  | _, _, _ => .null

def sum (l : List Rat) : Rat := l.foldr (· + ·) 0
def mean (l : List Rat) : Rat := sum l / (l.length : Rat)
/-- `Σ (x - c)²` -/
def css (c : Rat) (l : List Rat) : Rat := sum (l.map fun x => (x - c) * (x - c))

def EPS : Rat := 1 / 100000000000000
def sgn (q : Rat) : Int := if q < 0 then -1 else if q = 0 then 0 else 1

/-- z-score `(x - mean) / sample-std` over the non-null window, as `sign · sqrt(quotient of
squares)`; null if `x` is null, below the mask, or the spread is zero (population variance at
or below the documented floor `EPS`; in particular for a single observation) -/
def tsZscore (mp : Nat) (l : List (Option Rat)) : Out :=
  match l.getLast? with
  | some (some x) =>
    let vs := vals l
    masked mp l (
      if css (mean vs) vs / (vs.length : Rat) ≤ EPS then .null
      else if vs.length = 1 then .degen
      else .root (sgn (x - mean vs))
            ((x - mean vs) * (x - mean vs) / (css (mean vs) vs / ((vs.length : Rat) - 1))))
  | _ => .null

end Tv.C03.Spec
