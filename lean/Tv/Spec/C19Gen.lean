import Tv.Model.C19Gen
/-!
  C19 — from-scratch specification of the generators and collectors, written independently
  of the code (only the outcome / status vocabulary of the model file is shared).

  * a range is the arithmetic progression `a, a+step, ...` cut after
    `countBefore = max 0 ⌈(b-a)/step⌉` elements, the quotient taken in exact rational
    arithmetic (no truncating division anywhere);
  * `linspace` is `i ↦ a + i·step` for `i < n` with `step = (b-a)/(n-1)` (rounded toward zero
    for integer element types);
  * collectors are the identity on the item sequence; a fallible collection is the first
    error if there is one; a write into an uninitialised buffer is described by the final
    buffer contents.
-/
namespace Tv.C19.Spec
open Tv.C19

/-- the first `n` terms of the progression `a, a + step, a + 2·step, ...` -/
def progression {α : Type} [Add α] [Mul α] [NatCast α] (a step : α) (n : Nat) : List α :=
  (List.range n).map fun (k : Nat) => a + step * ((k : Nat) : α)

/-- `max 0 ⌈(b-a)/step⌉` in exact arithmetic -/
def countBefore (a b step : Rat) : Nat := ((b - a) / step).ceil.toNat

/-- `x` lies strictly before `b` in the direction of `step` -/
def Before {α : Type} [LT α] [OfNat α 0] (step x b : α) : Prop :=
  (0 < step ∧ x < b) ∨ (step < 0 ∧ b < x)

def rangeRat (a b step : Rat) : List Rat := progression a step (countBefore a b step)

def rangeInt (a b step : Int) : List Int := progression a step (countBefore a b step)

/-- rounding toward zero of an exact quotient -/
def truncRat (q : Rat) : Int := if 0 ≤ q then q.floor else q.ceil

def linspaceRat (a b : Rat) (n : Nat) : List Rat :=
  progression a (if n ≤ 1 then 0 else (b - a) / ((n : Rat) - 1)) n

def linspaceInt (a b : Int) (n : Nat) : List Int :=
  progression a (if n ≤ 1 then 0 else truncRat (((b - a : Int) : Rat) / ((n : Rat) - 1))) n

def full (len : Nat) (v : α) : List α := List.replicate len v

/-- the error of the first failing item, if any -/
def firstErr : List (Except ε α) → Option ε
  | [] => none
  | .error e :: _ => some e
  | .ok _ :: rest => firstErr rest

def okValues (l : List (Except ε α)) : List α :=
  l.filterMap fun | .ok v => some v | .error _ => none

/-- fallible collection: the first error wins, otherwise all values in order -/
def tryCollect (l : List (Except ε α)) : Except ε (List α) :=
  match firstErr l with
  | some e => .error e
  | none => .ok (okValues l)

/-- items pulled from the source: up to and including the first error -/
def consumed : List (Except ε α) → Nat
  | [] => 0
  | .error _ :: _ => 1
  | .ok _ :: rest => consumed rest + 1

/-- optional items to the null encoding -/
def optEncode (none' : α) (l : List (Option α)) : List α := l.map fun | some v => v | none => none'

/-- writing `items` into an uninitialised buffer of `len` slots: status and final buffer.
Either every slot is filled (from the items one to one, or by broadcasting a single item) or
an error is reported and the buffer is untouched. -/
def write (len : Nat) (items : List α) : WStatus × List (Option α) :=
  if len = 0 then (.ok, [])
  else if items.length = len then (.ok, items.map some)
  else match items with
    | [v] => (.ok, List.replicate len (some v))
    | _ => (.err, List.replicate len none)

end Tv.C19.Spec
