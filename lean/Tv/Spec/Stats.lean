import Tv.Model.Basic
/-!
  From-scratch ("textbook") definitions of the window statistics, written independently
  of the closures. Input: the non-null elements of one window, oldest first.
  `mp` is the effective minimum number of observations (mask, C05).
-/
namespace Tv.Spec
open Tv

def sum (l : List Rat) : Rat := l.foldr (· + ·) 0

def mean (l : List Rat) : Rat := sum l / (l.length : Rat)

/-- `Σ (x - c)^k` -/
def csum (k : Nat) (c : Rat) (l : List Rat) : Rat := sum (l.map fun x => (x - c) ^ k)

/-- k-th central moment `Σ (x - mean)^k / n` -/
def cmom (k : Nat) (l : List Rat) : Rat := csum k (mean l) l / (l.length : Rat)

def EPS : Rat := 1 / 100000000000000

def sgn (q : Rat) : Int := if q < 0 then -1 else if q = 0 then 0 else 1

def masked (mp : Nat) (l : List Rat) (f : List Rat → Out) : Out :=
  if l.length ≥ mp then f l else .null

def tsSum (mp : Nat) (l : List Rat) : Out := masked mp l fun l => .val (sum l)

def tsMean (mp : Nat) (l : List Rat) : Out :=
  masked mp l fun l => if l.length = 0 then .degen else .val (mean l)

/-- sample variance `Σ(x-mean)²/(n-1)`, with the documented floor: a population variance
at or below `EPS` counts as zero spread. -/
def tsVar (mp : Nat) (l : List Rat) : Out :=
  masked mp l fun l =>
    if cmom 2 l ≤ EPS then .val 0
    else if l.length = 1 then .degen else .val (csum 2 (mean l) l / ((l.length : Rat) - 1))

def tsStd (mp : Nat) (l : List Rat) : Out :=
  masked mp l fun l =>
    if cmom 2 l ≤ EPS then .val 0
    else if l.length = 1 then .degen else .root 1 (csum 2 (mean l) l / ((l.length : Rat) - 1))

/-- adjusted Fisher–Pearson skewness `sqrt(n(n-1))/(n-2) * m3 / m2^(3/2)` -/
def tsSkew (mp : Nat) (l : List Rat) : Out :=
  masked mp l fun l =>
    let n : Rat := l.length
    let m2 := cmom 2 l
    let m3 := cmom 3 l
    if m2 ≤ EPS then .val 0
    else if l.length = 2 then .degen
    else .root (sgn m3) (n * (n - 1) * (m3 * m3) / ((n - 2) * (n - 2) * (m2 * m2 * m2)))

/-- excess kurtosis `((n²-1) m4/m2² - 3(n-1)²) / ((n-2)(n-3))` -/
def tsKurt (mp : Nat) (l : List Rat) : Out :=
  masked mp l fun l =>
    let n : Rat := l.length
    let m2 := cmom 2 l
    let m4 := cmom 4 l
    if m2 ≤ EPS then .val 0
    else if l.length = 2 ∨ l.length = 3 then .degen
    else .val (((n * n - 1) * (m4 / (m2 * m2)) - 3 * ((n - 1) * (n - 1))) / ((n - 2) * (n - 3)))

/-- weights `oma^k` on the k-th most recent element, normalised: `Σ oma^k x_(k) / Σ oma^k`,
`oma = 1 - 2/w` -/
def ewmNum (oma : Rat) : List Rat → Rat   -- argument: newest first
  | [] => 0
  | x :: r => x + oma * ewmNum oma r

def geom (oma : Rat) : Nat → Rat
  | 0 => 0
  | n + 1 => 1 + oma * geom oma n

def tsEwm (w mp : Nat) (l : List Rat) : Out :=
  masked mp l fun l =>
    let oma : Rat := 1 - 2 / (w : Rat)
    Out.div (ewmNum oma l.reverse) (geom oma l.length)

/-- linear weights `1..n` (oldest..newest): `Σ k x_k / (n(n+1)/2)` -/
def wmaNum : List Rat → Rat   -- argument: newest first; newest gets weight = length
  | [] => 0
  | x :: r => ((r.length + 1 : Nat) : Rat) * x + wmaNum r

def tsWma (mp : Nat) (l : List Rat) : Out :=
  masked mp l fun l =>
    Out.div (wmaNum l.reverse) ((l.length : Rat) * ((l.length : Rat) + 1) / 2)

/-- from-scratch value of feature `f` on the non-null window contents `l` -/
def feat (f : Feat) (w : Nat) (mp : Option Nat) (l : List Rat) : Out :=
  let m := effMp mp w f.minK
  match f with
  | .sum => tsSum m l
  | .mean => tsMean m l
  | .ewm => tsEwm w m l
  | .wma => tsWma m l
  | .std => tsStd m l
  | .var => tsVar m l
  | .skew => tsSkew m l
  | .kurt => tsKurt m l

/-- generalized binomial by its product formula -/
def gbinom (d : Rat) (k : Nat) : Rat :=
  (List.range k).foldl (fun (acc : Rat) (j : Nat) => acc * (d - (j : Rat)) / ((j : Rat) + 1)) 1

/-- `Σ_k (-1)^k C(d,k) x_(k)` over the k-th most recent element -/
def fdiffSum (d : Rat) : Nat → List Rat → Rat   -- list newest first, k = index of head
  | _, [] => 0
  | k, x :: r => (if k % 2 = 0 then 1 else -1) * gbinom d k * x + fdiffSum d (k + 1) r

def tsVfdiff (d : Rat) (mp : Nat) (l : List Rat) : Out :=
  masked mp l fun l => .val (fdiffSum d 0 l.reverse)

def tsFdiff (d : Rat) (l : List Rat) : Out := .val (fdiffSum d 0 l.reverse)

end Tv.Spec
