/-!
  C14 — from-scratch specification (independent of `Tv/Model/C14*.lean`).

  Binning: ascending edges `e₀ ≤ e₁ ≤ …` define the intervals `(eₖ, eₖ₊₁]` (right-closed) or
  `[eₖ, eₖ₊₁)` (left-closed); with open outer bounds there is one more interval at either end,
  unbounded below resp. above (`none` = −∞ as a lower end, +∞ as an upper end). A value gets
  the label of *the* interval that contains it.

  Run de-duplication: a run is a maximal block of adjacent equal non-null values.
-/
namespace Tv.C14.Spec

/-- an interval with optional finite ends (`lo = none`: −∞, `hi = none`: +∞) -/
structure Interval where
  lo : Option Int
  hi : Option Int
  deriving Repr, DecidableEq

/-- membership, right-closed `(lo, hi]` or left-closed `[lo, hi)` -/
def Interval.contains (right : Bool) (I : Interval) (v : Int) : Bool :=
  (match I.lo with
   | none => true
   | some a => if right then decide (a < v) else decide (a ≤ v)) &&
  (match I.hi with
   | none => true
   | some b => if right then decide (v ≤ b) else decide (v < b))

/-- the intervals defined by the edges: consecutive pairs, plus the two unbounded ones when open -/
def intervals (bins : List Int) (openBounds : Bool) : List Interval :=
  let lows : List (Option Int) := if openBounds then none :: bins.map some else bins.map some
  let highs : List (Option Int) := if openBounds then bins.map some ++ [none] else (bins.drop 1).map some
  (lows.zip highs).map fun p => ⟨p.1, p.2⟩

/-- expected outcome for one element; `ambiguous` can only arise for non-ascending edges -/
inductive Outcome (L : Type) where
  | label (l : L)
  | null
  | outside
  | ambiguous
  deriving DecidableEq, Repr

/-- number of edges including the open outer bounds -/
def nEdges (bins : List Int) (openBounds : Bool) : Nat := bins.length + (if openBounds then 2 else 0)

/-- does interval number `k` contain `v`? -/
def hitAt (ivs : List Interval) (right : Bool) (v : Int) (k : Nat) : Bool :=
  match ivs[k]? with
  | some I => I.contains right v
  | none => false

/-- label of the one interval containing `v` -/
def cutOne {L : Type} (ivs : List Interval) (labels : List L) (right : Bool) : Option Int → Outcome L
  | none => .null
  | some v =>
    match (List.range ivs.length).filter (hitAt ivs right v) with
    | [] => .outside
    | [k] => match labels[k]? with
             | some l => .label l
             | none => .outside
    | _ => .ambiguous

/-- `none` = label count does not match (there must be exactly one label per interval, i.e. one
fewer than edges; an empty edge vector without open bounds defines no binning at all) -/
def cut {L : Type} (xs : List (Option Int)) (bins : List Int) (labels : List L) (right openBounds : Bool) :
    Option (List (Outcome L)) :=
  if labels.length + 1 ≠ nEdges bins openBounds then none
  else some (xs.map (cutOne (intervals bins openBounds) labels right))

/-- first index of every run of equal non-null values -/
def runStarts (xs : List (Option Int)) : List Nat :=
  (List.range xs.length).filter fun i =>
    match xs[i]? with
    | some (some a) => decide (i = 0 ∨ xs[i - 1]? ≠ some (some a))
    | _ => false

/-- last index of every run of equal non-null values -/
def runEnds (xs : List (Option Int)) : List Nat :=
  (List.range xs.length).filter fun i =>
    match xs[i]? with
    | some (some a) => decide (xs[i + 1]? ≠ some (some a))
    | _ => false

/-- one representative per run -/
def runValues (xs : List (Option Int)) : List (Option Int) :=
  (runStarts xs).filterMap (xs[·]?)

end Tv.C14.Spec
