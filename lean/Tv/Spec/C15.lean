import Tv.Model.C15Val
/-!
  C15 — from-scratch specification of the null / cast algebra, written from the property text and
  not from the impls: every type has an *optional view* (`None` for its canonical null, `Some`
  of the inner value otherwise); the `IsNone` observers are that view; a cast is "convert the
  inner value with the language's own conversion, keep nulls null".  Where the property is
  silent (a null cast into a type without a null, casts that have no language counterpart) the
  spec says `any`.  Shares only the vocabulary and the std-level primitives of `Model/C15Val`.
-/
namespace Tv.C15.Spec
open Tv.C15

/-- what the spec demands of an outcome -/
inductive S (α : Type) where
  | val (a : α)
  | panic
  | any
  deriving Repr

def S.map (f : α → β) : S α → S β
  | .val a => .val (f a)
  | .panic => .panic
  | .any => .any

/-! ### nulls -/

/-- canonical null of a base type (DESIGN 5.4): NaN, `"None"`, `i64::MIN`, `months = i32::MIN` -/
def isNull (b : Base) (v : Val) : Bool :=
  match b, v with
  | .f32, .flt .nan => true
  | .f64, .flt .nan => true
  | .str, .str s => s == "None"
  | .sref, .str s => s == "None"
  | .dt, .int i => i == -(2 ^ 63)
  | .time, .int i => i == -(2 ^ 63)
  | .td, .td m _ => m == -(2 ^ 31)
  | _, _ => false

/-- the null of a base type, if it has one -/
def nullOf (b : Base) : Option Val :=
  match b with
  | .f32 | .f64 => some (.flt .nan)
  | .str | .sref => some (.str "None")
  | .dt | .time => some (.int (-(2 ^ 63)))
  | .td => some (.td (-(2 ^ 31)) 0)
  | _ => none

/-- the optional view of a value of type `t` -/
def view (t : Ty) (x : XV) : Option Val :=
  match x with
  | .v a => if isNull t.base a then none else some a
  | .o a => a

/-- can `t` represent a null? -/
def nullable (t : Ty) : Bool := t.opt || (nullOf t.base).isSome

/-- the value of type `t` with the given optional view (`any`: `t` has no null) -/
def build (t : Ty) (o : Option Val) : S XV :=
  match o with
  | some v => .val (if t.opt then .o (some v) else .v v)
  | none =>
    if t.opt then .val (.o none)
    else match nullOf t.base with
      | some n => .val (.v n)
      | none => .any

/-! ### the language's conversions, from scratch -/

/-- the representative of `i` modulo `hi - lo + 1` inside `[lo, hi]` -/
def wrapTo (lo hi i : Int) : Int := lo + (i - lo) % (hi - lo + 1)

def clampTo (lo hi i : Int) : Int := if i < lo then lo else if hi < i then hi else i

def ratAbs (q : Rat) : Rat := if q < 0 then -q else q

/-- `⌊log₂ a⌋` for `a > 0`: an estimate from the integer part, corrected by comparison -/
def expOf (a : Rat) : Int :=
  let e0 : Int := if 1 ≤ a then (Nat.log2 a.floor.toNat : Int) else -((Nat.log2 (1 / a).ceil.toNat : Int)) - 1
  let down (e : Int) : Int := if a < pow2 e then e - 1 else e
  let up (e : Int) : Int := if pow2 (e + 1) ≤ a then e + 1 else e
  up (up (down (down e0)))

/-- nearest representable value of the binary format (`prec` bits, exponents `emin..emax`),
ties to the even significand, overflow to infinity -/
def nearest (f : FltTy) (q : Rat) : FV :=
  if q = 0 then .fin 0 else
  let a := ratAbs q
  let e := expOf a
  let ulp := pow2 ((if e < f.emin then f.emin else e) - ((f.prec : Int) - 1))
  let scaled := a / ulp
  let lo := scaled.floor
  let frac := scaled - (lo : Rat)
  let m : Int := if frac < 1 / 2 then lo else if 1 / 2 < frac then lo + 1 else if lo % 2 = 0 then lo else lo + 1
  let mag := (m : Rat) * ulp
  let maxFinite : Rat := ((2 : Rat) ^ f.prec - 1) * pow2 (f.emax - ((f.prec : Int) - 1))
  if maxFinite < mag then .inf (decide (q < 0)) else .fin (if q < 0 then -mag else mag)

/-- `x as D` between numeric types: integers wrap, float → int saturates toward zero with
NaN ↦ 0, anything → float rounds to nearest even -/
def asSpec (d : Base) (v : Val) : Val :=
  match d.intTy, d.fltTy, v with
  | some t, _, .int i => .int (wrapTo t.lo t.hi i)
  | some _, _, .flt .nan => .int 0
  | some t, _, .flt (.inf neg) => .int (if neg then t.lo else t.hi)
  | some t, _, .flt (.fin q) => .int (clampTo t.lo t.hi (if 0 ≤ q then q.floor else q.ceil))
  | none, some f, .int i => .flt (nearest f i)
  | none, some f, .flt (.fin q) => .flt (nearest f q)
  | _, _, w => w

/-- raw i64 of a time value as the crate documents it: the stored integer; `TimeDelta`: whole
microseconds, only for calendar-free deltas -/
def rawOfTime (v : Val) : S Int :=
  match v with
  | .int i => .val i
  | .td m n => if m = 0 then .val (Int.tdiv n 1000) else .any
  | _ => .any

/-- the time value with a given raw i64 (`i64::MIN` *is* NaT: in-band sentinel) -/
def timeOfRaw (d : Base) (raw : Int) : Val :=
  if d == .td then (if raw = -(2 ^ 63) then .td (-(2 ^ 31)) 0 else .td 0 raw) else .int raw

/-- conversion of a *non-null* inner value from base `s` to base `d` -/
def conv (s d : Base) (v : Val) : S Val :=
  if s.isNum then
    if d.isNum then .val (asSpec d v)
    else if d == .bool then
      match asSpec .i64 v, v with
      | _, .flt (.inf _) => .any
      | .int 0, _ => .val (.bool false)
      | .int 1, _ => .val (.bool true)
      | _, _ => .any
    else if d == .str then .val (.str (displayVal v))
    else if d.isTime then
      match asSpec .i64 v with
      | .int raw => .val (timeOfRaw d raw)
      | _ => .any
    else .any
  else if s == .bool then
    if d.isNum then .val (asSpec d (.int (if v == .bool true then 1 else 0)))
    else if d == .bool then .val v
    else if d == .str then .val (.str (displayVal v))
    else .any
  else if s.isStr then
    if d.isStr then .val v
    else match v with
      | .str str => match parseVal d str with | some w => .val w | none => .panic
      | _ => .any
  else if s.isTime then
    match rawOfTime v with
    | .val raw =>
      if d.isNum then .val (asSpec d (.int raw))
      else if d == .bool then (if raw = 0 then .val (.bool false) else if raw = 1 then .val (.bool true) else .any)
      else .any
    | _ => .any
  else .any

/-- **the cast law**: nulls stay nulls (when the target has one), non-nulls are converted by the
language's conversion, `Option` on either side only changes the carrier -/
def cast (s d : Ty) (x : XV) : S XV :=
  -- bool ↔ time has no meaning (the impls are `panic!("Should not cast bool to datetime")`)
  if s.base == .bool && d.base.isTime then .any else
  match view s x with
  | none => build d none
  | some v =>
    match conv s.base d.base v with
    | .val w =>
      -- the conversion of a non-null value may itself be the null of the target base (the in-band
      -- sentinel `i64::MIN`, the strings "NaN" / "None"): then the plain target holds that null;
      -- whether `Option<D>` holds `None` or a non-canonical `Some(null)` is left open (DESIGN 5.4)
      if isNull d.base w then (if d.opt then .any else .val (.v w)) else build d (some w)
    | .panic => .panic
    | .any => .any

/-! ### order -/

/-- total order on non-null inner values: numbers by value (−inf < finite < +inf), `false < true`,
strings lexicographically, `TimeDelta` by (months, duration) -/
def valLt : Val → Val → Bool
  | .int a, .int b => decide (a < b)
  | .bool a, .bool b => !a && b
  | .str a, .str b => decide (a < b)
  | .td m n, .td m' n' => decide (m < m') || (m == m' && decide (n < n'))
  | .flt (.fin p), .flt (.fin q) => decide (p < q)
  | .flt (.inf true), .flt (.inf false) => true
  | .flt (.inf true), .flt (.fin _) => true
  | .flt (.fin _), .flt (.inf false) => true
  | _, _ => false

/-- ascending comparator, nulls last -/
def cmpAsc (a b : Option Val) : Ordering :=
  match a, b with
  | none, none => .eq
  | none, some _ => .gt
  | some _, none => .lt
  | some x, some y => if valLt x y then .lt else if valLt y x then .gt else .eq

/-- descending comparator, nulls still last -/
def cmpDesc (a b : Option Val) : Ordering :=
  match a, b with
  | none, none => .eq
  | none, some _ => .gt
  | some _, none => .lt
  | some x, some y => if valLt y x then .lt else if valLt x y then .gt else .eq

def insertBy (lt : α → α → Bool) (x : α) : List α → List α
  | [] => [x]
  | y :: ys => if lt x y then x :: y :: ys else y :: insertBy lt x ys

/-- non-nulls in ascending (`desc = false`) or descending order, then the nulls -/
def sorted (t : Ty) (desc : Bool) (l : List XV) : List XV :=
  let vals := (l.filter fun x => (view t x).isSome)
  let nulls := (l.filter fun x => (view t x).isNone)
  let lt (x y : XV) : Bool :=
    match view t x, view t y with
    | some a, some b => if desc then valLt b a else valLt a b
    | _, _ => false
  vals.foldr (insertBy lt) [] ++ nulls

end Tv.C15.Spec
