import Tv.Model.C09Iter
/-
  C09 — from-scratch specification (core Lean only).

  * `Exact it`: at every point of a consumption from either end the announced upper bound is
    exactly the number of items still to come. This is the property itself.
  * `specLen`: how many items each construction must yield, written down from the documentation
    of the adaptors (length-preserving maps / shifts / differences, `kth + 1` partitions, ...)
    without looking at how the code builds its iterators. The expected observation at a point
    `(f, b)` is then `L - f - b` for the hint *and* for the counted remainder.
-/
namespace Tv.C09

/-- after consuming `f` items from the front and `b` from the back the upper hint is what is left -/
def Exact (it : It α) : Prop :=
  ∀ f b, f + b ≤ it.items.length → it.upper f b = some (it.items.length - f - b)

/-- front-only version (boxed `dyn TrustedLen` iterators can only be advanced with `next`) -/
def ExactFront (it : It α) : Prop :=
  ∀ f, f ≤ it.items.length → it.upper f 0 = some (it.items.length - f)

/-- number of points `a, a+s, a+2s, ...` strictly before `b` (in the direction of `s`), by search -/
def rangeCount (a b s : Int) : Nat :=
  ((List.range ((b - a).natAbs + 1)).filter fun (i : Nat) =>
    if s > 0 then a + (i : Int) * s < b else if s < 0 then a + (i : Int) * s > b else false).length

def Src.specLen : Src → Nat
  | .titer xs => xs.length
  | .chain xs ys => xs.length + ys.length
  | .zip xs ys => min xs.length ys.length
  | .linspace n => n
  | .range a b s => rangeCount a b s
  | .repeatN n => n

def DeOp.specLen (len : Nat) : DeOp → Nat
  | .rev | .map | .trust => len
  | .next | .nextBack => len - 1

/-- `none` = the call must be rejected with an error -/
def Op.specLen (len : Nat) : Op → Option Nat
  -- element-wise adaptors and shifts / differences preserve the length of their input
  | .abs | .vabs | .enumerate | .ffill _ | .bfill _ | .fill _ | .vclip _ _ | .shift _ _ | .vshift _ _
  | .vdiff _ _ | .vpct _ | .winsorize _ | .rolling _ => some len
  -- one label per bin
  | .vcut bins labels _ addBounds =>
    if (if addBounds then labels.length = bins.length + 1 else labels.length + 1 = bins.length)
    then some len else none
  | .take k => some (min len k)
  | .next => some (len - 1)
  | .chainWith ys => some (len + ys.length)
  | .zipWith ys => some (min len ys.length)
  -- partitions hand out `kth + 1` entries. (With `sort = true` the pinned tree hands out
  -- `min len (kth+1)`; whether that count is right is C12's finding F19, C09 only needs the
  -- hint to agree with it.)
  | .vargPart k _ _ => some (k + 1)
  | .vpart k _ _ => some (k + 1)

def specLenOps (len : Nat) : List Op → Option Nat
  | [] => some len
  | o :: os => match o.specLen len with
    | some l => specLenOps l os
    | none => none

def Pipe.specLen (p : Pipe) : Option Nat :=
  specLenOps (p.de.foldl DeOp.specLen p.src.specLen) p.ops

/-- the points `(f, b)` visited by a schedule (`true` = `next`, `false` = `next_back`) on an
iterator of `len` items; the schedule stops when the iterator is exhausted -/
def points (len : Nat) : List Bool → Nat → Nat → List (Nat × Nat)
  | [], f, b => [(f, b)]
  | s :: ss, f, b =>
    if f + b < len then (f, b) :: points len ss (if s then f + 1 else f) (if s then b else b + 1)
    else [(f, b)]

/-- schedule steps of the driver protocol: `next`, `next_back`, `nth(1)` (two items from the front,
or all that is left when fewer remain) -/
inductive Step where
  | f | b | n
deriving DecidableEq, Repr

/-- the points `(f, b)` visited by a schedule with `nth` steps -/
def points3 (len : Nat) : List Step → Nat → Nat → List (Nat × Nat)
  | [], f, b => [(f, b)]
  | s :: ss, f, b =>
    if f + b < len then
      (f, b) :: (match s with
        | .f => points3 len ss (f + 1) b
        | .b => points3 len ss f (b + 1)
        | .n => points3 len ss (f + min 2 (len - f - b)) b)
    else [(f, b)]

end Tv.C09
