import Tv.Model.C16Time
/-!
  C16 — from-scratch specification of time values (core Lean only), written without looking at
  how the code computes: a time value is `none` (Not-a-Time) or an integer count of units since
  1970-01-01T00:00:00; the instant it denotes is `count * nsPer unit` nanoseconds; the proleptic
  Gregorian calendar is given by the usual civil-date formulas.

  Outcomes are `Outcome`: a value, NaT, or `unrepresentable` (no valid value of the target type
  denotes the answer — the code must not return one; in the debug profile it panics).
  Only the enumeration `U` is shared with the model.
-/
namespace Tv.C16.Spec
open Tv.C16

/-- nanoseconds in one unit -/
def nsPer : U → Int
  | .s => 10 ^ 9
  | .ms => 10 ^ 6
  | .us => 10 ^ 3
  | .ns => 1

inductive Outcome (α : Type) where
  | val (a : α)
  | nat
  | unrepresentable
deriving DecidableEq, Repr

/-- a valid 64-bit time value: every `i64` except the sentinel `-2^63` -/
def Valid64 (x : Int) : Prop := -2 ^ 63 < x ∧ x < 2 ^ 63
instance (x : Int) : Decidable (Valid64 x) := by unfold Valid64; infer_instance

def mk64 (x : Int) : Outcome Int := if Valid64 x then .val x else .unrepresentable

/-- the count of whole `u`-units that have elapsed at instant `t` (ns): rounds toward the past -/
def unitsAt (u : U) (t : Int) : Int := Int.fdiv t (nsPer u)

/-- unit change: NaT stays NaT; a valid value keeps its instant, floored to the target resolution -/
def convert (a b : U) : Option Int → Outcome Int
  | none => .nat
  | some x => mk64 (unitsAt b (x * nsPer a))

/-! ### the calendar -/

/-- days since 1970-01-01 of the proleptic Gregorian date `y-m-d` -/
def daysFromCivil (y m d : Int) : Int :=
  let y := if m ≤ 2 then y - 1 else y
  let era := y / 400
  let yoe := y - era * 400
  let doy := (153 * (if m > 2 then m - 3 else m + 9) + 2) / 5 + d - 1
  let doe := yoe * 365 + yoe / 4 - yoe / 100 + doy
  era * 146097 + doe - 719468

/-- proleptic Gregorian `(year, month, day)` of a day count since 1970-01-01 -/
def civilFromDays (z : Int) : Int × Int × Int :=
  let z := z + 719468
  let era := z / 146097
  let doe := z - era * 146097
  let yoe := (doe - doe / 1460 + doe / 36524 - doe / 146096) / 365
  let y := yoe + era * 400
  let doy := doe - (365 * yoe + yoe / 4 - yoe / 100)
  let mp := (5 * doy + 2) / 153
  let d := doy - (153 * mp + 2) / 5 + 1
  let m := if mp < 10 then mp + 3 else mp - 9
  (if m ≤ 2 then y + 1 else y, m, d)

def nsPerDay : Int := 86400 * 10 ^ 9

/-- the calendar library represents the years -262143 ..= 262142 -/
def calMinNs : Int := daysFromCivil (-262143) 1 1 * nsPerDay
def calMaxNs : Int := (daysFromCivil 262142 12 31 + 1) * nsPerDay - 1

def InCal (t : Int) : Prop := calMinNs ≤ t ∧ t ≤ calMaxNs
instance (t : Int) : Decidable (InCal t) := by unfold InCal; infer_instance

/-- calendar value of a time value: its instant, if the calendar can represent it -/
def toCalendar (u : U) : Option Int → Option Int
  | none => none
  | some x => if InCal (x * nsPer u) then some (x * nsPer u) else none

/-- `(year, month, day, hour, minute, second)` of an instant (UTC, no leap seconds) -/
def fieldsAt (t : Int) : Int × Int × Int × Int × Int × Int :=
  let day := Int.fdiv t nsPerDay
  let sod := Int.fdiv (t - day * nsPerDay) (10 ^ 9)
  let (y, m, d) := civilFromDays day
  (y, m, d, sod / 3600, sod / 60 % 60, sod % 60)

/-- time value of a calendar instant: floored to the unit, if a valid 64-bit value exists -/
def ofCalendar (u : U) (t : Int) : Outcome Int := mk64 (unitsAt u t)

/-! ### operators: NaT is absorbing; valid operands follow instant arithmetic -/

/-- a duration: `none` is NaT, otherwise calendar months and an exact length in ns -/
abbrev Dur := Option (Int × Int)

def Valid32 (x : Int) : Prop := -2 ^ 31 < x ∧ x < 2 ^ 31
instance (x : Int) : Decidable (Valid32 x) := by unfold Valid32; infer_instance

/-- the duration type holds up to `±(2^63-1)` milliseconds -/
def DurOk (n : Int) : Prop := -((2 ^ 63 - 1) * 10 ^ 6) ≤ n ∧ n ≤ (2 ^ 63 - 1) * 10 ^ 6
instance (n : Int) : Decidable (DurOk n) := by unfold DurOk; infer_instance

/-- `-2^31` months is the NaT encoding, so a computed value equal to it *is* NaT -/
def mkDur (m n : Int) : Outcome (Int × Int) :=
  if m = -2 ^ 31 ∧ DurOk n then .nat
  else if Valid32 m ∧ DurOk n then .val (m, n) else .unrepresentable

/-- date-time ± month-free duration (`sgn = ±1`) -/
def shift (sgn : Int) (u : U) : Option Int → Dur → Outcome Int
  | none, _ => .nat
  | _, none => .nat
  | some x, some (_, n) =>
    let t := x * nsPer u
    if InCal t ∧ InCal (t + sgn * n) then
      (match ofCalendar u (t + sgn * n) with
        | .val r => .val r
        -- the instant `-2^63` ns exists in the calendar but its count is the NaT sentinel
        | _ => if unitsAt u (t + sgn * n) = -2 ^ 63 then .nat else .unrepresentable)
    else .unrepresentable

/-- difference of two date-times of the same unit -/
def diff (u : U) : Option Int → Option Int → Outcome (Int × Int)
  | none, _ => .nat
  | _, none => .nat
  | some x, some y =>
    if InCal (x * nsPer u) ∧ InCal (y * nsPer u) then .val (0, (x - y) * nsPer u) else .unrepresentable

def neg : Dur → Outcome (Int × Int)
  | none => .nat
  | some (m, n) => .val (-m, -n)

def add : Dur → Dur → Outcome (Int × Int)
  | none, _ => .nat
  | _, none => .nat
  | some (m, n), some (m', n') => mkDur (m + m') (n + n')

def sub : Dur → Dur → Outcome (Int × Int)
  | none, _ => .nat
  | _, none => .nat
  | some (m, n), some (m', n') => mkDur (m - m') (n - n')

def scale : Dur → Int → Outcome (Int × Int)
  | none, _ => .nat
  | some (m, n), k => mkDur (m * k) (n * k)

/-- time of day ± duration. A duration with calendar months has no meaning for a time of day
(unrepresentable); one longer than `2^63` ns cannot be applied and yields NaT (documented
behaviour of the fall-through in impl_ops.rs). The value `-2^63` is the sentinel, i.e. NaT. -/
def timeShift (sgn : Int) : Option Int → Dur → Outcome Int
  | none, _ => .nat
  | _, none => .nat
  | some x, some (m, n) =>
    if m ≠ 0 then .unrepresentable
    else if ¬ (-2 ^ 63 ≤ n ∧ n < 2 ^ 63) then .nat
    else if x + sgn * n = -2 ^ 63 then .nat
    else mk64 (x + sgn * n)

/-- time of day as (seconds from midnight, nanosecond): defined for `0 ≤ x < 24 h` -/
def timeOfDay : Option Int → Option (Int × Int)
  | none => none
  | some x => if 0 ≤ x ∧ x < nsPerDay then some (Int.fdiv x (10 ^ 9), x - Int.fdiv x (10 ^ 9) * 10 ^ 9) else none

/-! ### reading model values as specification values (used by the driver and by the `…_eq_spec` theorems) -/

end Tv.C16.Spec
namespace Tv.C16

/-- raw `i64` ↦ optional value: the sentinel is NaT -/
def optOf (x : Int) : Option Int := if x = NaT then none else some x

/-- model duration ↦ specification duration -/
def TD.toDur (t : TD) : Spec.Dur := if t.isNat then none else some (t.months, t.inner)

/-- model outcome ↦ specification outcome: value ↦ value, the sentinel ↦ NaT, panic ↦ unrepresentable -/
def Res.toOutcome : Res Int → Spec.Outcome Int
  | .ok v => if v = NaT then .nat else .val v
  | .panic => .unrepresentable

def Res.toOutcomeTd : Res TD → Spec.Outcome (Int × Int)
  | .ok t => if t.isNat then .nat else .val (t.months, t.inner)
  | .panic => .unrepresentable

end Tv.C16
