import Tv.Model.Basic
import Tv.Spec.Stats
/-!
  From-scratch ("textbook") definitions for C04, written independently of the closures:
  centred sums on the pairwise-complete observations of one window, per-window ordinary least
  squares of the first series (`y`) on the second (`x`), statistics of the residuals
  `e_j = y_j - α - β x_j`, and the time-trend family = the same regression with `x = 1..n` over
  the valid values in order.

  `mp` is the effective minimum number of observations (mask, C05). A zero denominator is
  `degen`; the documented `EPS` floor (a population variance at or below `EPS` counts as zero
  spread) is part of the definitions of the correlation and of the residual std / skewness, as it
  is for `tsStd` / `tsSkew` in `Spec/Stats.lean`.
-/
namespace Tv.C04.Spec
open Tv Tv.Spec

/-- pairwise-complete observations `(y, x)` of a window of positions, oldest first -/
def complete (q : List (Option Rat × Option Rat)) : List (Rat × Rat) :=
  q.filterMap fun p => match p with
    | (some a, some b) => some (a, b)
    | _ => none

def ys (l : List (Rat × Rat)) : List Rat := l.map (·.1)
def xs (l : List (Rat × Rat)) : List Rat := l.map (·.2)

/-- `Σ (y - ȳ)(x - x̄)` -/
def cxy (l : List (Rat × Rat)) : Rat :=
  sum (l.map fun p => (p.1 - mean (ys l)) * (p.2 - mean (xs l)))
/-- `Σ (x - x̄)²` -/
def cxx (l : List (Rat × Rat)) : Rat := csum 2 (mean (xs l)) (xs l)
/-- `Σ (y - ȳ)²` -/
def cyy (l : List (Rat × Rat)) : Rat := csum 2 (mean (ys l)) (ys l)

def masked (mp : Nat) (l : List (Rat × Rat)) (f : List (Rat × Rat) → Out) : Out :=
  if l.length ≥ mp then f l else .null

/-- sample covariance `Σ(a-ā)(b-b̄)/(n-1)` -/
def cov (mp : Nat) (l : List (Rat × Rat)) : Out :=
  masked mp l fun l =>
    if l.length < 2 then .degen else .val (cxy l / ((l.length : Rat) - 1))

/-- Pearson correlation `Σ(a-ā)(b-b̄) / sqrt(Σ(a-ā)² Σ(b-b̄)²)`; undefined when a series has no
spread (population variance at or below the `EPS` floor) -/
def corr (mp : Nat) (l : List (Rat × Rat)) : Out :=
  masked mp l fun l =>
    if l.length = 0 then .degen
    else if cmom 2 (ys l) > EPS ∧ cmom 2 (xs l) > EPS then
      .root (sgn (cxy l)) (cxy l * cxy l / (cyy l * cxx l))
    else .degen

/-! #### least squares of `y` on `x` -/

/-- slope `β = Σ(x-x̄)(y-ȳ) / Σ(x-x̄)²` -/
def beta (l : List (Rat × Rat)) : Rat := cxy l / cxx l
/-- intercept `α = ȳ - β x̄` -/
def alpha (l : List (Rat × Rat)) : Rat := mean (ys l) - beta l * mean (xs l)
/-- residuals of the line `(a, b)`: `e_j = y_j - a - b x_j` -/
def residualsOf (a b : Rat) (l : List (Rat × Rat)) : List Rat := l.map fun p => p.1 - a - b * p.2
/-- residuals of the least-squares line -/
def residuals (l : List (Rat × Rat)) : List Rat := residualsOf (alpha l) (beta l) l
/-- sum of squared residuals -/
def sse (l : List (Rat × Rat)) : Rat := sum ((residuals l).map fun e => e * e)

/-- the regression is undefined on an empty window and when `x` has no spread -/
def undefinedReg (l : List (Rat × Rat)) : Prop := l.length = 0 ∨ cxx l = 0
instance (l : List (Rat × Rat)) : Decidable (undefinedReg l) := by unfold undefinedReg; infer_instance

def regx (f : List (Rat × Rat) → Out) (mp : Nat) (l : List (Rat × Rat)) : Out :=
  masked mp l fun l => if undefinedReg l then .degen else f l

def regxAlpha := regx fun l => .val (alpha l)
def regxBeta := regx fun l => .val (beta l)
def regxSse := regx fun l => .val (sse l)
def regxResidMean := regx fun l => .val (mean (residuals l))

/-- sample standard deviation of the residuals `sqrt(Σ(e-ē)²/(n-1))` -/
def regxResidStd := regx fun l =>
  let e := residuals l
  if e.length < 2 then .degen
  else if cmom 2 e ≤ EPS then .val 0
  else .root 1 (csum 2 (mean e) e / ((e.length : Rat) - 1))

/-- adjusted Fisher–Pearson skewness of the residuals `sqrt(n(n-1))/(n-2) · m3 / m2^(3/2)` -/
def regxResidSkew := regx fun l =>
  let e := residuals l
  let n : Rat := e.length
  let m2 := cmom 2 e
  let m3 := cmom 3 e
  if e.length < 3 then .degen
  else if m2 ≤ EPS then .val 0
  else .root (sgn m3) (n * (n - 1) * (m3 * m3) / ((n - 2) * (n - 2) * (m2 * m2 * m2)))

/-! #### time trend: regression of the valid values on `t = 1..n` -/

/-- `(y_k, k)` for `k = off+1, off+2, ...` -/
def timed : Nat → List Rat → List (Rat × Rat)
  | _, [] => []
  | off, y :: r => (y, ((off + 1 : Nat) : Rat)) :: timed (off + 1) r

def trend (f : List (Rat × Rat) → Rat) (mp : Nat) (v : List Rat) : Out :=
  if v.length ≥ mp then
    let l := timed 0 v
    if undefinedReg l then .degen else .val (f l)
  else .null

/-- fitted value at the last point `α + β n` -/
def trendFitted := trend fun l => alpha l + beta l * (l.length : Rat)
/-- one-step-ahead forecast `α + β (n+1)` -/
def trendForecast := trend fun l => alpha l + beta l * ((l.length : Rat) + 1)
def trendSlope := trend beta
def trendIntercept := trend alpha
/-- mean squared residual `SSE / n` -/
def trendMsr := trend fun l => sse l / (l.length : Rat)

/-! #### the rolling reference: the statistic of every window, from scratch -/

/-- a two-series statistic evaluated on the pairwise-complete observations of every window -/
def rolling2 (F : List (Rat × Rat) → Out) (xs ys : List (Option Rat)) (w : Nat) : List Out :=
  (List.range xs.length).map fun i => F (complete (window (xs.zip ys) i w))

/-- a trend statistic evaluated on the valid values of every window -/
def rolling1 (F : List Rat → Out) (xs : List (Option Rat)) (w : Nat) : List Out :=
  (List.range xs.length).map fun i => F (vwin xs i w)

end Tv.C04.Spec
