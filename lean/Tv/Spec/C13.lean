/-
  C13 — from-scratch positional definitions of the element-wise mapping operations
  (core Lean only). Every operation is defined per output position `i` directly from the
  property text; nothing here is built from iterator adaptors.

    operand at lag n of position i  =  x[i-n]  if 0 <= i-n < len, else it does not exist
-/
namespace Tv.C13.Spec

/-- the element at (integer) position `j`, if that position exists -/
def opnd (xs : List α) (j : Int) : Option α :=
  if 0 ≤ j ∧ j < xs.length then xs[j.toNat]? else none

/-- shift by `n`: output `i` is `x[i-n]` where that exists, else the fill value -/
def shiftS (n : Int) (v : α) (xs : List α) : List α :=
  xs.mapIdx fun i _ => (opnd xs ((i : Int) - n)).getD v

/-- difference at lag `n`: `x[i] - x[i-n]` where both exist and are non-null, null where the
operand exists but one of them is null, the fill value where the operand does not exist -/
def diffS (n : Int) (v : Option Rat) (xs : List (Option Rat)) : List (Option Rat) :=
  xs.mapIdx fun i b =>
    match opnd xs ((i : Int) - n) with
    | none => v
    | some a =>
      match b, a with
      | some b, some a => some (b - a)
      | _, _ => none

/-- percentage change at lag `n`: `x[i] / x[i-n] - 1` where both exist, are non-null and the
base is non-zero; null everywhere else -/
def pctS (n : Int) (xs : List (Option Rat)) : List (Option Rat) :=
  xs.mapIdx fun i b =>
    match opnd xs ((i : Int) - n), b with
    | some (some a), some b => if a = 0 then none else some (b / a - 1)
    | _, _ => none

/-- forward fill: a masked element becomes the nearest earlier unmasked element, else the default -/
def ffillS (mask : α → Bool) (d : α) (xs : List α) : List α :=
  xs.mapIdx fun i x =>
    if mask x then ((xs.take i).reverse.find? fun y => !mask y).getD d else x

/-- backward fill: a masked element becomes the nearest later unmasked element, else the default -/
def bfillS (mask : α → Bool) (d : α) (xs : List α) : List α :=
  xs.mapIdx fun i x =>
    if mask x then ((xs.drop (i + 1)).find? fun y => !mask y).getD d else x

/-- fill: masked elements become the value, the others are untouched -/
def fillS (mask : α → Bool) (v : α) (xs : List α) : List α :=
  xs.map fun x => if mask x then v else x

/-- clip of one non-null number to optional bounds. For `lo <= hi` (or a missing bound) this is
the nearest point of the interval, written as min-then-max; the property makes no claim on the
value for inverted bounds, where the documented rule "below the lower bound -> lower bound,
otherwise above the upper bound -> upper bound" is used. -/
def clip1 (lo hi : Option Rat) (x : Rat) : Rat :=
  match lo, hi with
  | none, none => x
  | some l, none => if x < l then l else x
  | none, some h => if h < x then h else x
  | some l, some h =>
    if l ≤ h then
      let y := if h < x then h else x
      if y < l then l else y
    else if x < l then l else h

/-- clip acts on each element alone and leaves nulls null -/
def clipS (lo hi : Option Rat) (xs : List (Option Rat)) : List (Option Rat) :=
  xs.map fun v => v.map (clip1 lo hi)

/-- |q| as the larger of `q` and `-q` -/
def absq (q : Rat) : Rat := if q ≤ -q then -q else q

def absS (xs : List (Option Rat)) : List (Option Rat) := xs.map fun v => v.map absq

end Tv.C13.Spec
