/-!
  C18 — from-scratch specification of duration strings and of the unit round trip.

  A well-formed duration string is a sequence of terms; a term is an optional sign, at
  least one decimal digit and one of the ten unit names.  Its meaning is the sum of its
  terms: months and years go to the month count, every other unit to the fixed part
  (here in nanoseconds).  Nothing in this file refers to the scanner of the implementation.
-/
namespace Tv.C18.Spec

inductive TUnit
  | ns | us | ms | s | m | h | d | w | mo | y
  deriving DecidableEq, Repr

inductive Sign
  | none | plus | minus
  deriving DecidableEq, Repr

/-- one term: sign, first digit, remaining digits (leading zeros allowed), unit -/
structure Term where
  sign : Sign
  d0 : Fin 10
  ds : List (Fin 10)
  unit : TUnit
  deriving DecidableEq, Repr

def TUnit.name : TUnit → List Char
  | .ns => ['n', 's'] | .us => ['u', 's'] | .ms => ['m', 's'] | .s => ['s'] | .m => ['m']
  | .h => ['h'] | .d => ['d'] | .w => ['w'] | .mo => ['m', 'o'] | .y => ['y']

def TUnit.all : List TUnit := [.ns, .us, .ms, .s, .m, .h, .d, .w, .mo, .y]

/-- nanoseconds per unit (0 for the calendar units) -/
def TUnit.nanos : TUnit → Int
  | .ns => 1 | .us => 1000 | .ms => 1000000 | .s => 1000000000 | .m => 60000000000
  | .h => 3600000000000 | .d => 86400000000000 | .w => 604800000000000 | .mo => 0 | .y => 0

/-- months per unit (0 for the fixed units) -/
def TUnit.months : TUnit → Int
  | .mo => 1 | .y => 12 | _ => 0

def digitChar (d : Fin 10) : Char := Char.ofNat (48 + d.val)

def Sign.chars : Sign → List Char
  | .none => [] | .plus => ['+'] | .minus => ['-']

/-- decimal value of a digit sequence, most significant first -/
def natOf (ds : List (Fin 10)) : Nat := ds.foldl (fun a d => a * 10 + d.val) 0

def Term.value (t : Term) : Int :=
  match t.sign with
  | .minus => -(natOf (t.d0 :: t.ds) : Int)
  | _ => (natOf (t.d0 :: t.ds) : Int)

/-- the text of a term: sign, digits, unit name -/
def Term.render (t : Term) : List Char :=
  t.sign.chars ++ (t.d0 :: t.ds).map digitChar ++ t.unit.name

/-- the text of a term sequence -/
def render : List Term → List Char
  | [] => []
  | t :: ts => t.render ++ render ts

/-- (months, nanoseconds) denoted by a term sequence -/
def sumMonths (ts : List Term) : Int := (ts.map fun t => t.value * t.unit.months).sum
def sumNanos (ts : List Term) : Int := (ts.map fun t => t.value * t.unit.nanos).sum

/-! ### representability

  `TimeDelta` stores months in an `i32` and the fixed part in a chrono `Duration`
  (at most `i64::MAX` milliseconds); the parser accumulates nanosecond-scale units (ns, us, ms)
  in one `i64`, second-scale units (s, m, h, d, w) in another `i64` and months in an `i32`.
  `NoOverflow` says that none of these ever leaves its range while the terms are added from
  left to right — the exact condition under which a value (rather than an overflow error) is
  due. -/

def i64Ok (x : Int) : Bool := decide (-9223372036854775808 ≤ x) && decide (x ≤ 9223372036854775807)
def i32Ok (x : Int) : Bool := decide (-2147483648 ≤ x) && decide (x ≤ 2147483647)

inductive Class
  | sub   -- ns, us, ms: counted in nanoseconds
  | sec   -- s, m, h, d, w: counted in seconds
  | cal   -- mo, y: counted in months
  deriving DecidableEq, Repr

def TUnit.cls : TUnit → Class
  | .ns | .us | .ms => .sub
  | .s | .m | .h | .d | .w => .sec
  | .mo | .y => .cal

/-- multiplier of the unit inside its class -/
def TUnit.mult : TUnit → Int
  | .ns => 1 | .us => 1000 | .ms => 1000000
  | .s => 1 | .m => 60 | .h => 3600 | .d => 86400 | .w => 604800
  | .mo => 1 | .y => 12

/-- running totals: nanosecond-scale, second-scale, months -/
structure Acc where
  sub : Int := 0
  sec : Int := 0
  cal : Int := 0
  deriving DecidableEq, Repr

def Acc.add (a : Acc) (t : Term) : Acc :=
  match t.unit.cls with
  | .sub => { a with sub := a.sub + t.value * t.unit.mult }
  | .sec => { a with sec := a.sec + t.value * t.unit.mult }
  | .cal => { a with cal := a.cal + t.value * t.unit.mult }

/-- the term can be added to the running totals without leaving the integer ranges -/
def Term.fits (a : Acc) (t : Term) : Bool :=
  i64Ok t.value &&
  match t.unit.cls with
  | .sub => i64Ok (t.value * t.unit.mult) && i64Ok (a.sub + t.value * t.unit.mult)
  | .sec => i64Ok (t.value * t.unit.mult) && i64Ok (a.sec + t.value * t.unit.mult)
  | .cal => i32Ok t.value && i32Ok (t.value * t.unit.mult) && i32Ok (a.cal + t.value * t.unit.mult)

/-- the totals form a chrono `Duration`: `|seconds| ≤ i64::MAX / 1000` and the whole
    fixed part is at most `i64::MAX` milliseconds -/
def Acc.final (a : Acc) : Bool :=
  decide (-9223372036854775 ≤ a.sec) && decide (a.sec ≤ 9223372036854775) &&
  decide (-9223372036854775807000000 ≤ a.sec * 1000000000 + a.sub) &&
  decide (a.sec * 1000000000 + a.sub ≤ 9223372036854775807000000)

def noOverflowFrom (a : Acc) : List Term → Bool
  | [] => a.final
  | t :: ts => t.fits a && noOverflowFrom (a.add t) ts

def NoOverflow (ts : List Term) : Prop := noOverflowFrom {} ts = true

instance (ts : List Term) : Decidable (NoOverflow ts) := by unfold NoOverflow; infer_instance

/-- a simple sufficient size measure: the absolute sizes of the terms added up, fixed part in
    nanoseconds and calendar part in months -/
def absNanos (ts : List Term) : Int := (ts.map fun t => (t.value.natAbs : Int) * t.unit.nanos).sum
def absMonths (ts : List Term) : Int := (ts.map fun t => (t.value.natAbs : Int) * t.unit.months).sum

/-! ### recogniser (used by the correspondence driver to decide whether the property's
    "well-formed" clause applies to a given text) -/

def unitOfName (cs : List Char) : Option TUnit := TUnit.all.find? (·.name = cs)

def digitOf (c : Char) : Option (Fin 10) :=
  if h : 48 ≤ c.toNat ∧ c.toNat < 58 then some ⟨c.toNat - 48, by omega⟩ else none

def isLetter (c : Char) : Bool := (65 ≤ c.toNat && c.toNat ≤ 90) || (97 ≤ c.toNat && c.toNat ≤ 122)

def isDigitChar (c : Char) : Bool := (digitOf c).isSome

/-- the sign a text starts with -/
def signOf (s : List Char) : Sign :=
  match s with
  | c :: _ => if c = '-' then .minus else if c = '+' then .plus else .none
  | [] => .none

/-- the text after its sign -/
def bodyOf (s : List Char) : List Char :=
  match s with
  | c :: cs => if c = '-' ∨ c = '+' then cs else c :: cs
  | [] => []

/-- one term off the front of a text: the term and the remaining text -/
def takeTerm (s : List Char) : Option (Term × List Char) :=
  match ((bodyOf s).takeWhile isDigitChar).filterMap digitOf,
      unitOfName (((bodyOf s).dropWhile isDigitChar).takeWhile isLetter) with
  | d0 :: ds, some u => some (⟨signOf s, d0, ds, u⟩, ((bodyOf s).dropWhile isDigitChar).dropWhile isLetter)
  | _, _ => none

/-- split a text into terms; `none` if it is not a well-formed duration string
    (`fuel` bounds the number of terms; the text length always suffices) -/
def recognise : Nat → List Char → Option (List Term)
  | _, [] => some []
  | 0, _ :: _ => none
  | fuel + 1, c :: cs =>
    match takeTerm (c :: cs) with
    | some (t, tail) => (recognise fuel tail).map (t :: ·)
    | none => none

/-- what the property demands for a text: `some (months, nanos)` when it is a well-formed,
    representable duration string, `none` when only totality is demanded -/
def expected (s : List Char) : Option (Int × Int) :=
  match recognise s.length s with
  | some ts => if noOverflowFrom {} ts then some (sumMonths ts, sumNanos ts) else none
  | none => none

/-! ### date-time round trip -/

/-- resolution of a format in nanoseconds: what `parse (format x)` can still distinguish -/
def floorTo (ticks : Int) (ticksPerStep : Int) : Int := ticks / ticksPerStep * ticksPerStep

/-- what formatting the instant `ticks` and parsing the text back must give: the instant at
    the format's resolution; `none` (a range error is due) when that floor is not an `i64` -/
def rtExpected (ticks step : Int) : Option Int :=
  if i64Ok (floorTo ticks step) then some (floorTo ticks step) else none

/-- ticks per distinguishable step of a strftime format: `%f` keeps every tick, a format with
    hour, minute and second keeps whole seconds, anything else whole days -/
def fmtStep (perSec : Nat) (fmt : String) : Int :=
  let has (p : String) : Bool := (fmt.splitOn p).length > 1
  if has "%f" then 1
  else if has "%H" && has "%M" && has "%S" then perSec
  else 86400 * perSec

/-- a format that writes the year directly against the month (`%Y%m..`) can only be read back
    for four-digit years 0000..=9999: outside (`secs` = seconds since the epoch) the text is
    ambiguous and only totality is demanded -/
def rtApplies (fmt : String) (secs : Int) : Bool :=
  !((fmt.splitOn "%Y%m").length > 1) || (decide (-62167219200 ≤ secs) && decide (secs < 253402300800))

/-- nanoseconds after midnight of `h:m:s` plus a fraction given in nanoseconds -/
def timeOfDay (h m s frac : Nat) : Int := (((h * 60 + m) * 60 + s) * 1000000000 + frac : Nat)

def twoDigits (a b : Char) : Option Nat := do
  let x ← digitOf a
  let y ← digitOf b
  pure (x.val * 10 + y.val)

/-- value of a strict `HH:MM:SS` or `HH:MM:SS.f` (1 to 9 fraction digits) text;
    `none` = the text is not of that shape (only totality is demanded) -/
def timeExpected (s : List Char) : Option Int :=
  match s with
  | h1 :: h2 :: ':' :: m1 :: m2 :: ':' :: s1 :: s2 :: rest => do
    let h ← twoDigits h1 h2
    let m ← twoDigits m1 m2
    let sec ← twoDigits s1 s2
    if h < 24 ∧ m < 60 ∧ sec < 60 then
      match rest with
      | [] => some (timeOfDay h m sec 0)
      | '.' :: fr =>
        let ds := fr.filterMap digitOf
        if ds.length = fr.length ∧ 1 ≤ fr.length ∧ fr.length ≤ 9 then
          some (timeOfDay h m sec (natOf ds * 10 ^ (9 - fr.length)))
        else none
      | _ => none
    else none
  | _ => none

end Tv.C18.Spec
