import Tv.Model.Basic
/-!
# C12 — from-scratch specification of the order statistics (core Lean only)

Nothing here looks at the implementation: every function is the textbook definition on the
sorted list of the non-null elements (`List.mergeSort` from core) or a plain count.
-/
namespace Tv.C12.Spec
open Tv

/-- the non-null elements in ascending (`rev = false`) or descending order -/
def sortedValid (xs : List (Option Rat)) (rev : Bool) : List Rat :=
  (valid xs).mergeSort (fun a b => if rev then decide (b ≤ a) else decide (a ≤ b))

/-- interpolation kinds of a quantile -/
inductive Interp where
  | linear | lower | higher | midpoint
deriving DecidableEq, Repr

/-- value at the fractional index `t` of an ascending list `v` under interpolation `m`:
`lo = ⌊t⌋`, `hi = ⌈t⌉`, linear = `v[lo] + (v[hi] - v[lo])·(t - lo)` -/
def interp (v : List Rat) (t : Rat) (m : Interp) : Out :=
  let lo := t.floor.toNat
  let hi := t.ceil.toNat
  match v[lo]?, v[hi]? with
  | some a, some b =>
    match m with
    | .linear => .val (a + (b - a) * (t - (lo : Rat)))
    | .lower => .val a
    | .higher => .val b
    | .midpoint => .val ((a + b) / 2)
  | _, _ => .null

/-- the `q`-quantile: fractional index `(n-1)·q` of the sorted non-null elements; null iff there is none -/
def quantile (xs : List (Option Rat)) (q : Rat) (m : Interp) : Out :=
  let v := sortedValid xs false
  if v.length = 0 then .null else interp v (((v.length - 1 : Nat) : Rat) * q) m

def median (xs : List (Option Rat)) : Out := quantile xs (1 / 2) .linear

/-- number of non-null elements strictly below `s` -/
def cntLt (xs : List (Option Rat)) (s : Rat) : Nat := (valid xs).countP (fun x => decide (x < s))
/-- number of non-null elements at most `s` -/
def cntLe (xs : List (Option Rat)) (s : Rat) : Nat := (valid xs).countP (fun x => decide (x ≤ s))
/-- number of non-null elements equal to `s` -/
def cntEq (xs : List (Option Rat)) (s : Rat) : Nat := (valid xs).countP (fun x => decide (x = s))
/-- number of non-null elements strictly above `s` -/
def cntGt (xs : List (Option Rat)) (s : Rat) : Nat := (valid xs).countP (fun x => decide (s < x))

inductive PKind where
  | rank | weak | strict
deriving DecidableEq, Repr

/-- percentile of a score: weak = `#≤ / n`, strict = `#< / n`,
rank = `(#< + #≤ + [#≤ > #<]) / (2n)` (mean percentage rank of the matching scores);
null for a null score or without valid elements -/
def percentileOf (xs : List (Option Rat)) (score : Option Rat) (k : PKind) : Out :=
  match score with
  | none => .null
  | some s =>
    let n := (valid xs).length
    if n = 0 then .null else
    let lt := cntLt xs s
    let le := cntLe xs s
    match k with
    | .weak => .val ((le : Rat) / (n : Rat))
    | .strict => .val ((lt : Rat) / (n : Rat))
    | .rank => .val (((lt + le + (if le > lt then 1 else 0) : Nat) : Rat) / (2 * (n : Rat)))

/-- average rank of the valid value `v`: `#before + (#equal + 1)/2` where "before" is "smaller"
(ascending) or "larger" (descending); as a fraction of the valid count when `pct` -/
def avgRank (xs : List (Option Rat)) (pct rev : Bool) (v : Rat) : Rat :=
  let before := if rev then cntGt xs v else cntLt xs v
  let r : Rat := (before : Rat) + ((cntEq xs v : Rat) + 1) / 2
  if pct then r / ((valid xs).length : Rat) else r

/-- ranks: nulls rank null, every other element gets its average rank -/
def rank (xs : List (Option Rat)) (pct rev : Bool) : List Out :=
  xs.map fun x => match x with
    | none => .null
    | some v => .val (avgRank xs pct rev v)

/-- partition with parameter `k`, in sorted form: the `k+1` smallest (largest when `rev`) non-null
elements in order, padded with nulls to exactly `k+1` entries -/
def partition (xs : List (Option Rat)) (k : Nat) (rev : Bool) : List (Option Rat) :=
  let t := ((sortedValid xs rev).take (k + 1)).map some
  t ++ List.replicate (k + 1 - t.length) none

end Tv.C12.Spec
