import Tv.Model.Basic
/-! Outcome model of the rolling drivers under degenerate parameters (C10): window 0, empty
input, second series of a different length. Transcribes the guards of view.rs as repaired
(`assert!(window > 0 || len == 0)` in the `*_to` loops, `assert!(other.len() >= len)` in the
two-series forms, `assert!(window > 0)` in the iterator bodies). -/
namespace Tv

inductive Outcome where
  | ok (writes : List Nat)
  | panic
deriving DecidableEq, Repr

/-- `two`: a second series of length `len2` is read at the same positions -/
def driverOutcome (sh : Shape) (len len2 w : Nat) (two : Bool) : Outcome :=
  match sh with
  | .to =>
    if w = 0 ∧ len ≠ 0 then .panic
    else if two ∧ len2 < len then .panic
    else .ok (writes .to len w)
  | .iter =>
    if w = 0 then .panic
    else .ok (List.range (if two then min len len2 else len))

/-- every index a window kernel may touch at callback `(start?, end)`: `start.getD 0 ..= end`
(cmp.rs / norm.rs rescans, reg.rs residual loops, the expiry test `uget(start)`) -/
def kernelRange (s : Option Nat) (e : Nat) : List Nat := List.range' (s.getD 0) (e + 1 - s.getD 0)

end Tv
