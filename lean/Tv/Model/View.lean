import Tv.Model.Basic
/-!
  Container abstractions behind `Vec1View` (C07). A `View` is what the generic algorithms can
  observe of a container; `Coherent v xs` says all accessors describe the logical sequence `xs`.
  The adapters are transcribed from tea-core/src/backends_impl/{vec,vecdeque,ndarray,arc}.rs and
  vec_core/iter.rs (OptIter); the *storage* (std ring buffer, ndarray strides) is modelled, not
  verified.
-/
namespace Tv

structure View (α : Type) where
  len : Nat
  uget : Nat → Option α            -- `none` = out of the container's storage
  iter : List α
  slice : Nat → Nat → List α
  asSlice : Option (List α)

/-- all accessors describe the same logical sequence -/
structure Coherent (v : View α) (xs : List α) : Prop where
  len : v.len = xs.length
  get : ∀ i, i < xs.length → v.uget i = xs[i]?
  iter : v.iter = xs
  slice : ∀ a b, a ≤ b → b ≤ xs.length → v.slice a b = xs.extract a b
  asSlice : ∀ s, v.asSlice = some s → s = xs

/-- checked `get` (view.rs:255): bounds test on `len`, then `uget` -/
def View.get (v : View α) (i : Nat) : Option α := if i < v.len then v.uget i else none

/-! ### Vec / array / slice: the container is its logical sequence -/
def vecView (xs : List α) : View α :=
  { len := xs.length, uget := fun i => xs[i]?, iter := xs, slice := fun a b => xs.extract a b, asSlice := some xs }

/-! ### VecDeque: ring buffer `(buf, head, len)`, logical `i` ↦ `buf[(head+i) % cap]` -/
structure Ring (α : Type) where
  buf : List α
  head : Nat
  len : Nat

def Ring.cap (r : Ring α) : Nat := r.buf.length

def Ring.phys (r : Ring α) (i : Nat) : Nat := (r.head + i) % r.cap

def Ring.toList (r : Ring α) : List α := (List.range r.len).filterMap fun i => r.buf[r.phys i]?

/-- vecdeque.rs: `uget = self.get(i).unwrap()`, `titer = iter()`, `slice = range(a..b)`,
`try_as_slice = if as_slices().1.is_empty() { Some(as_slices().0) } else { None }` -/
def ringView (r : Ring α) : View α :=
  { len := r.len
    uget := fun i => if i < r.len then r.buf[r.phys i]? else none
    iter := r.toList
    slice := fun a b => r.toList.extract a b
    asSlice := if r.head + r.len ≤ r.cap then some (r.buf.extract r.head (r.head + r.len)) else none }

/-! ### ndarray 1-d views: `(base, off, stride, len)`, logical `i` ↦ `base[off + i*stride]` -/
structure Strided (α : Type) where
  base : List α
  off : Nat
  stride : Int
  len : Nat

def Strided.phys (s : Strided α) (i : Nat) : Int := (s.off : Int) + (i : Int) * s.stride

def Strided.at (s : Strided α) (i : Nat) : Option α :=
  let p := s.phys i
  if p < 0 then none else s.base[p.toNat]?

def Strided.toList (s : Strided α) : List α := (List.range s.len).filterMap s.at

/-- ndarray.rs. `try_as_slice`: the pinned tree calls `as_slice_memory_order()` (contiguous in
*memory* order: also offered, reversed, for stride −1); the repaired one calls `as_slice()`
(standard layout only: stride 1, or at most one element). -/
def stridedView (pinned : Bool) (s : Strided α) : View α :=
  { len := s.len
    uget := s.at
    iter := s.toList
    slice := fun a b => s.toList.extract a b
    asSlice :=
      if s.stride = 1 ∨ s.len ≤ 1 then some (s.base.extract s.off (s.off + s.len))
      else if pinned ∧ s.stride = -1 then some (s.base.extract (s.off + 1 - s.len) (s.off + 1))
      else none }

/-! ### Arc<V>: every accessor delegates to the inner container -/
def arcView (v : View α) : View α := v

/-! ### OptIter: every accessor maps `to_opt` over the inner one; no contiguous view -/
def optView (toOpt : α → Option β) (v : View α) : View (Option β) :=
  { len := v.len
    uget := fun i => (v.uget i).map toOpt
    iter := v.iter.map toOpt
    slice := fun a b => (v.slice a b).map toOpt
    asSlice := none }

end Tv
