/-
  C13 — executable model of the element-wise mapping operations of `tea-map`
  (core Lean only; linked into `tvmodel`).

  Anchors: tea-map/src/lib.rs (`MapBasic::abs`, `MapBasic::shift`),
           tea-map/src/valid_iter.rs (`vabs`, `ffill(_mask)`, `bfill(_mask)`, `vclip`,
             `fill(_mask)`, `vshift`),
           tea-map/src/vec_map.rs (`vdiff`, `vpct_change`).

  An iterator is modelled by the list of items it yields; the std adaptors the code composes
  are the list functions
      repeat_n v k  = List.replicate k v        chain a b = a ++ b
      take k        = List.take k               skip k    = List.drop k
      zip.map f     = List.zipWith f            rev       = List.reverse
      map with a captured mutable cell = an explicit state-passing recursion.
  A series element is `Option β` (`none` = NaN / `None`, DESIGN 3); `T::none()` is `none`.
  `n : Int` covers every `i32` (`n.unsigned_abs() as usize` is `n.natAbs`, also for `i32::MIN`).

  The functions without suffix model the code *as repaired* by the `fix:` commits of this
  property (F12, F16, F17); the `…Pinned` functions model the pinned tree and are only used by
  the `…_pinned_wrong` witnesses.
-/
namespace Tv.C13

/-! ### shift family -/

/-- `MapBasic::shift(n, value)` (lib.rs), repaired: the `len <= n_abs` guard comes first. -/
def shift (n : Int) (v : α) (xs : List α) : List α :=
  let len := xs.length
  let nAbs := n.natAbs
  if len ≤ nAbs then List.replicate len v
  else if n > 0 then List.replicate nAbs v ++ xs.take (len - nAbs)
  else if n < 0 then xs.drop nAbs ++ List.replicate nAbs v
  else xs

/-- Outcome of the pinned `MapBasic::shift`: the items really yielded and the length announced
by the `TrustIter` wrapper; `none` = `len - n_abs` underflows (panic in the debug profile). -/
def shiftPinned (n : Int) (v : α) (xs : List α) : Option (List α × Nat) :=
  let len := xs.length
  let nAbs := n.natAbs
  if n > 0 then
    if nAbs ≤ len then some (List.replicate nAbs v ++ xs.take (len - nAbs), len) else none
  else if n < 0 then some (xs.drop nAbs ++ List.replicate nAbs v, len)
  else some (xs, len)

/-- `MapValidBasic::vshift(n, value)` (valid_iter.rs:308-332); `value: Option<T>`, omitted = null. -/
def vshift (n : Int) (value : Option (Option β)) (xs : List (Option β)) : List (Option β) :=
  let len := xs.length
  let nAbs := n.natAbs
  let v := value.getD none
  if len ≤ nAbs then List.replicate len v
  else if n > 0 then List.replicate nAbs v ++ xs.take (len - nAbs)
  else if n < 0 then xs.drop nAbs ++ List.replicate nAbs v
  else xs

/-! ### differences -/

/-- `b - a` on nullable numbers (NaN propagates; integer types have no nulls) -/
def osub (b a : Option Rat) : Option Rat :=
  match b, a with
  | some b, some a => some (b - a)
  | _, _ => none

/-- `MapValidVec::vdiff(n, value)` (vec_map.rs), repaired: the fill value is chained in front of
the differences (F16) and lag 0 goes through the general branch (F17). -/
def vdiff (n : Int) (value : Option (Option Rat)) (xs : List (Option Rat)) : List (Option Rat) :=
  let len := xs.length
  let nAbs := n.natAbs
  let v := value.getD none
  if len ≤ nAbs then List.replicate len v
  else if n > 0 then
    List.replicate nAbs v ++ List.zipWith (fun a b => osub b a) (xs.take (len - nAbs)) (xs.drop nAbs)
  else
    List.zipWith (fun a b => osub b a) (xs.drop nAbs) xs ++ List.replicate nAbs v

/-- pinned `vdiff`: for `n > 0` the fill value is an *operand* of the subtraction, and `n = 0`
is a constant zero series. -/
def vdiffPinned (n : Int) (value : Option (Option Rat)) (xs : List (Option Rat)) : List (Option Rat) :=
  let len := xs.length
  let nAbs := n.natAbs
  let v := value.getD none
  if len ≤ nAbs then List.replicate len v
  else if n > 0 then
    List.zipWith (fun a b => osub b a) (List.replicate nAbs v ++ xs.take (len - nAbs)) xs
  else if n < 0 then
    List.zipWith (fun a b => osub b a) (xs.drop nAbs) xs ++ List.replicate nAbs v
  else List.replicate len (some 0)

/-- the closure of `vpct_change`: `b / a - 1` when both are non-null and `a != 0`, else NaN -/
def pct (a b : Option Rat) : Option Rat :=
  match a, b with
  | some a, some b => if a = 0 then none else some (b / a - 1)
  | _, _ => none

/-- `MapValidVec::vpct_change(n)` (vec_map.rs), repaired: lag 0 goes through the general branch. -/
def vpctChange (n : Int) (xs : List (Option Rat)) : List (Option Rat) :=
  let len := xs.length
  let nAbs := n.natAbs
  if len ≤ nAbs then List.replicate len none
  else if n > 0 then
    List.zipWith pct (List.replicate nAbs none ++ xs.take (len - nAbs)) xs
  else
    List.zipWith pct (xs.drop nAbs) xs ++ List.replicate nAbs none

/-- pinned `vpct_change`: `n = 0` is a constant zero series. -/
def vpctChangePinned (n : Int) (xs : List (Option Rat)) : List (Option Rat) :=
  let len := xs.length
  let nAbs := n.natAbs
  if len ≤ nAbs then List.replicate len none
  else if n > 0 then
    List.zipWith pct (List.replicate nAbs none ++ xs.take (len - nAbs)) xs
  else if n < 0 then
    List.zipWith pct (xs.drop nAbs) xs ++ List.replicate nAbs none
  else List.replicate len (some 0)

/-! ### forward / backward fill -/

/-- the `map` closure of `ffill_mask` / `bfill_mask` with its captured `last_valid` cell:
a masked element is replaced by `last_valid`, else by the default; an unmasked element
is stored in `last_valid` and passed through. -/
def fillGo (mask : α → Bool) (dflt : α) : Option α → List α → List α
  | _, [] => []
  | lv, x :: xs =>
    if mask x then
      (match lv with | some l => l | none => dflt) :: fillGo mask dflt lv xs
    else
      x :: fillGo mask dflt (some x) xs

/-- `ffill_mask(mask_func, value)`; `value: Option<T>`, omitted = `T::none()` -/
def ffillMask (mask : Option β → Bool) (value : Option (Option β)) (xs : List (Option β)) : List (Option β) :=
  fillGo mask (value.getD none) none xs

/-- `bfill_mask`: `self.rev().map(f).collect_trusted_to_vec().into_iter().rev()` -/
def bfillMask (mask : Option β → Bool) (value : Option (Option β)) (xs : List (Option β)) : List (Option β) :=
  (fillGo mask (value.getD none) none xs.reverse).reverse

def ffill (value : Option (Option β)) (xs : List (Option β)) : List (Option β) :=
  ffillMask Option.isNone value xs

def bfill (value : Option (Option β)) (xs : List (Option β)) : List (Option β) :=
  bfillMask Option.isNone value xs

/-- `fill_mask(mask_func, value)` -/
def fillMask (mask : α → Bool) (value : α) (xs : List α) : List α :=
  xs.map fun v => if mask v then value else v

/-- `fill(value)` -/
def fill (value : Option β) (xs : List (Option β)) : List (Option β) :=
  fillMask Option.isNone value xs

/-! ### clip, abs -/

/-- `vclip(lower, upper)`: four-way dispatch on which bounds are non-null (valid_iter.rs:192-240) -/
def vclip (lower upper : Option Rat) (xs : List (Option Rat)) : List (Option Rat) :=
  match lower, upper with
  | some lo, some hi =>
    xs.map fun v =>
      match v with
      | some x => if x < lo then lower else if x > hi then upper else v
      | none => v
  | some lo, none =>
    xs.map fun v =>
      match v with
      | some x => if x < lo then lower else v
      | none => v
  | none, some hi =>
    xs.map fun v =>
      match v with
      | some x => if x > hi then upper else v
      | none => v
  | none, none => xs

/-- `Number::abs` on a rational -/
def rabs (q : Rat) : Rat := if q < 0 then -q else q

/-- `MapBasic::abs`: `self.map(|v| v.abs())` (NaN.abs() is NaN) -/
def abs (xs : List (Option Rat)) : List (Option Rat) := xs.map fun v => v.map rabs

/-- `MapValidBasic::vabs`: `self.map(|v| v.vabs())`, `vabs = self.map(|v| v.abs())` on the inner value -/
def vabs (xs : List (Option Rat)) : List (Option Rat) := xs.map fun v => v.map rabs

end Tv.C13
