/-
  C19 — executable model of the generators and collectors of tea-core
  (core Lean only: linked into `tvmodel`).

  Transcribed from
    tea-core/src/linspace.rs            `Linspace` iterator, `linspace`, `range`
    tea-core/src/create.rs              `Vec1Create::{range, linspace}`
    tea-core/src/vec_core/cores/own.rs  `Vec1::{collect_from_iter, collect_from_trusted,
                                         collect_with_len, collect_from_opt_iter,
                                         try_collect_from_iter, try_collect_from_trusted,
                                         empty, full}`
    tea-core/src/vec_core/trusted.rs    `TrustIter`, `CollectTrusted for Vec`
    tea-core/src/vec_core/uninit.rs     `UninitRefMut::write_trust_iter`
    tea-core/src/backends_impl/{vec,vecdeque,ndarray}.rs   the per-backend overrides

  Conventions (DESIGN §3): an iterator value is `(items, upper)`: the items it will
  yield and the upper bound of its `size_hint`; element types are `Int` (i32 / i64 / usize,
  Rust `/` = `Int.tdiv`, `ceil` = identity) and `Rat` (f64 on exactly representable inputs,
  exact `/` and `ceil`). Panics and undefined behaviour are explicit outcomes.
-/
namespace Tv.C19

/-- outcome of a call: a value, an unwinding panic, or undefined behaviour (a read of an
uninitialised slot / a write past the allocation inside an `unsafe` block) -/
inductive Outcome (α : Type) where
  | ok (v : α)
  | panic
  | ub
deriving DecidableEq, Repr, Inhabited

def Outcome.map (f : α → β) : Outcome α → Outcome β
  | .ok v => .ok (f v)
  | .panic => .panic
  | .ub => .ub

/-! ### the `Linspace` iterator (linspace.rs:5-58) -/

/-- `struct Linspace<T> { start, step, index, len }` -/
structure Linspace (α : Type) where
  start : α
  step : α
  index : Nat
  len : Nat
deriving Repr, DecidableEq

section
variable {α : Type} [Add α] [Mul α] [NatCast α]

/-- the value at position `i`: `self.start + self.step * i.cast()` -/
def Linspace.at (s : Linspace α) (i : Nat) : α := s.start + s.step * (i : α)

/-- `Iterator::next` -/
def Linspace.next (s : Linspace α) : Option α × Linspace α :=
  if s.index ≥ s.len then (none, s)
  else
    let i := s.index
    (some (s.at i), { s with index := s.index + 1 })

/-- `DoubleEndedIterator::next_back` -/
def Linspace.nextBack (s : Linspace α) : Option α × Linspace α :=
  if s.index ≥ s.len then (none, s)
  else
    let len' := s.len - 1
    (some (s.at len'), { s with len := len' })

/-- `size_hint`: `let n = self.len - self.index; (n, Some(n))` -/
def Linspace.sizeHint (s : Linspace α) : Nat × Option Nat :=
  let n := s.len - s.index
  (n, some n)

/-- call `next` until it returns `None` (at most `fuel` times) -/
def Linspace.drain (s : Linspace α) : Nat → List α
  | 0 => []
  | fuel + 1 =>
    match s.next with
    | (none, _) => []
    | (some v, s') => v :: s'.drain fuel

/-- everything the iterator yields from the front (`len - index` calls suffice, see
`Tv.C19.drain_fuel_irrelevant`) -/
def Linspace.items (s : Linspace α) : List α := s.drain (s.len - s.index)

end

/-! ### iterator values and the std adaptors used by the generators -/

/-- an iterator: what it yields and the upper bound it reports -/
structure Iter (α : Type) where
  items : List α
  upper : Option Nat
deriving Repr, DecidableEq

/-- an iterator whose hint is exact (what `TrustedLen` promises) -/
def Iter.exact (l : List α) : Iter α := ⟨l, some l.length⟩

/-- `Iterator::map` keeps the size hint -/
def Iter.map (f : α → β) (it : Iter α) : Iter β := ⟨it.items.map f, it.upper⟩

/-- `std::iter::repeat_n(v, n)` -/
def repeatN (v : α) (n : Nat) : Iter α := ⟨List.replicate n v, some n⟩

/-- `std::iter::empty()` -/
def emptyIter : Iter α := ⟨[], some 0⟩

/-- `TrustIter::new(iter, len)`: `next` delegates, `size_hint` is `(len, Some(len))` -/
def toTrust (it : Iter α) (len : Nat) : Iter α := ⟨it.items, some len⟩

section
variable {α : Type} [Add α] [Mul α] [NatCast α]
/-- a `Linspace` seen as an iterator value -/
def Linspace.iter (s : Linspace α) : Iter α := ⟨s.items, s.sizeHint.2⟩
end

/-! ### `linspace` and `range` (linspace.rs:67-107) -/

/-- the operations of `T: Number` that `linspace` / `range` use beyond `+ - *` and `<` -/
structure NumOps (α : Type) where
  /-- Rust `/` -/
  div : α → α → α
  /-- `Number::ceil` -/
  ceil : α → α
  /-- `Cast<usize>` = `as usize` -/
  toUsize : α → Nat

/-- `2^64`: the number of `usize` values -/
def usizeMod : Nat := 18446744073709551616

/-- `i as usize` for i32 / i64 (sign extension, wrap-around) -/
def intAsUsize (i : Int) : Nat := (i % (usizeMod : Int)).toNat

/-- integers: truncating division, identity `ceil` (number.rs:77), wrapping `as usize` -/
def intOps : NumOps Int := ⟨Int.tdiv, id, intAsUsize⟩

/-- `f as usize`: truncation toward zero, saturating (negative → 0) -/
def ratAsUsize (q : Rat) : Nat := min q.floor.toNat (usizeMod - 1)

/-- floats on exactly representable data: exact division and ceiling -/
def ratOps : NumOps Rat := ⟨(· / ·), fun q => (q.ceil : Rat), ratAsUsize⟩

section
variable {α : Type} [Add α] [Sub α] [Mul α] [NatCast α] [OfNat α 0] [OfNat α 1]
  [LT α] [DecidableLT α] [DecidableEq α]

/-- `linspace(a, b, n)`: `step = (b - a) / (n - 1)` if `n > 1`, else zero -/
def linspace (ops : NumOps α) (a b : α) (n : Nat) : Linspace α :=
  let step := if n > 1 then ops.div (b - a) ((n - 1 : Nat) : α) else 0
  { start := a, step := step, index := 0, len := n }

/-- the element count of `range(a, b, step)` as repaired (`fix: range ...`): zero unless `b`
lies strictly beyond `a` in the direction of `step`; otherwise `steps = ceil(span / step)`,
plus one when the next element `a + steps * step` still lies strictly before `b` (truncating
integer division with the identity `ceil`; a float quotient that rounds down), minus one when the
last element `a + (steps - 1) * step` does not lie strictly before `b` (a float quotient that rounds
up past an integer; never taken in exact arithmetic, `rangeLen_rat` / `rangeLen_int`), cast to
`usize` — the count as settled on the elements themselves by the `fix:` commits for F4, F45, F46 -/
def rangeLen (ops : NumOps α) (a b step : α) : Nat :=
  if (0 < step ∧ a < b) ∨ (step < 0 ∧ b < a) then
    let span := b - a
    let steps := ops.ceil (ops.div span step)
    let next := a + steps * step
    let steps := if (0 < step ∧ next < b) ∨ (step < 0 ∧ b < next) then steps + 1 else steps
    let last := a + (steps - 1) * step
    let steps := if (0 < step ∧ ¬ last < b) ∨ (step < 0 ∧ ¬ b < last) then steps - 1 else steps
    ops.toUsize steps
  else 0

/-- `range(a, b, step)` as repaired: `assert!(step != zero)`, then a `Linspace` of
`rangeLen` elements -/
def range (ops : NumOps α) (a b step : α) : Outcome (Linspace α) :=
  if step = 0 then .panic
  else .ok { start := a, step := step, index := 0, len := rangeLen ops a b step }

/-- `range` of the pinned tree: `len = b - a; steps = (len / step).ceil(); steps.cast()`
(division by an integer zero panics; the float case is not modelled for `step = 0`) -/
def rangePinned (ops : NumOps α) (a b step : α) : Outcome (Linspace α) :=
  if step = 0 then .panic
  else
    let len := b - a
    let steps := ops.ceil (ops.div len step)
    .ok { start := a, step := step, index := 0, len := ops.toUsize steps }

end

/-! ### collectors -/

/-- the owning backends whose collector overrides are modelled -/
inductive Cont where
  | vec | deque | nd
deriving DecidableEq, Repr

/-- `Vec::with_capacity(n)` panics with "capacity overflow" when `n * size_of::<T>()`
exceeds `isize::MAX` -/
def capacityOverflow (n elemSize : Nat) : Bool := n * elemSize > 9223372036854775807

/-- std `Iterator::collect` / `FromIterator` / `Array1::from_iter`: every item, in order
(std / ndarray internals are modelled, not verified) -/
def stdCollect (it : Iter α) : List α := it.items

/-- the raw write loop of `CollectTrusted for Vec` (trusted.rs:256-277): a buffer of capacity
`cap`, `ptr::write` at `ptr`, `ptr = ptr.add(1)`; writing at or past `cap` is out of bounds -/
def rawWrite (cap : Nat) : List α → List α → Outcome (List α)
  | [], written => .ok written.reverse
  | v :: rest, written => if written.length < cap then rawWrite cap rest (v :: written) else .ub

/-- `collect_from_trusted` for `Vec<T>`: `with_capacity(len)`, raw write loop, `set_len(len)`.
Exposing `len` slots when fewer were written reads uninitialised memory. -/
def collectTrustedToVec (elemSize : Nat) (it : Iter α) : Outcome (List α) :=
  match it.upper with
  | none => .panic   -- expect("The iterator must have an upper bound")
  | some len =>
    if capacityOverflow len elemSize then .panic
    else
      match rawWrite len it.items [] with
      | .ok written => if written.length = len then .ok written else .ub
      | o => o

/-- `Vec1::collect_from_iter` (vec.rs:251, vecdeque.rs:72, ndarray.rs:218) -/
def collectFromIter (_c : Cont) (it : Iter α) : List α := stdCollect it

/-- `Vec1::collect_from_trusted` (vec.rs:275; vecdeque.rs:93 `.into()`; ndarray.rs:239
`Array1::from_vec`): the conversions keep the element sequence -/
def collectFromTrusted (c : Cont) (elemSize : Nat) (it : Iter α) : Outcome (List α) :=
  match c with
  | .vec => collectTrustedToVec elemSize it
  | .deque => (collectTrustedToVec elemSize it).map id
  | .nd => (collectTrustedToVec elemSize it).map id

/-- `Vec1::collect_with_len` (own.rs:40): `collect_from_trusted(iter.to_trust(len))` -/
def collectWithLen (c : Cont) (elemSize : Nat) (it : Iter α) (len : Nat) : Outcome (List α) :=
  collectFromTrusted c elemSize (toTrust it len)

/-- `Vec1::collect_from_opt_iter` (own.rs:45): `None` becomes `T::none()`, here the null
element `none'` of the target encoding -/
def collectFromOptIter (c : Cont) (none' : α) (it : Iter (Option α)) : List α :=
  collectFromIter c (it.map fun v => v.getD none')

/-- `Vec1::empty` (`Vec::new`, `VecDeque::new`; ndarray: `collect_from_iter(empty())`) -/
def empty (c : Cont) : List α :=
  match c with
  | .vec => []
  | .deque => []
  | .nd => collectFromIter c emptyIter

/-- `Vec1::full` (own.rs:59): `collect_from_trusted(repeat_n(v, len))` -/
def full (c : Cont) (elemSize : Nat) (len : Nat) (v : α) : Outcome (List α) :=
  collectFromTrusted c elemSize (repeatN v len)

/-- result of a fallible collection together with the number of items pulled from the source -/
structure TryRes (ε α : Type) where
  result : Except ε (List α)
  consumed : Nat

/-- `iter.collect::<Result<Vec<_>, _>>()`: pull items until the first `Err`, which is returned -/
def tryLoop : List (Except ε α) → List α → Nat → TryRes ε α
  | [], acc, k => ⟨.ok acc.reverse, k⟩
  | .error e :: _, _, k => ⟨.error e, k + 1⟩
  | .ok v :: rest, acc, k => tryLoop rest (v :: acc) (k + 1)

/-- `Vec1::try_collect_from_iter` (vec.rs:256, vecdeque.rs:77, ndarray.rs:223) -/
def tryCollectFromIter (_c : Cont) (it : Iter (Except ε α)) : TryRes ε α :=
  tryLoop it.items [] 0

/-- the loop of `try_collect_from_trusted` for `Vec` (trusted.rs:279-300): as `rawWrite`,
with `let v = v?` returning the first error (the partially written buffer is dropped with
length 0, nothing uninitialised is exposed) -/
def tryRawWrite (cap : Nat) : List (Except ε α) → List α → Nat → Outcome (TryRes ε α)
  | [], written, k => .ok ⟨.ok written.reverse, k⟩
  | .error e :: _, _, k => .ok ⟨.error e, k + 1⟩
  | .ok v :: rest, written, k =>
    if written.length < cap then tryRawWrite cap rest (v :: written) (k + 1) else .ub

/-- `Vec1::try_collect_from_trusted` (vec.rs:280, vecdeque.rs:98, ndarray.rs:245) -/
def tryCollectFromTrusted (_c : Cont) (elemSize : Nat) (it : Iter (Except ε α)) :
    Outcome (TryRes ε α) :=
  match it.upper with
  | none => .panic
  | some len =>
    if capacityOverflow len elemSize then .panic
    else
      match tryRawWrite len it.items [] 0 with
      | .ok ⟨.ok written, k⟩ => if written.length = len then .ok ⟨.ok written, k⟩ else .ub
      | o => o

/-! ### `Vec1Create` (create.rs) -/

section
variable {α : Type} [Add α] [Sub α] [Mul α] [NatCast α] [OfNat α 0] [OfNat α 1]
  [LT α] [DecidableLT α] [DecidableEq α]

/-- `Vec1Create::range(Some(a), b, Some(step))`:
`collect_from_trusted(range(a, b, step).map(T::from_inner))` -/
def createRange (ops : NumOps α) (c : Cont) (elemSize : Nat) (a b step : α) : Outcome (List α) :=
  match range ops a b step with
  | .ok s => collectFromTrusted c elemSize (s.iter.map id)
  | .panic => .panic
  | .ub => .ub

/-- the same on the pinned tree (the capacity check of `Vec::with_capacity` comes first; the
items are only produced when it passes) -/
def createRangePinned (ops : NumOps α) (elemSize : Nat) (a b step : α) : Outcome (List α) :=
  match rangePinned ops a b step with
  | .ok s => if capacityOverflow s.len elemSize then .panic else .ok s.items
  | .panic => .panic
  | .ub => .ub

/-- `Vec1Create::linspace(Some(a), b, n)` -/
def createLinspace (ops : NumOps α) (c : Cont) (elemSize : Nat) (a b : α) (n : Nat) :
    Outcome (List α) :=
  collectFromTrusted c elemSize ((linspace ops a b n).iter.map id)

end

/-! ### `write_trust_iter` (uninit.rs:58-80) -/

inductive WStatus where
  | ok | err | panic
deriving DecidableEq, Repr

/-- what a call of `write_trust_iter` did: its result and the `uset(idx, v)` calls in order -/
structure WriteRes (α : Type) where
  status : WStatus
  writes : List (Nat × α)
deriving Repr, DecidableEq

/-- `(i..len).for_each(|i| uset(i, iter.next().unwrap()))`: `unwrap` panics when the iterator
is exhausted, leaving the earlier slots written -/
def writeEach : List α → Nat → Nat → List (Nat × α) → WriteRes α
  | _, _, 0, acc => ⟨.ok, acc.reverse⟩
  | [], _, _ + 1, acc => ⟨.panic, acc.reverse⟩
  | v :: rest, i, n + 1, acc => writeEach rest (i + 1) n ((i, v) :: acc)

/-- `UninitRefMut::write_trust_iter` for an output of length `len` -/
def writeTrustIter (len : Nat) (it : Iter α) : WriteRes α :=
  match it.upper with
  | none => ⟨.panic, []⟩            -- `iter.len()` = `size_hint().1.unwrap()`
  | some iterLen =>
    if len = 0 then ⟨.ok, []⟩
    else if len = iterLen then writeEach it.items 0 len []
    else if iterLen = 1 then
      match it.items with
      | [] => ⟨.panic, []⟩
      | v :: _ => ⟨.ok, (List.range len).map fun i => (i, v)⟩
    else ⟨.err, []⟩

/-- an uninitialised buffer of `len` slots -/
def uninit (α : Type) (len : Nat) : List (Option α) := List.replicate len none

/-- the buffer after a sequence of `uset` calls -/
def applyWrites (buf : List (Option α)) : List (Nat × α) → List (Option α)
  | [] => buf
  | (i, v) :: ws => applyWrites (buf.set i (some v)) ws

end Tv.C19
