import Tv.Model.Basic
/-!
# C12 — executable model of the order-statistics kernels (core Lean only)

Transcribed from the Rust code as written (after the `fix:` commits for F11, F18, F19):

* `tea-dtype/src/isnone.rs`   `sort_cmp`, `sort_cmp_rev`              → `sortCmp`, `sortCmpRev`
* `tea-agg/src/vec_valid.rs`  `vquantile`, `vmedian`                  → `vquantile`, `vmedian`
* `tea-agg/src/lib.rs`        `vpercentile_of`                        → `vpercentileOf`
* `tea-map/src/vec_map.rs`    `vrank`, `varg_partition`, `vpartition` → `vrank`, `vargPartition`, `vpartition`

`slice::sort_unstable_by` and `slice::select_nth_unstable_by` are *not* modelled by a particular
algorithm: every kernel takes a `Std` record holding "a sort" and "a selection" and the theorems
(`Tv/Thm/C12.lean`) assume only the contract documented by std (`Std.Ok`): the result of a sort is a
permutation that is pairwise ordered; a selection at `j` returns `(head, m, tail)` with
`head ++ m :: tail` a permutation, `|head| = j`, everything in `head` ≤ `m` ≤ everything in `tail`.
The driver uses the instance `Std.exec` (insertion sort; the selection deliberately returns the head
in *reversed* order so that no result can depend on the order inside `head`).

Series elements are `Option Rat` (`none` = NaN / None).
-/
namespace Tv.C12
open Tv

abbrev Elem := Option Rat

/-! ### comparators (isnone.rs) -/

/-- `partial_cmp` on valid numbers -/
def cmpRat (a b : Rat) : Ordering := if a < b then .lt else if a = b then .eq else .gt

/-- `IsNone::sort_cmp`: ascending, nulls last -/
def sortCmp : Elem → Elem → Ordering
  | some a, some b => cmpRat a b
  | none, none => .eq
  | none, some _ => .gt
  | some _, none => .lt

/-- `IsNone::sort_cmp_rev`: descending, nulls last (`partial_cmp(..).reverse()`) -/
def sortCmpRev : Elem → Elem → Ordering
  | some a, some b => (cmpRat a b).swap
  | none, none => .eq
  | none, some _ => .gt
  | some _, none => .lt

/-- the comparator chosen by the `rev` flag -/
def cmpOf (rev : Bool) : Elem → Elem → Ordering := if rev then sortCmpRev else sortCmp

/-- "not greater" under a comparator: the relation a sort by that comparator establishes -/
def leOf (cmp : α → α → Ordering) (a b : α) : Bool := cmp a b != .gt

/-- the null-last order selected by `rev` on elements -/
def leE (rev : Bool) : Elem → Elem → Bool := leOf (cmpOf rev)

/-- the comparator `|a, b| self.uget(a).sort_cmp(self.uget(b))` on indices -/
def leIdx (rev : Bool) (xs : List Elem) (a b : Nat) : Bool :=
  leE rev (xs.getD a none) (xs.getD b none)

/-! ### what std's sort / select are trusted to do -/

structure Std where
  /-- `slice::sort_unstable_by` -/
  sort : {α : Type} → (α → α → Bool) → List α → List α
  /-- `slice::select_nth_unstable_by(j)`: `(head, nth, tail)`; `none` = panic (`j ≥ len`) -/
  select : {α : Type} → (α → α → Bool) → List α → Nat → Option (List α × α × List α)

/-- the contract of std's `sort_unstable_by` / `select_nth_unstable_by` for a comparator that is a
total preorder (what their documentation promises; the algorithms themselves are trusted) -/
structure Std.Ok (S : Std) : Prop where
  sort_perm : ∀ {α : Type} (le : α → α → Bool) (l : List α), (S.sort le l).Perm l
  sort_sorted : ∀ {α : Type} (le : α → α → Bool),
    (∀ a b, le a b = true ∨ le b a = true) → (∀ a b c, le a b = true → le b c = true → le a c = true) →
    ∀ l : List α, (S.sort le l).Pairwise (fun a b => le a b = true)
  select_spec : ∀ {α : Type} (le : α → α → Bool),
    (∀ a b, le a b = true ∨ le b a = true) → (∀ a b c, le a b = true → le b c = true → le a c = true) →
    ∀ (l : List α) (j : Nat), j < l.length →
      ∃ h m t, S.select le l j = some (h, m, t) ∧ (h ++ m :: t).Perm l ∧ h.length = j ∧
        (∀ a ∈ h, le a m = true) ∧ (∀ b ∈ t, le m b = true)

/-- insertion into a sorted list -/
def insertBy (le : α → α → Bool) (a : α) : List α → List α
  | [] => [a]
  | b :: l => if le a b then a :: b :: l else b :: insertBy le a l

/-- insertion sort (the executable stand-in for `sort_unstable_by`) -/
def isort (le : α → α → Bool) : List α → List α
  | [] => []
  | a :: l => insertBy le a (isort le l)

/-- executable instance used by the driver. The head of a selection is returned reversed. -/
def Std.exec : Std where
  sort := isort
  select := fun le l j =>
    let s := isort le l
    match s[j]? with
    | none => none
    | some m => some ((s.take j).reverse, m, s.drop (j + 1))

/-! ### results -/

/-- `TResult<f64>` / panic -/
inductive Res where
  | err
  | panic
  | ok (o : Out)
deriving DecidableEq, Repr, Inhabited

/-- `Cast<f64>` of an element: null ↦ NaN -/
def toOut : Elem → Out
  | none => .null
  | some v => .val v

/-- f64 arithmetic on possibly-NaN operands (NaN propagates) -/
def map2 (f : Rat → Rat → Rat) : Elem → Elem → Elem
  | some a, some b => some (f a b)
  | _, _ => none

/-! ### vquantile / vmedian (tea-agg/src/vec_valid.rs) -/

inductive QMethod where
  | linear | lower | higher | midpoint
deriving DecidableEq, Repr, Inhabited

/-- the fold closure of `vmax` (agg.rs: `max_with`: `if other > self { other } else { self }`) -/
def maxStep (acc : Option Rat) (x : Rat) : Option Rat :=
  match acc with
  | none => some x
  | some v => some (if x > v then x else v)

/-- the fold closure of `vmin` (`min_with`: `if other < self { other } else { self }`) -/
def minStep (acc : Option Rat) (x : Rat) : Option Rat :=
  match acc with
  | none => some x
  | some v => some (if x < v then x else v)

/-- `titer().vmax()` (nulls skipped); `None` casts to NaN -/
def vmaxE (l : List Elem) : Elem := (valid l).foldl maxStep none

/-- `titer().vmin()` -/
def vminE (l : List Elem) : Elem := (valid l).foldl minStep none

/-- the final `match method` of `vquantile` on `(q, i, j, vi, vj)` -/
def qFinish (len1 q : Rat) (i j : Nat) (vi vj : Elem) : QMethod → Elem
  | .linear =>
    let qi : Rat := (i : Rat) / len1
    let qj : Rat := (j : Rat) / len1
    let fraction := (q - qi) / (qj - qi)
    map2 (fun a b => a + (b - a) * fraction) vi vj
  | .lower => vi
  | .higher => vj
  | .midpoint => map2 (fun a b => (a + b) / 2) vi vj

/-- `vquantile(q, method)` (repaired: with exactly one valid element that element is returned) -/
def vquantile (S : Std) (xs : List Elem) (q : Rat) (m : QMethod) : Res :=
  if ¬ (0 ≤ q ∧ q ≤ 1) then .err else
  let n := (valid xs).length
  if n = 0 then .ok .null
  else if n = 1 then .ok (toOut (valid xs).head?)
  else
    let len1 : Rat := ((n - 1 : Nat) : Rat)
    if q ≤ 1 / 2 then
      let qidx := len1 * q
      let i := qidx.floor.toNat
      let j := qidx.ceil.toNat
      match S.select (leE false) xs j with
      | none => .panic
      | some (head, mm, _) =>
        if i ≠ j then .ok (toOut (qFinish len1 q i j (vmaxE head) mm m))
        else .ok (toOut mm)
    else
      -- sort from largest to smallest
      let q := 1 - q
      let qidx := len1 * q
      let i := qidx.floor.toNat
      let j := qidx.ceil.toNat
      match S.select (leE true) xs j with
      | none => .panic
      | some (head, mm, _) =>
        if i ≠ j then
          let vi := vminE head
          match m with
          | .lower => .ok (toOut mm)
          | .higher => .ok (toOut vi)
          | _ => .ok (toOut (qFinish len1 q i j vi mm m))
        else .ok (toOut mm)

/-- the pinned tree (finding F11): `n == 1` returned `slc[0]`, whatever it is -/
def vquantilePinned (S : Std) (xs : List Elem) (q : Rat) (m : QMethod) : Res :=
  if (0 ≤ q ∧ q ≤ 1) ∧ (valid xs).length = 1 then .ok (toOut (xs.headD none))
  else vquantile S xs q m

/-- `vmedian() = vquantile(0.5, Linear).unwrap()` -/
def vmedian (S : Std) (xs : List Elem) : Res := vquantile S xs (1 / 2) .linear

/-! ### vpercentile_of (tea-agg/src/lib.rs) -/

inductive PMethod where
  | rank | weak | strict
deriving DecidableEq, Repr, Inhabited

/-- the `for_each` closure: `(less_than_count, exact_match_count, total_count)` -/
def pctStep (score : Rat) (c : Nat × Nat × Nat) (v : Elem) : Nat × Nat × Nat :=
  match v with
  | none => c
  | some value =>
    let (lt, eq, tot) := c
    if value < score then (lt + 1, eq, tot + 1)
    else if value = score then (lt, eq + 1, tot + 1)
    else (lt, eq, tot + 1)

def vpercentileOf (xs : List Elem) (score : Elem) (m : PMethod) : Out :=
  match score with
  | none => .null
  | some score =>
    let (lt, eq, tot) := xs.foldl (pctStep score) (0, 0, 0)
    if tot = 0 then .null else
    let le := lt + eq
    match m with
    | .rank =>
      if eq > 1 then
        let rankStart := lt + 1
        let rankEnd := rankStart + (eq - 1)
        Out.div (((rankStart + rankEnd : Nat) : Rat) * (1 / 2)) (tot : Rat)
      else Out.div ((lt + eq : Nat) : Rat) (tot : Rat)
    | .weak => Out.div (le : Rat) (tot : Rat)
    | .strict => Out.div (lt : Rat) (tot : Rat)

/-! ### vrank (tea-map/src/vec_map.rs) -/

/-- the mutable locals of the run-length loop; `out` slots are `none` while uninitialised -/
structure RankSt where
  out : List (Option Out)
  rep : Nat      -- repeat_num
  sum : Nat      -- sum_rank
  cur : Nat      -- cur_rank
  idx : Nat      -- idx (only its value after the `break` is used)
  nan : Bool     -- nan_flag
deriving Repr

/-- `for j in 0..repeat_num { out.uset(idx_sorted.uget(i - j), v) }` -/
def writeRun (s : List Nat) (out : List (Option Out)) (i : Nat) (v : Out) : Nat → List (Option Out)
  | 0 => out
  | r + 1 => (writeRun s out i v r).set (s.getD (i - r) 0) (some v)

/-- rank of a finished run: `sum_rank / repeat_num` resp. `sum_rank / (repeat_num * not_none_count)` -/
def runVal (pct : Bool) (nn sum rep : Nat) : Out :=
  if pct then Out.div (sum : Rat) ((rep * nn : Nat) : Rat) else Out.div (sum : Rat) (rep : Rat)

/-- rank of an unrepeated element: `cur_rank` resp. `cur_rank / not_none_count` -/
def oneVal (pct : Bool) (nn cur : Nat) : Out :=
  if pct then Out.div (cur : Rat) (nn : Rat) else .val (cur : Rat)

/-- `for i in 0..len-1 { ... }` with its `break`: `rankLoop … i k st` runs iterations `i, i+1, …, i+k-1` -/
def rankLoop (xs : List Elem) (s : List Nat) (pct : Bool) (nn : Nat) : Nat → Nat → RankSt → RankSt
  | _, 0, st => st
  | i, k + 1, st =>
    let idx := s.getD i 0
    let idx1 := s.getD (i + 1) 0
    let v := xs.getD idx none
    let v1 := xs.getD idx1 none
    if v1 = none then
      -- next value is none, so remain values are none
      let sum := st.sum + st.cur
      { st with sum := sum, cur := st.cur + 1,
                out := writeRun s st.out i (runVal pct nn sum st.rep) st.rep,
                idx := i + 1, nan := true }
    else if v = v1 then
      rankLoop xs s pct nn (i + 1) k
        { st with rep := st.rep + 1, sum := st.sum + st.cur, cur := st.cur + 1, idx := idx }
    else if st.rep = 1 then
      rankLoop xs s pct nn (i + 1) k
        { st with out := st.out.set idx (some (oneVal pct nn st.cur)), cur := st.cur + 1, idx := idx }
    else
      let sum := st.sum + st.cur
      rankLoop xs s pct nn (i + 1) k
        { st with out := writeRun s st.out i (runVal pct nn sum st.rep) st.rep,
                  sum := 0, rep := 1, cur := st.cur + 1, idx := idx }

/-- the two loops after the main loop -/
def rankFinish (s : List Nat) (pct : Bool) (nn len : Nat) (st : RankSt) : List (Option Out) :=
  if st.nan then
    (List.range' st.idx (len - st.idx)).foldl (fun o i => o.set (s.getD i 0) (some .null)) st.out
  else
    let sum := st.sum + st.cur
    (List.range' (len - st.rep) st.rep).foldl
      (fun o i => o.set (s.getD i 0) (some (runVal pct nn sum st.rep))) st.out

/-- `vrank(pct, rev)` (repaired: a single null element ranks null). Slots are `none` if never written. -/
def vrank (S : Std) (xs : List Elem) (pct rev : Bool) : List (Option Out) :=
  let len := xs.length
  if len = 0 then []
  else if len = 1 then [some (if xs.headD none = none then .null else .val 1)]
  else
    let s := S.sort (leIdx rev xs) (List.range len)
    if xs.getD (s.getD 0 0) none = none then List.replicate len (some .null)
    else
      let nn := (valid xs).length
      let st0 : RankSt := { out := List.replicate len none, rep := 1, sum := 0, cur := 1, idx := 0, nan := false }
      rankFinish s pct nn len (rankLoop xs s pct nn 0 (len - 1) st0)

/-- the pinned tree (finding F18): `len == 1` returned `[1.0]` unconditionally -/
def vrankPinned (S : Std) (xs : List Elem) (pct rev : Bool) : List (Option Out) :=
  if xs.length = 1 then [some (.val 1)] else vrank S xs pct rev

/-! ### vpartition / varg_partition (tea-map/src/vec_map.rs) -/

/-- `.chain(repeat(pad)).take(k + 1)` -/
def padTake (l : List α) (pad : α) (k1 : Nat) : List α :=
  (l ++ List.replicate (k1 - l.length) pad).take k1

/-- `vpartition(kth, sort, rev)`; `none` = panic. Repaired (F19): the sorted fast path pads to `kth+1`. -/
def vpartition (S : Std) (xs : List Elem) (kth : Nat) (sort rev : Bool) : Option (List Elem) :=
  let n := (valid xs).length
  if n = kth + 1 ∧ !sort then some (xs.filter (·.isSome))
  else if n ≤ kth + 1 then
    if !sort then some (padTake (xs.filter (·.isSome)) none (kth + 1))
    else some (padTake (S.sort (leE rev) xs) none (kth + 1))
  else
    match S.select (leE rev) xs kth with
    | none => none
    | some (head, m, _) =>
      let outC := head ++ [m]           -- truncate(kth + 1)
      some (if sort then S.sort (leE rev) outC else outC)

/-- the pinned tree (finding F19): `vec.into_iter().take(kth + 1)` without padding -/
def vpartitionPinned (S : Std) (xs : List Elem) (kth : Nat) (sort rev : Bool) : Option (List Elem) :=
  let n := (valid xs).length
  if n ≤ kth + 1 ∧ sort then some ((S.sort (leE rev) xs).take (kth + 1))
  else vpartition S xs kth sort rev

/-- indices of the non-null elements, in order (`enumerate().filter_map(..)`) -/
def validIdx (xs : List Elem) : List Nat :=
  (List.range xs.length).filter (fun i => (xs.getD i none).isSome)

/-- `varg_partition(kth, sort, rev)`: `i32` indices, `-1` padding; `none` = panic -/
def vargPartition (S : Std) (xs : List Elem) (kth : Nat) (sort rev : Bool) : Option (List Int) :=
  let n := (valid xs).length
  if n ≤ kth + 1 then
    if !sort then some (padTake ((validIdx xs).map Int.ofNat) (-1) (kth + 1))
    else
      let idxSorted := S.sort (leIdx rev xs) (List.range xs.length)
      some (padTake ((idxSorted.take n).map Int.ofNat) (-1) (kth + 1))
  else
    match S.select (leIdx rev xs) (List.range xs.length) kth with
    | none => none
    | some (head, m, _) =>
      let idx := head ++ [m]
      some ((if sort then S.sort (leIdx rev xs) idx else idx).map Int.ofNat)

end Tv.C12
