import Tv.Model.Basic
/-!
  C20 — composite analytics: executable model of

  * `winsorize`  (tevec/src/map.rs): bounds (quantile / median ± k·MAD / mean ± k·sigma), then
    `vclip` (tea-map/src/valid_iter.rs) — transcribed with its four `(lower, upper)` null cases;
  * `vcorr(Spearman)` (tevec/src/agg.rs) = `vcorr_pearson` (tea-core/src/agg.rs) of the two
    average-rank vectors (`vrank(false,false)`, tea-map/src/vec_map.rs, modelled by counting);
  * `half_life` (tevec/src/agg.rs): the doubling search and the bisection on the lag, with the
    lag autocorrelation `vcorr_pearson(self, vshift(self, lag))` abstracted as an oracle
    `c : Nat → Cls`.  `usize` subtraction that would underflow is the outcome `panic`; the two
    `while` loops take fuel (`len`), running out of fuel is the outcome `timeout`.

  Core Lean only (linked into `tvmodel`).
-/
namespace Tv.C20
open Tv

/-! ## half_life -/

/-- classification of one lag autocorrelation `corr`:
`above` ⇔ `corr > 0.5`, `below` ⇔ `corr < 0.5`, `half` ⇔ `corr == 0.5`, `nan` ⇔ `corr.is_nan()` -/
inductive Cls where
  | above
  | below
  | half
  | nan
deriving DecidableEq, Repr, Inhabited

/-- outcome of a run -/
inductive Res where
  | ok (lag : Nat)
  | panic
  | timeout
deriving DecidableEq, Repr, Inhabited

/-- the doubling search
```
while n < len { n = 2usize.pow(i); corr = c(n);
                if corr <= 0.5 || corr.is_nan() { break } else { last_n = n }; i += 1 }
```
state `(n, last_n, i)`; returns `(n, last_n)` at loop exit, `none` when the fuel runs out -/
def doubling (c : Nat → Cls) (len : Nat) : Nat → Nat → Nat → Nat → Option (Nat × Nat)
  | 0, _, _, _ => none
  | fuel + 1, n, last, i =>
    if n < len then
      let n' := 2 ^ i
      if c n' = .above then doubling c len fuel n' n' (i + 1)
      else some (n', last)
    else some (n, last)

/-- the bisection **as repaired** (`fix:` commits for F22 and for the early `break`):
```
while n - last_n > 1 { life = (n + last_n) / 2; corr = c(life);
                       if corr > 0.5 { last_n = life } else { n = life } }
n
``` -/
def bisect (c : Nat → Cls) : Nat → Nat → Nat → Res
  | 0, _, _ => .timeout
  | fuel + 1, n, last =>
    if n < last then .panic                       -- `n - last_n` underflows
    else if n - last > 1 then
      let life := (n + last) / 2
      if c life = .above then bisect c fuel n life
      else bisect c fuel life last
    else .ok n

/-- which historical version of the bisection body -/
inductive Variant where
  /-- the pinned tree: `corr > 0.5 ⇒ (last_n, n) = (life, last_n)`; `corr == 0.5 | NaN ⇒ n = life; break` -/
  | pinned
  /-- after the F22 repair only: `corr > 0.5 ⇒ last_n = life`; `corr == 0.5 | NaN ⇒ n = life; break` -/
  | swapFixed
deriving DecidableEq, Repr

/-- the bisection of the pinned tree / after the first repair, exactly as written there -/
def bisectOld (v : Variant) (c : Nat → Cls) : Nat → Nat → Nat → Res
  | 0, _, _ => .timeout
  | fuel + 1, n, last =>
    if n < last then .panic
    else if n - last > 1 then
      let life := (n + last) / 2
      match c life with
      | .below => bisectOld v c fuel life last
      | .above =>
        match v with
        | .pinned => bisectOld v c fuel last life      -- (last_n, n) = (life, last_n)
        | .swapFixed => bisectOld v c fuel n life
      | _ => .ok life                                   -- n = life; break
    else .ok n

/-- `half_life` with the autocorrelation oracle `c` (repaired code) -/
def halfLife (c : Nat → Cls) (len : Nat) : Res :=
  if len = 0 then .ok 0 else
  match doubling c len (len + 1) 0 0 0 with
  | none => .timeout
  | some (n, last) => bisect c len (min n (len - 1)) last

/-- `half_life` of the pinned tree (`Variant.pinned`) or after the first repair only -/
def halfLifeOld (v : Variant) (c : Nat → Cls) (len : Nat) : Res :=
  if len = 0 then .ok 0 else
  match doubling c len (len + 1) 0 0 0 with
  | none => .timeout
  | some (n, last) => bisectOld v c len (min n (len - 1)) last

/-- oracle from its transmitted form: character `l-1` of the string classifies lag `l ≥ 1`
(`a`bove, `b`elow, `h`alf, anything else / out of range: NaN — a shift by `≥ len` leaves no pair) -/
def clsOfChar : Char → Cls
  | 'a' => .above
  | 'b' => .below
  | 'h' => .half
  | _ => .nan

def oracleOfList (cs : List Cls) (l : Nat) : Cls :=
  if l = 0 then .nan else cs.getD (l - 1) .nan

def oracleOfString (s : String) : Nat → Cls := oracleOfList (s.toList.map clsOfChar)

/-! ## winsorize -/

/-- `vclip(lower, upper)` on a null-aware series; a null bound (NaN) switches that side off -/
def vclip (lo hi : Option Rat) (xs : List (Option Rat)) : List (Option Rat) :=
  match lo, hi with
  | some l, some h =>
    xs.map fun v => match v with
      | some x => if x < l then some l else if x > h then some h else some x
      | none => none
  | some l, none =>
    xs.map fun v => match v with
      | some x => if x < l then some l else some x
      | none => none
  | none, some h =>
    xs.map fun v => match v with
      | some x => if x > h then some h else some x
      | none => none
  | none, none => xs

/-- insertion into an ascending list -/
def insertAsc (a : Rat) : List Rat → List Rat
  | [] => [a]
  | b :: l => if a ≤ b then a :: b :: l else b :: insertAsc a l

/-- ascending sort (what `select_nth_unstable_by(sort_cmp)` exposes of the valid elements) -/
def sortAsc : List Rat → List Rat
  | [] => []
  | a :: l => insertAsc a (sortAsc l)

/-- `vquantile(q, Linear)` for `0 ≤ q ≤ 1`, as written: `q ≤ 0.5` selects from the ascending
order, `q > 0.5` mirrors (`q' = 1 - q`) and selects from the descending order.
`none` = NaN (no valid element). -/
def vquantile (xs : List (Option Rat)) (q : Rat) : Option Rat :=
  let vs := valid xs
  let n := vs.length
  if n = 0 then none
  else if n = 1 then vs[0]?
  else
    let len1 : Rat := ((n - 1 : Nat) : Rat)
    let (q', s) := if q ≤ 1 / 2 then (q, sortAsc vs) else (1 - q, (sortAsc vs).reverse)
    let qIdx := len1 * q'
    let i := qIdx.floor.toNat
    let j := qIdx.ceil.toNat
    if i = j then s[j]?
    else
      match s[i]?, s[j]? with
      | some vi, some vj =>
        let qi := (i : Rat) / len1
        let qj := (j : Rat) / len1
        let fraction := (q' - qi) / (qj - qi)
        some (vi + (vj - vi) * fraction)
      | _, _ => none

def vmedian (xs : List (Option Rat)) : Option Rat := vquantile xs (1 / 2)

def EPS : Rat := 1 / 100000000000000

/-- `vmean_var(2)`: `(mean, sample variance)` with the `EPS` floor; `none` = NaN -/
def vmeanVar2 (xs : List (Option Rat)) : Option Rat × Option Rat :=
  let vs := valid xs
  let n := vs.length
  if n < 2 then (none, none)
  else
    let nq : Rat := (n : Rat)
    let m1 := (vs.foldl (· + ·) 0) / nq
    let m2 := (vs.foldl (fun s v => s + v * v) 0) / nq - m1 * m1
    if m2 ≤ EPS then (some m1, some 0)
    else (some m1, some (m2 * nq / ((n - 1 : Nat) : Rat)))

/-- `f64::abs` -/
def absR (x : Rat) : Rat := if x < 0 then -x else x

inductive Method where
  | quantile
  | median
  | sigma
deriving DecidableEq, Repr

/-- default `method_params`: 0.01 / 3 / 3 -/
def Method.dflt : Method → Rat
  | .quantile => 1 / 100
  | .median => 3
  | .sigma => 3

/-- the clipping interval computed by `winsorize`; `(none, none)` = pass-through branch.
`sqrt` is the square-root function (abstract: the exact model never takes roots). -/
def bounds (sqrt : Rat → Rat) (m : Method) (p : Option Rat) (xs : List (Option Rat)) :
    Option Rat × Option Rat :=
  let k := p.getD m.dflt
  match m with
  | .quantile => (vquantile xs k, vquantile xs (1 - k))
  | .median =>
    match vmedian xs with
    | some med =>
      match vmedian (xs.map (Option.map fun v => absR (v - med))) with
      | some mad => (some (med - k * mad), some (med + k * mad))
      | none => (none, none)
    | none => (none, none)
  | .sigma =>
    match vmeanVar2 xs with
    | (some mean, some var) =>
      if var > EPS then
        let std := sqrt var
        (some (mean - k * std), some (mean + k * std))
      else (none, none)
    | _ => (none, none)

def winsorize (sqrt : Rat → Rat) (m : Method) (p : Option Rat) (xs : List (Option Rat)) :
    List (Option Rat) :=
  let b := bounds sqrt m p xs
  vclip b.1 b.2 xs

/-- rational square root good to about 20 decimal digits (driver only; the theorems hold for
every `sqrt`) -/
def sqrtApprox (x : Rat) : Rat :=
  if x ≤ 0 then 0
  else (Nat.sqrt (x.num.toNat * x.den * 10 ^ 40) : Rat) / ((x.den : Rat) * 10 ^ 20)

/-! ## Spearman correlation -/

/-- average rank of `v` among the valid values `vs`, by counting:
`1 + #{a < v} + (#{a = v} - 1) / 2` -/
def rankOf (vs : List Rat) (v : Rat) : Rat :=
  1 + ((vs.filter (· < v)).length : Rat) + (((vs.filter (· = v)).length : Rat) - 1) / 2

/-- `vrank(pct = false, rev = false)`: nulls get a null rank, ties the average rank -/
def vrank (xs : List (Option Rat)) : List (Option Rat) :=
  let vs := valid xs
  xs.map (Option.map (rankOf vs))

def sgn (q : Rat) : Int := if q < 0 then -1 else if q = 0 then 0 else 1

/-- pairwise-valid pairs of two zipped series -/
def validPairs (xs ys : List (Option Rat)) : List (Rat × Rat) :=
  (xs.zip ys).filterMap fun p => match p with
    | (some a, some b) => some (a, b)
    | _ => none

/-- `vcorr_pearson(other, min_periods)` as written (raw-moment form, `EPS` guard on both
population variances, `min_periods.max(2)`); the value is `sign·√(cov²/(var_a·var_b))` -/
def pearson (xs ys : List (Option Rat)) (mp : Nat) : Out :=
  let ps := validPairs xs ys
  let n := ps.length
  if n ≥ max mp 2 then
    let nq : Rat := (n : Rat)
    let sumA := ps.foldl (fun s p => s + p.1) 0
    let sum2A := ps.foldl (fun s p => s + p.1 * p.1) 0
    let sumB := ps.foldl (fun s p => s + p.2) 0
    let sum2B := ps.foldl (fun s p => s + p.2 * p.2) 0
    let sumAB := ps.foldl (fun s p => s + p.1 * p.2) 0
    let meanA := sumA / nq
    let meanB := sumB / nq
    let varA := sum2A / nq - meanA * meanA
    let varB := sum2B / nq - meanB * meanB
    if varA > EPS ∧ varB > EPS then
      let exy := sumAB / nq
      let exey := sumA * sumB / (nq * nq)
      let cov := exy - exey
      .root (sgn cov) (cov * cov / (varA * varB))
    else .null
  else .null

/-- `vcorr(other, min_periods, CorrMethod::Spearman)` -/
def vcorrSpearman (xs ys : List (Option Rat)) (mp : Option Nat) : Out :=
  let minPeriods := mp.getD (xs.length / 2)
  pearson (vrank xs) (vrank ys) minPeriods

end Tv.C20
