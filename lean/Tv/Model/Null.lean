import Tv.Model.Basic
/-!
  The two canonical null encodings of a numeric series (C08): float-like carriers, where the
  null is NaN, and option-like carriers, where it is `None`. Transcribed from
  tea-dtype/src/isnone.rs: for `f32/f64`, `is_none = is_nan`, `to_opt = if is_nan {None} else {Some(self)}`,
  `none() = NAN`; for `Option<T>`, `is_none = Option::is_none`, `to_opt = self`, `none() = None`.
  The non-canonical `Some(NaN)` is outside every statement (DESIGN 5.4).
-/
namespace Tv

/-- a float-like element: a finite value or NaN -/
inductive FVal where
  | fin (q : Rat)
  | nan
deriving DecidableEq, Repr

def FVal.isNone : FVal → Bool
  | .nan => true
  | .fin _ => false

/-- `IsNone::to_opt` for floats -/
def FVal.toOpt : FVal → Option Rat
  | .nan => none
  | .fin q => some q

/-- `IsNone::from_opt` / `none()` for floats -/
def FVal.ofOpt : Option Rat → FVal
  | none => .nan
  | some q => .fin q

/-- option-like element (`Option<f64>`, `Option<i32>`): `to_opt` is the identity -/
def optToOpt (o : Option Rat) : Option Rat := o

/-- the null-skipping folds of iter_traits.rs (`vfold`, `vfold_n`, `vapply_n`): they observe an
element only through `not_none` / `unwrap` -/
def vfoldN {ε σ : Type} (isNone : ε → Bool) (unwrap : ε → Rat) (f : σ → Rat → σ) (init : σ) (xs : List ε) : Nat × σ :=
  xs.foldl (fun (acc : Nat × σ) v => if isNone v then acc else (acc.1 + 1, f acc.2 (unwrap v))) (0, init)

def FVal.unwrap : FVal → Rat
  | .fin q => q
  | .nan => 0   -- never reached under the `not_none` guard

/-- output casts of a rolling result: `f64::NAN.cast()` / value `.cast()` into a float-like or
option-like output element -/
def outToF : Out → FVal
  | .val q => .fin q
  | _ => .nan
def outToO : Out → Option Rat
  | .val q => some q
  | _ => none

end Tv
