import Tv.Model.Basic
/-! The mask table the hand-written model is built from. `Tv.Generated.maskTable` is
regenerated from the Rust sources on every run; `maskTable_matches` (Thm/C05) states that
both are equal, so editing a `min_periods` expression, a window clamp or the driver an
entry point uses breaks a proof obligation. Columns: entry point, `.min(window)` present,
window clamped to len first, `.max(k)`, driver, form. -/
namespace Tv.Model

def maskTable : List (String × Bool × Bool × Nat × String × String) := [
  ("ts_ewm", true, false, 0, "rolling_apply", "std"),
  ("ts_fdiff", false, false, 0, "rolling_custom", "none"),
  ("ts_kurt", true, false, 4, "rolling_apply", "std"),
  ("ts_mean", true, false, 0, "rolling_apply", "std"),
  ("ts_skew", true, false, 3, "rolling_apply", "std"),
  ("ts_std", true, false, 2, "rolling_apply", "std"),
  ("ts_sum", true, false, 0, "rolling_apply", "std"),
  ("ts_var", true, false, 2, "rolling_apply", "std"),
  ("ts_vargmax", false, true, 0, "rolling_apply_idx", "std"),
  ("ts_vargmin", false, true, 0, "rolling_apply_idx", "std"),
  ("ts_vcorr", true, false, 0, "rolling2_apply", "std"),
  ("ts_vcov", true, false, 2, "rolling2_apply", "std"),
  ("ts_vewm", true, false, 0, "rolling_apply", "std"),
  ("ts_vfdiff", true, false, 0, "rolling_custom", "std"),
  ("ts_vkurt", true, false, 4, "rolling_apply", "std"),
  ("ts_vmax", false, true, 0, "rolling_apply_idx", "std"),
  ("ts_vmean", true, false, 0, "rolling_apply", "std"),
  ("ts_vmin", false, true, 0, "rolling_apply_idx", "std"),
  ("ts_vminmaxnorm", true, false, 0, "rolling_apply_idx", "std"),
  ("ts_vrank", false, true, 0, "rolling_apply_idx", "std"),
  ("ts_vreg", true, false, 0, "rolling_apply", "std"),
  ("ts_vreg_intercept", true, false, 0, "rolling_apply", "std"),
  ("ts_vreg_resid_mean", true, false, 0, "rolling_apply", "std"),
  ("ts_vreg_slope", true, false, 0, "rolling_apply", "std"),
  ("ts_vregx_all", true, false, 0, "rolling2_apply", "std"),
  ("ts_vregx_alpha", true, false, 0, "rolling2_apply", "std"),
  ("ts_vregx_beta", true, false, 0, "rolling2_apply", "std"),
  ("ts_vregx_resid_mean", true, false, 0, "rolling2_apply_idx", "std"),
  ("ts_vregx_resid_skew", true, false, 0, "rolling2_apply_idx", "std"),
  ("ts_vregx_resid_std", true, false, 0, "rolling2_apply_idx", "std"),
  ("ts_vskew", true, false, 3, "rolling_apply", "std"),
  ("ts_vstd", true, false, 2, "rolling_apply", "std"),
  ("ts_vsum", true, false, 0, "rolling_apply", "std"),
  ("ts_vtsf", true, false, 0, "rolling_apply", "std"),
  ("ts_vvar", true, false, 2, "rolling_apply", "std"),
  ("ts_vwma", true, false, 0, "rolling_apply", "std"),
  ("ts_vzscore", true, false, 0, "rolling_apply", "std"),
  ("ts_wma", true, false, 0, "rolling_apply", "std")
]

/-- names of the feature entry points (null-aware, plain) -/
def featNames : Tv.Feat → String × String
  | .sum => ("ts_vsum", "ts_sum") | .mean => ("ts_vmean", "ts_mean") | .ewm => ("ts_vewm", "ts_ewm")
  | .wma => ("ts_vwma", "ts_wma") | .std => ("ts_vstd", "ts_std") | .var => ("ts_vvar", "ts_var")
  | .skew => ("ts_vskew", "ts_skew") | .kurt => ("ts_vkurt", "ts_kurt")

end Tv.Model
