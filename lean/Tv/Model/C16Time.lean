/-
  C16 — executable model of the time values of `tea-time` (core Lean only).

  * `DateTime<U>` is its raw `i64` timestamp, modelled as an `Int` together with the range
    predicate `InI64`; `NaT = i64::MIN`.  `Time` (nanoseconds since midnight) likewise.
  * `TimeDelta` is `(months : i32, inner : chrono::Duration)`; the duration is modelled by its
    exact length in nanoseconds; NaT is `months = i32::MIN` (the duration part is irrelevant).
  * a chrono `DateTime<Utc>` is modelled by its instant: nanoseconds since the epoch as an
    unbounded `Int`, restricted to chrono's representable range `InCr`.
  * the debug profile's overflow checks, `unwrap`, `expect` and `unimplemented!` are the explicit
    outcome `Res.panic` (DESIGN 5.2).

  Transcribed from (repaired tree): tea-time/src/convert.rs (`into_unit`), datetime.rs
  (`is_nat`, `into_opt_i64`, `from_opt_i64`, `as_cr`), impls/impl_datetime.rs (`TryFrom`/`From`
  chrono per unit), impls/impl_ops.rs (all operators), time.rs (`Time::as_cr`),
  tea-dtype/src/cast.rs (`Cast<DateTime<_>>`, `Cast<Option<i64>>`), isnone.rs (`is_none`).
  The `…Pinned` definitions transcribe the same functions as they were before the `fix:` commits.
-/
namespace Tv.C16

/-- the four time units `into_unit` supports -/
inductive U where
  | s | ms | us | ns
deriving DecidableEq, Repr, Inhabited

def U.all : List U := [.s, .ms, .us, .ns]

/-- name of the unit type in timeunit.rs -/
def U.name : U → String
  | .s => "Second" | .ms => "Millisecond" | .us => "Microsecond" | .ns => "Nanosecond"

def i64Min : Int := -9223372036854775808
def i64Max : Int := 9223372036854775807
def i32Min : Int := -2147483648
def i32Max : Int := 2147483647

/-- the value fits an `i64` -/
def InI64 (x : Int) : Prop := i64Min ≤ x ∧ x ≤ i64Max
instance (x : Int) : Decidable (InI64 x) := by unfold InI64; infer_instance

def InI32 (x : Int) : Prop := i32Min ≤ x ∧ x ≤ i32Max
instance (x : Int) : Decidable (InI32 x) := by unfold InI32; infer_instance

/-- Not-a-Time of `DateTime<U>` and of `Time`: the sentinel `i64::MIN` (datetime.rs `nat`, `is_nat`) -/
def NaT : Int := i64Min

/-- outcome of a Rust expression that may panic -/
inductive Res (α : Type) where
  | ok (a : α)
  | panic
deriving DecidableEq, Repr

/-! ### unit conversion (convert.rs) -/

/-- right-hand side of one match arm of `into_unit` -/
inductive Op where
  /-- `self.0 * K` (overflow-checked in the debug profile) -/
  | mul (k : Int)
  /-- `self.0.div_euclid(K)` -/
  | divEuclid (k : Int)
  /-- `self.0 / K` (Rust `/`: truncation toward zero) -/
  | divTrunc (k : Int)
deriving DecidableEq, Repr

def NANOS_PER_MICRO : Int := 1000
def NANOS_PER_MILLI : Int := 1000000
def NANOS_PER_SEC : Int := 1000000000
def MICROS_PER_MILLI : Int := 1000
def MICROS_PER_SEC : Int := 1000000
def MILLIS_PER_SEC : Int := 1000

/-- the match arms of `into_unit` (repaired tree); `Thm.unitTable_matches` ties it to the source -/
def unitTable : List (U × U × Op) := [
  (.us, .ms, .divEuclid MICROS_PER_MILLI),
  (.us, .ns, .mul NANOS_PER_MICRO),
  (.us, .s, .divEuclid MICROS_PER_SEC),
  (.ms, .us, .mul MICROS_PER_MILLI),
  (.ms, .ns, .mul NANOS_PER_MILLI),
  (.ms, .s, .divEuclid MILLIS_PER_SEC),
  (.ns, .us, .divEuclid NANOS_PER_MICRO),
  (.ns, .ms, .divEuclid NANOS_PER_MILLI),
  (.ns, .s, .divEuclid NANOS_PER_SEC),
  (.s, .us, .mul MICROS_PER_SEC),
  (.s, .ms, .mul MILLIS_PER_SEC),
  (.s, .ns, .mul NANOS_PER_SEC)]

/-- the pinned tree divided with `/` -/
def unitTablePinned : List (U × U × Op) :=
  unitTable.map fun (a, b, op) =>
    (a, b, match op with
      | .divEuclid k => .divTrunc k
      | o => o)

def lookup (tbl : List (U × U × Op)) (a b : U) : Option Op :=
  (tbl.find? fun e => e.1 = a ∧ e.2.1 = b).map (·.2.2)

def applyOp : Op → Int → Res Int
  | .mul k, x => if InI64 (x * k) then .ok (x * k) else .panic
  | .divEuclid k, x => .ok (x / k)
  | .divTrunc k, x => .ok (x.tdiv k)

/-- `DateTime<a>::into_unit::<b>()` (repaired): identity on equal units, NaT stays NaT, otherwise
the table arm; a pair without an arm is `unimplemented!` -/
def intoUnit (a b : U) (x : Int) : Res Int :=
  if a = b then .ok x
  else if x = NaT then .ok NaT
  else match lookup unitTable a b with
    | some op => applyOp op x
    | none => .panic

/-- `into_unit` of the pinned tree: no NaT guard, truncating division -/
def intoUnitPinned (a b : U) (x : Int) : Res Int :=
  if a = b then .ok x
  else match lookup unitTablePinned a b with
    | some op => applyOp op x
    | none => .panic

/-- `Cast<DateTime<b>> for DateTime<a>` (cast.rs `time_unit_cast!`; equal units: the blanket `Cast<T> for T`) -/
def castUnit (a b : U) (x : Int) : Res Int :=
  if a = b then .ok x else intoUnit a b x

/-! ### optional integer (datetime.rs, cast.rs, isnone.rs) -/

def isNat (x : Int) : Bool := x == NaT

/-- `into_opt_i64`, also `Cast<Option<i64>>` -/
def intoOptI64 (x : Int) : Option Int := if isNat x then none else some x

/-- `from_opt_i64`, `From<Option<i64>>`, `Cast<DateTime<U>> for Option<i64>` -/
def fromOptI64 : Option Int → Int
  | some v => v
  | none => NaT

/-! ### chrono values -/

/-- nanoseconds per unit: the scale of chrono's `from_timestamp(x, 0)`, `from_timestamp_millis`,
`from_timestamp_micros`, `from_timestamp_nanos` and of `timestamp`, `timestamp_millis`, … -/
def U.mult : U → Int
  | .s => 1000000000 | .ms => 1000000 | .us => 1000 | .ns => 1

/-- first and last instant chrono represents (`DateTime::<Utc>::MIN_UTC`, `MAX_UTC`), in nanoseconds;
validated against chrono by the request `c16_cr_range` -/
def crMinNs : Int := -8334601228800 * 1000000000
def crMaxNs : Int := 8210266876799 * 1000000000 + 999999999

def InCr (t : Int) : Prop := crMinNs ≤ t ∧ t ≤ crMaxNs
instance (t : Int) : Decidable (InCr t) := by unfold InCr; infer_instance

/-- `TryFrom<DateTime<U>> for CrDateTime<Utc>` (`.ok()`): chrono's constructors return `None` outside
its range (`from_timestamp_nanos` is total: every `i64` nanosecond count is inside) -/
def tryIntoCr (u : U) (x : Int) : Option Int :=
  let t := x * u.mult
  if InCr t then some t else none

/-- `as_cr`: `None` for NaT, otherwise the `TryFrom` conversion -/
def asCr (u : U) (x : Int) : Option Int :=
  if isNat x then none else tryIntoCr u x

/-- `From<CrDateTime<Utc>> for DateTime<U>`: `timestamp()`, `timestamp_millis()`,
`timestamp_micros()` round toward the past; `timestamp_nanos_opt().expect(..)` panics outside `i64` -/
def fromCr (u : U) (t : Int) : Res Int :=
  match u with
  | .ns => if InI64 t then .ok t else .panic
  | u => .ok (t / u.mult)

/-- `From<Option<NaiveDateTime>>` -/
def fromOptCr (u : U) : Option Int → Res Int
  | some t => fromCr u t
  | none => .ok NaT

/-! ### durations and operators (impls/impl_ops.rs) -/

/-- `TimeDelta { months, inner }`, the chrono duration in nanoseconds -/
structure TD where
  months : Int
  inner : Int
deriving DecidableEq, Repr

/-- `TimeDelta::nat()` -/
def tdNaT : TD := ⟨i32Min, 0⟩

/-- `TimeDelta::is_nat` -/
def TD.isNat (t : TD) : Bool := t.months == i32Min

/-- chrono's `Duration` spans `±i64::MAX` milliseconds -/
def durMaxNs : Int := i64Max * 1000000
def InDur (n : Int) : Prop := -durMaxNs ≤ n ∧ n ≤ durMaxNs
instance (n : Int) : Decidable (InDur n) := by unfold InDur; infer_instance

/-- `checked` arithmetic of a chrono `DateTime ± Duration`: the `Add`/`Sub` impls `expect` the result -/
def crShift (t d : Int) : Res Int := if InCr (t + d) then .ok (t + d) else .panic

/-- shared body of `DateTime<U> ± TimeDelta`. `am t m` is chrono's calendar shift of instant `t` by `m`
months (`dt + Months::new(m)` for `m > 0`, `dt - Months::new(-m)` for `m < 0`; `none` = its panic);
it is left abstract here (C17 models it) and is only consulted when `months ≠ 0`.  `sgn = 1` for `+`,
`-1` for `-`. -/
def dtShift (am : Int → Int → Option Int) (sgn : Int) (u : U) (x : Int) (d : TD) : Res Int :=
  if !isNat x && !d.isNat then
    match asCr u x with
    | none => .panic                                   -- `.as_cr().unwrap()`
    | some t =>
      match (if d.months ≠ 0 then am t (sgn * d.months) else some t) with
      | none => .panic
      | some o =>
        match crShift o (sgn * d.inner) with
        | .panic => .panic
        | .ok r => fromCr u r
  else .ok NaT

/-- `Add<TimeDelta> for DateTime<U>` -/
def dtAdd (am : Int → Int → Option Int) := dtShift am 1
/-- `Sub<TimeDelta> for DateTime<U>` -/
def dtSub (am : Int → Int → Option Int) := dtShift am (-1)

/-- `Sub<DateTime<U>> for DateTime<U>` -/
def dtDiff (u : U) (x y : Int) : Res TD :=
  if !isNat x && !isNat y then
    match asCr u x, asCr u y with
    | some a, some b => .ok ⟨0, a - b⟩
    | _, _ => .panic
  else .ok tdNaT

/-- `Neg for TimeDelta` (NaT is returned unchanged) -/
def tdNeg (a : TD) : Res TD :=
  if !a.isNat then .ok ⟨-a.months, -a.inner⟩ else .ok a

/-- componentwise combination with the `i32` overflow check and chrono's `Duration` range `expect` -/
def tdMk (m i : Int) : Res TD := if InI32 m ∧ InDur i then .ok ⟨m, i⟩ else .panic

/-- `Add for TimeDelta` -/
def tdAdd (a b : TD) : Res TD :=
  if !a.isNat && !b.isNat then tdMk (a.months + b.months) (a.inner + b.inner) else .ok tdNaT

/-- `Sub for TimeDelta` -/
def tdSub (a b : TD) : Res TD :=
  if !a.isNat && !b.isNat then tdMk (a.months - b.months) (a.inner - b.inner) else .ok tdNaT

/-- `Mul<i32> for TimeDelta` -/
def tdMul (a : TD) (k : Int) : Res TD :=
  if !a.isNat then tdMk (a.months * k) (a.inner * k) else .ok tdNaT

/-- shared body of `Time ± TimeDelta` (repaired: both operands guarded). `num_nanoseconds()` is
`None` exactly when the duration does not fit an `i64`; that case falls through to `Time::nat()` -/
def timeShift (sgn : Int) (x : Int) (d : TD) : Res Int :=
  if !isNat x && !d.isNat then
    if d.months ≠ 0 then .panic
    else if InI64 d.inner then
      (if InI64 (x + sgn * d.inner) then .ok (x + sgn * d.inner) else .panic)
    else .ok NaT
  else .ok NaT

/-- pinned tree: only the duration was tested -/
def timeShiftPinned (sgn : Int) (x : Int) (d : TD) : Res Int :=
  if !d.isNat then
    if d.months ≠ 0 then .panic
    else if InI64 d.inner then
      (if InI64 (x + sgn * d.inner) then .ok (x + sgn * d.inner) else .panic)
    else .ok NaT
  else .ok NaT

/-- `Add<TimeDelta> for Time` -/
def timeAdd := timeShift 1
/-- `Sub<TimeDelta> for Time` -/
def timeSub := timeShift (-1)

/-- `Time::as_cr`: `secs = self.0 / 1e9` and `nanos = self.0 % 1e9` (Rust `/`, `%`), both cast `as u32`,
then chrono's `from_num_seconds_from_midnight_opt` (which admits a leap-second fraction only in
second 59). Result: (seconds from midnight, nanosecond). -/
def timeAsCr (x : Int) : Option (Int × Int) :=
  let secs := (x.tdiv NANOS_PER_SEC) % 4294967296
  let nanos := (x.tmod NANOS_PER_SEC) % 4294967296
  if secs ≥ 86400 ∨ nanos ≥ 2000000000 ∨ (nanos ≥ 1000000000 ∧ secs % 60 ≠ 59) then none
  else some (secs, nanos)

end Tv.C16
