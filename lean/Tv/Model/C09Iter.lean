/-
  C09 — executable model of the trusted-length iterators (core Lean only).

  An iterator value is modelled denotationally (DESIGN §3 "Iterators"):

    * `items`     — what plain safe iteration from the front yields,
    * `upper f b` — the upper bound of `size_hint()` after `f` successful `next()` calls and
                    `b` successful `next_back()` calls (any interleaving; `f + b ≤ items.length`).

  `upper` is a transcription of the `size_hint` / `next` / `next_back` code of exactly the std
  adaptors the repository composes and declares `TrustedLen` for
  (tea-core/src/vec_core/trusted.rs:20-126): slice / vec / deque / ndarray iterators and ranges
  (`ofList`), `RepeatN`, `Map` / `Cloned` / `Enumerate` (`map`), `Rev`, `Chain`, `Take`, `Skip`,
  `Zip`, `Filter`, `chain(repeat(v)).take(n)` (`padTake`), plus the repository's own
  `TrustIter { iter, len }` (`trust`, and `trustPinned` for the tree before the F13 repair) and
  `Linspace { start, step, index, len }`.

  How a consumption `(f, b)` of an adaptor maps to consumptions of its operands is computed from
  the operands' true item counts (this is what the std code does when the operands' own
  `ExactSizeIterator::len()` is right, which is the induction hypothesis of every theorem).

  On top of the algebra the library constructions are transcribed branch by branch:
  `MapBasic::{abs, shift}` (tea-map/src/lib.rs), `MapValidBasic::{vabs, ffill, bfill, vclip, fill,
  vshift, vcut}` (valid_iter.rs), `MapValidVec::{vdiff, vpct_change, varg_partition, vpartition}`
  (vec_map.rs), `winsorize` (tevec/src/map.rs), `rolling_custom_iter` (view.rs), `linspace` /
  `range` (linspace.rs) and the raw collector `collect_from_trusted` (trusted.rs:254-302).
  A construction returns `Except`: `.error "P"` is a panic (`unwrap` on a missing upper bound,
  arithmetic underflow in the debug profile), `.error "E"` a returned error.
-/
namespace Tv.C09

/-- element type of the series the harness sends: `none` is the canonical null (NaN) -/
abbrev E := Option Rat

structure It (α : Type) where
  items : List α
  upper : Nat → Nat → Option Nat

namespace It

def len (it : It α) : Nat := it.items.length

/-! ### std adaptor algebra -/

/-- `slice::Iter`, `vec::IntoIter`, `vec_deque::Iter`, ndarray `Iter`, `Range<usize>`:
`size_hint` is the exact number of remaining elements -/
def ofList (xs : List α) : It α := ⟨xs, fun f b => some (xs.length - f - b)⟩

/-- `std::iter::repeat_n(v, n)`: `size_hint = (count, Some(count))` -/
def repeatN (v : α) (n : Nat) : It α := ⟨List.replicate n v, fun f b => some (n - f - b)⟩

/-- `Map`, `Cloned`, `Copied`, `Enumerate`: hint of the inner iterator -/
def map (g : α → β) (it : It α) : It β := ⟨it.items.map g, it.upper⟩

/-- `Rev`: swaps the two ends -/
def rev (it : It α) : It α := ⟨it.items.reverse, fun f b => it.upper b f⟩

def optAdd : Option Nat → Option Nat → Option Nat
  | some x, some y => some (x + y)     -- `checked_add`; lengths stay far below `usize::MAX`
  | _, _ => none

/-- `Chain { a: Option<A>, b: Option<B> }`. `next()` takes from `a` and drops (`a = None`) it
once a call finds it empty; `next_back()` does the same with `b`. `size_hint` adds the hints of
the parts that are still present. -/
def chain (a b : It α) : It α where
  items := a.items ++ b.items
  upper f k :=
    let la := a.len
    let lb := b.len
    let ua := a.upper (min f la) (k - lb)
    let ub := b.upper (f - la) (min k lb)
    if f > la then (if k > lb then some 0 else ub)
    else if k > lb then ua
    else optAdd ua ub

/-- `Take { iter, n }`: `next` decrements `n`; the first `next_back` first discards the
`iter.len() - n` surplus items at the back (`nth_back`), `size_hint` is `min(inner, n)`,
or `(0, Some(0))` when `n == 0`. -/
def take (it : It α) (n : Nat) : It α where
  items := it.items.take n
  upper f b :=
    let n' := n - f - b
    if n' = 0 then some 0
    else
      match it.upper f (if b = 0 then 0 else (it.len - n) + b) with
      | some x => if x < n' then some x else some n'
      | none => some n'

/-- `Skip { iter, n }`: the first `next` is `iter.nth(n)` and clears `n`;
`size_hint` is the inner hint `saturating_sub(n)`; `next_back` forwards while `len() > 0`. -/
def skip (it : It α) (n : Nat) : It α where
  items := it.items.drop n
  upper f b :=
    if f = 0 then (it.upper 0 b).map (· - n) else it.upper (n + f) b

def optMin : Option Nat → Option Nat → Option Nat
  | some x, some y => some (min x y)
  | some x, none => some x
  | none, some y => some y
  | none, none => none

/-- `Zip` (followed by a `Map` over the pair): `next` pulls one item from each side, the first
`next_back` trims the longer side to the length of the shorter one; `size_hint` is the minimum. -/
def zipWith (g : α → β → γ) (a : It α) (b : It β) : It γ where
  items := List.zipWith g a.items b.items
  upper f k :=
    let ka := if k = 0 then 0 else (a.len - b.len) + k
    let kb := if k = 0 then 0 else (b.len - a.len) + k
    optMin (a.upper f ka) (b.upper f kb)

/-- number of inner items `Filter::next` pulls to produce `f` matches -/
def pulled (p : α → Bool) : List α → Nat → Nat
  | _, 0 => 0
  | [], _ => 0
  | x :: xs, f + 1 => 1 + (if p x then pulled p xs f else pulled p xs (f + 1))

/-- `Filter` / `FilterMap` (front only): upper bound of the inner iterator -/
def filter (p : α → Bool) (it : It α) : It α where
  items := it.items.filter p
  upper f _ := it.upper (pulled p it.items f) 0

/-- `a.chain(std::iter::repeat(v)).take(n)` (front only). `Repeat::size_hint` is
`(usize::MAX, None)`, so the chain has no upper bound while `repeat` is present and `Take`
answers `Some(n)`, resp. `Some(0)` once `n == 0`. -/
def padTake (a : It α) (v : α) (n : Nat) : It α where
  items := a.items.take n ++ List.replicate (n - a.len) v
  upper f _ := some (n - f)

/-- items of `Scan`: the closure threads a state and ends the iteration with its first `None` -/
def scanItems (g : σ → α → Option (σ × β)) : σ → List α → List β
  | _, [] => []
  | s, x :: xs => match g s x with
    | none => []
    | some (s', y) => y :: scanItems g s' xs

/-- `Scan` (front only): `size_hint = (0, inner upper)`. The pinned tree declares it `TrustedLen`
(trusted.rs:102-107); the repair removes that declaration, so no construction above uses it. -/
def scanPinned (g : σ → α → Option (σ × β)) (s : σ) (it : It α) : It β where
  items := scanItems g s it.items
  upper f _ := it.upper f 0

/-! ### the repository's own iterators -/

/-- `TrustIter { iter, len }` after the F13 repair: `len` is decremented (saturating) for every
item handed out from either end; `size_hint = (len, Some(len))`. -/
def trust (it : It α) (len : Nat) : It α := ⟨it.items, fun f b => some (len - (f + b))⟩

/-- `TrustIter` as pinned: `size_hint` returns the initial `len` for ever (finding F13) -/
def trustPinned (it : It α) (len : Nat) : It α := ⟨it.items, fun _ _ => some len⟩

/-- `Linspace { start, step, index, len }`: `next` increments `index`, `next_back` decrements
`len`, `size_hint` is `len - index` (tea-core/src/linspace.rs) -/
def linspaceIt (val : Nat → α) (n : Nat) : It α :=
  ⟨(List.range n).map val, fun f b => some ((n - b) - f)⟩

/-- one successful `next()` (no effect on an exhausted iterator) -/
def advF (it : It α) : It α :=
  if it.items.isEmpty then it else ⟨it.items.tail, fun f b => it.upper (f + 1) b⟩

/-- one successful `next_back()` -/
def advB (it : It α) : It α :=
  if it.items.isEmpty then it else ⟨it.items.dropLast, fun f b => it.upper f (b + 1)⟩

/-- `TrustedLen::len`: `self.size_hint().1.unwrap()` -/
def hintLen (it : It α) : Except String Nat :=
  match it.upper 0 0 with
  | some n => .ok n
  | none => .error "P"

end It

open It

/-! ### raw collectors (trusted.rs:254-302): allocate `upper`, write every item, `set_len(upper)` -/

inductive Collected (α : Type) where
  | ok (xs : List α)
  /-- `k` items written past the allocation -/
  | overflow (k : Nat)
  /-- `k` slots of the returned container were never written -/
  | uninit (k : Nat)
  /-- `expect("The iterator must have an upper bound")` -/
  | noBound

/-- `collect_from_trusted` applied to the iterator after `f` fronts / `b` backs were consumed -/
def collectAfter (it : It α) (f b : Nat) : Collected α :=
  match it.upper f b with
  | none => .noBound
  | some cap =>
    let rest := (it.items.drop f).take (it.len - f - b)
    if rest.length = cap then .ok rest
    else if rest.length > cap then .overflow (rest.length - cap)
    else .uninit (cap - rest.length)

def collectTrusted (it : It α) : Collected α := collectAfter it 0 0

/-! ### tea-map/src/lib.rs — `MapBasic` -/

/-- `abs`: `self.map(|v| v.abs())` -/
def abs (g : α → α) (src : It α) : It α := map g src

/-- shared body of `MapBasic::shift` (after the F12 repair) and `MapValidBasic::vshift` -/
def shiftCore (n : Int) (v : α) (src : It α) : Except String (It α) := do
  let len ← src.hintLen
  let nabs := n.natAbs
  if len ≤ nabs then return repeatN v len
  if n > 0 then return trust (chain (repeatN v nabs) (take src (len - nabs))) len
  else if n < 0 then return trust (chain (skip src nabs) (repeatN v nabs)) len
  else return src

/-- `MapBasic::shift(n, value)` (repaired: guard `len <= n_abs` as in `vshift`) -/
def shift (n : Int) (v : α) (src : It α) : Except String (It α) := shiftCore n v src

/-- `MapBasic::shift` as pinned: no guard, `TrustIter` does not count down (F12, F13).
`len - n_abs` panics in the debug profile when `n_abs > len`. -/
def shiftPinned (n : Int) (v : α) (src : It α) : Except String (It α) := do
  let len ← src.hintLen
  let nabs := n.natAbs
  if n > 0 then
    if nabs > len then throw "P"
    else return trustPinned (chain (repeatN v nabs) (take src (len - nabs))) len
  else if n < 0 then return trustPinned (chain (skip src nabs) (repeatN v nabs)) len
  else return src

/-! ### tea-map/src/valid_iter.rs — `MapValidBasic` -/

/-- `vabs`, `ffill_mask`, `ffill`, `fill_mask`, `fill`: `self.map(closure)`. The closures of the
fills are stateful (`last_valid`); for the item *count* only the `Map` matters, the values are
the business of C13. `g` is the per-item function for a stateless reading. -/
def mapLike (g : α → α) (src : It α) : It α := map g src

/-- forward fill: stateful closure threaded through the items (values as in the code) -/
def ffillItems (value : Option (Option β)) : Option (Option β) → List (Option β) → List (Option β)
  | _, [] => []
  | last, x :: xs =>
    match x with
    | none =>
      (match last with
       | some lv => lv
       | none => (match value with | some v => v | none => none)) :: ffillItems value last xs
    | some _ => x :: ffillItems value (some x) xs

def ffill (value : Option (Option β)) (src : It (Option β)) : It (Option β) :=
  ⟨ffillItems value none src.items, src.upper⟩

/-- `bfill_mask`: `self.rev().map(f).collect_trusted_to_vec().into_iter().rev()` — the raw
collector runs at construction time -/
def bfill (value : Option (Option β)) (src : It (Option β)) : Except String (It (Option β)) :=
  match collectTrusted (ffill value (rev src)) with
  | .ok xs => .ok (rev (ofList xs))
  | .noBound => .error "P"
  | _ => .error "UB"

/-- `vclip(lower, upper)`: three `Box::new(self.map(..))` branches and `Box::new(self)` -/
def vclip (lower upper : Option Rat) (src : It E) : It E :=
  match lower, upper with
  | some lo, some hi => map (fun v => match v with
      | some x => if x < lo then some lo else if x > hi then some hi else some x
      | none => none) src
  | some lo, none => map (fun v => match v with
      | some x => if x < lo then some lo else some x
      | none => none) src
  | none, some hi => map (fun v => match v with
      | some x => if x > hi then some hi else some x
      | none => none) src
  | none, none => src

/-- `vshift(n, value)`: `value.unwrap_or_else(T::none)`, then the guarded shift -/
def vshift (n : Int) (value : Option E) (src : It E) : Except String (It E) :=
  shiftCore n (value.getD none) src

/-- `vcut(bins, labels, right, add_bounds)`: label-count check, then `self.map(..)`.
Items are `TResult<T2>`: `none` stands for `Err("value not in bins")` or a null label. -/
def vcut (bins labels : List Rat) (right addBounds : Bool) (src : It E) : Except String (It E) :=
  if addBounds then
    if labels.length ≠ bins.length + 1 then .error "E"
    else .ok (map (fun v => v.bind fun x =>
      let bs := bins
      -- first bin (lo, hi] / [lo, hi) containing x; the outer bins are unbounded
      let los : List (Option Rat) := none :: bs.map some
      let his : List (Option Rat) := bs.map some ++ [none]
      ((los.zip his).zip labels).findSome? fun ((lo, hi), l) =>
        let okLo : Bool := match lo with | none => true | some a => if right then decide (a < x) else decide (a ≤ x)
        let okHi : Bool := match hi with | none => true | some b => if right then decide (x ≤ b) else decide (x < b)
        if okLo && okHi then some l else none) src)
  else
    if labels.length + 1 ≠ bins.length then .error "E"
    else .ok (map (fun v => v.bind fun x =>
      ((bins.zip (bins.drop 1)).zip labels).findSome? fun ((a, b), l) =>
        if (if right then a < x ∧ x ≤ b else a ≤ x ∧ x < b) then some l else none) src)

/-! ### tea-map/src/vec_map.rs — `MapValidVec` (methods of a container `xs`) -/

def subE (b a : E) : E := match b, a with | some y, some x => some (y - x) | _, _ => none

/-- `vdiff(n, value)` -/
def vdiff (n : Int) (value : Option E) (xs : List E) : It E :=
  let len := xs.length
  let nabs := n.natAbs
  let value := value.getD none
  if len ≤ nabs then repeatN value len
  else if n > 0 then
    -- repaired (F16): the fill value pads the first `n` slots, the differences follow
    trust (chain (repeatN value nabs)
            (zipWith (fun a b => subE b a) (take (ofList xs) (len - nabs)) (skip (ofList xs) nabs))) len
  else
    -- `n <= 0` (repaired, F17: a zero lag is `x[i] - x[i]`)
    trust (chain (zipWith (fun a b => subE b a) (skip (ofList xs) nabs) (ofList xs)) (repeatN value nabs)) len

def pctE (a b : E) : E :=
  match a, b with
  | some x, some y => if x = 0 then none else some (y / x - 1)
  | _, _ => none

/-- `vpct_change(n)` -/
def vpctChange (n : Int) (xs : List E) : It E :=
  let len := xs.length
  let nabs := n.natAbs
  if len ≤ nabs then repeatN none len
  else if n > 0 then
    trust (zipWith pctE (chain (repeatN none nabs) (map id (take (ofList xs) (len - nabs)))) (ofList xs)) len
  else
    -- `n <= 0` (repaired, F17)
    trust (chain (zipWith pctE (skip (ofList xs) nabs) (ofList xs)) (repeatN none nabs)) len

def countValid (xs : List E) : Nat := (xs.filter Option.isSome).length

/-- null-last ascending / descending order of `sort_cmp` / `sort_cmp_rev` -/
def leE (rev : Bool) (a b : E) : Bool :=
  match a, b with
  | none, none => true
  | none, some _ => false
  | some _, none => true
  | some x, some y => if rev then y ≤ x else x ≤ y

/-- `varg_partition(kth, sort, rev)`; items are indices, `-1` pads -/
def vargPartition (kth : Nat) (sort rev : Bool) (xs : List E) : It Int :=
  let n := countValid xs
  let idx : List (Int × E) := (List.range xs.length).map (fun i => (Int.ofNat i, xs.getD i none))
  if n ≤ kth + 1 then
    if !sort then
      trust (padTake (map (·.1) (filter (·.2.isSome) (ofList idx))) (-1) (kth + 1)) (kth + 1)
    else
      let sorted := idx.mergeSort (fun a b => leE rev a.2 b.2)
      trust (padTake (take (ofList (sorted.map (·.1))) n) (-1) (kth + 1)) (kth + 1)
  else
    -- `select_nth_unstable_by(kth)`, `truncate(kth + 1)`, optional sort, `into_iter().to_trust(kth + 1)`
    let sorted := idx.mergeSort (fun a b => leE rev a.2 b.2)
    trust (ofList ((sorted.take (kth + 1)).map (·.1))) (kth + 1)

/-- `vpartition(kth, sort, rev)` -/
def vpartition (kth : Nat) (sort rev : Bool) (xs : List E) : It E :=
  let n := countValid xs
  if n = kth + 1 ∧ !sort then
    trust (filter Option.isSome (ofList xs)) (kth + 1)
  else if n ≤ kth + 1 then
    if !sort then
      trust (padTake (filter Option.isSome (ofList xs)) none (kth + 1)) (kth + 1)
    else
      -- repaired (F19): `vec.into_iter().chain(repeat_with(T::none)).take(kth + 1).to_trust(kth + 1)`
      trust (padTake (ofList (xs.mergeSort (leE rev))) none (kth + 1)) (kth + 1)
  else
    trust (ofList ((xs.mergeSort (leE rev)).take (kth + 1))) (kth + 1)

/-! ### tevec/src/map.rs — `winsorize`: every branch is `iter_cast::<f64>()` (a `Map`) optionally
followed by `vclip(min, max)`; the bounds come from `vquantile` / `vmedian` / `vmean_var`
(properties C11/C12) and are parameters here. -/
def winsorize (bounds : Option (Option Rat × Option Rat)) (xs : List E) : It E :=
  match bounds with
  | some (lo, hi) => vclip lo hi (map id (ofList xs))
  | none => map id (ofList xs)

/-! ### tea-core/src/vec_core/cores/view.rs — `rolling_custom_iter(window, f)`:
`(1..len+1).zip(repeat_n(0, window-1).chain(0..len)).map(|(end,start)| f(slice(start,end))).to_trust(len)` -/
def rollingCustomIter (w : Nat) (g : List α → β) (xs : List α) : Except String (It β) :=
  if w = 0 then .error "P"   -- `window - 1` underflows
  else
    let len := xs.length
    .ok (trust (zipWith (fun e s => g ((xs.take e).drop s))
          (ofList ((List.range len).map (· + 1)))
          (chain (repeatN 0 (w - 1)) (ofList (List.range len)))) len)

/-! ### tea-core/src/linspace.rs -/

/-- `linspace(a, b, n)` -/
def linspace (a b : Rat) (n : Nat) : It Rat :=
  let step : Rat := if n > 1 then (b - a) / ((n - 1 : Nat) : Rat) else 0
  linspaceIt (fun i => a + step * (i : Rat)) n

/-- `range(a, b, step)` on floats: `len = ((b - a) / step).ceil() as usize` (saturating cast);
`step = 0` is excluded by the callers of the model -/
def range (a b step : Rat) : It Rat :=
  linspaceIt (fun i => a + step * (i : Rat)) (((b - a) / step).ceil).toNat

/-! ### pipelines: a double-ended source, double-ended adaptors, then library adaptors -/

inductive Src where
  /-- `xs.titer()` of any backend (`Cloned<slice::Iter>`, deque / ndarray iterators) -/
  | titer (xs : List E)
  /-- `xs.titer().chain(ys.titer())` -/
  | chain (xs ys : List E)
  /-- `xs.titer().zip(ys.titer()).map(|(a, b)| a + b)` -/
  | zip (xs ys : List E)
  /-- `Vec1Create::linspace(Some(0.), 1., n)` — the `Linspace` iterator is private to tea-core and
  is only ever handed to the raw collector; the harness sees the collected vector -/
  | linspace (n : Nat)
  /-- `Vec1Create::range(Some(a), b, Some(s))` -/
  | range (a b s : Int)
  | repeatN (n : Nat)

inductive DeOp where
  | rev | map
  /-- `.to_trust(len)` with the true remaining length (API contract, DESIGN 5.6) -/
  | trust
  | next | nextBack

inductive Op where
  | abs | vabs
  /-- `.enumerate().map(|(_, x)| x)` -/
  | enumerate
  | ffill (v : Option E)
  | bfill (v : Option E)
  | fill (v : E)
  | vclip (lo hi : E)
  | shift (n : Int) (v : E)
  | vshift (n : Int) (v : Option E)
  | vcut (bins labels : List Rat) (right addBounds : Bool)
  /-- std `Take` (declared `TrustedLen` by the repository) -/
  | take (k : Nat)
  /-- one `next()` on the boxed iterator before it is handed on -/
  | next
  | chainWith (ys : List E)
  | zipWith (ys : List E)
  /-- container methods: the current iterator is first collected with the *safe* `collect()` -/
  | vdiff (n : Int) (v : Option E)
  | vpct (n : Int)
  | vargPart (k : Nat) (sort rev : Bool)
  | vpart (k : Nat) (sort rev : Bool)
  | winsorize (bounds : Option (E × E))
  | rolling (w : Nat)

def addE (a b : E) : E := match a, b with | some x, some y => some (x + y) | _, _ => none
def absE (a : E) : E := a.map fun x => if x < 0 then -x else x

def Src.eval : Src → It E
  | .titer xs => ofList xs
  | .chain xs ys => It.chain (ofList xs) (ofList ys)
  | .zip xs ys => It.zipWith addE (ofList xs) (ofList ys)
  | .linspace n => map some (C09.linspace 0 1 n)
  | .range a b s => map some (C09.range a b s)
  | .repeatN n => It.repeatN (some 1) n

def DeOp.eval (it : It E) : DeOp → It E
  | .rev => It.rev it
  | .map => It.map id it
  | .trust => It.trust it it.len
  | .next => advF it
  | .nextBack => advB it

def Op.eval (it : It E) : Op → Except String (It E)
  | .abs => .ok (C09.abs absE it)
  | .vabs => .ok (mapLike absE it)
  | .enumerate => .ok (map id (map id it))
  | .ffill v => .ok (C09.ffill v it)
  | .bfill v => C09.bfill v it
  | .fill v => .ok (mapLike (fun x => if x.isNone then v else x) it)
  | .vclip lo hi => .ok (C09.vclip lo hi it)
  | .shift n v => C09.shift n v it
  | .vshift n v => C09.vshift n v it
  | .vcut bins labels right ab => C09.vcut bins labels right ab it
  | .take k => .ok (It.take it k)
  | .next => .ok (advF it)
  | .chainWith ys => .ok (It.chain it (ofList ys))
  | .zipWith ys => .ok (It.zipWith addE it (ofList ys))
  | .vdiff n v => .ok (C09.vdiff n v it.items)
  | .vpct n => .ok (vpctChange n it.items)
  | .vargPart k s r => .ok (map (fun (i : Int) => some (i : Rat)) (vargPartition k s r it.items))
  | .vpart k s r => .ok (vpartition k s r it.items)
  | .winsorize bounds => .ok (C09.winsorize bounds it.items)
  | .rolling w => rollingCustomIter w (fun l => some (l.length : Rat)) it.items

def evalOps (it : It E) : List Op → Except String (It E)
  | [] => .ok it
  | o :: os => match o.eval it with
    | .ok it' => evalOps it' os
    | .error e => .error e

structure Pipe where
  src : Src
  de : List DeOp
  ops : List Op

def Pipe.source (p : Pipe) : It E := p.de.foldl DeOp.eval p.src.eval

def Pipe.eval (p : Pipe) : Except String (It E) := evalOps p.source p.ops

end Tv.C09
