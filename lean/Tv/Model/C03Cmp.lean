import Tv.Model.Basic
/-!
  Model of tea-rolling/src/cmp.rs (`ts_vmin`, `ts_vmax`, `ts_vargmin`, `ts_vargmax`,
  `ts_vrank`), transcribed from the code as written (after the `fix:` commit for F24, see
  `Proj.arg` / `Proj.argPinned`).

  All five closures are index based: they are driven by `rolling_apply_idx` (callback
  arguments `(start?, end, value)`, model `idxCalls`) and read the series through
  `self.uget(i)`, modelled by `get xs i`.

  The four extrema closures repeat one piece of code that differs only in the comparator
  (`sort_cmp` / `sort_cmp_rev`, tea-dtype/src/isnone.rs:223-288) and in what is returned
  (the cached extreme / the 1-based offset of its index from the window start); the model is
  that piece of code once, instantiated four times.

  Empty input is outside C03 (`len >= 1`): on an empty series the real `ts_vrank` underflows
  `window - 1` and the default driver body asserts `window > 0` (findings F1/F2, owned by
  C05/C10); this model returns `[]` there.
-/
namespace Tv.C03
open Tv

/-- `self.uget(i).to_opt()` (the unchecked read; bounds are the subject of C10) -/
def get (xs : List (Option Rat)) (i : Nat) : Option Rat := (xs[i]?).getD none

/-- `a.sort_cmp(&b) ∈ {Less, Equal}`: ascending, null last (isnone.rs:223-239) -/
def leNL : Option Rat → Option Rat → Bool
  | some x, some y => decide (x ≤ y)
  | none, none => true
  | none, some _ => false
  | some _, none => true

/-- `a.sort_cmp_rev(&b) ∈ {Less, Equal}`: descending, null last (isnone.rs:268-288) -/
def geNL : Option Rat → Option Rat → Bool
  | some x, some y => decide (y ≤ x)
  | none, none => true
  | none, some _ => false
  | some _, none => true

/-- Rust's derived `<` on `Option<usize>` (`None < Some(_)`) -/
def ltON : Option Nat → Option Nat → Bool
  | none, some _ => true
  | some a, some b => decide (a < b)
  | _, _ => false

/-- the cached extreme and its index: `(min, min_idx)` resp. `(max, max_idx)` -/
abbrev ExtSt := Option Rat × Option Nat

/-- `match v.sort_cmp(&min) { Less | Equal => (min, min_idx) = (v, Some(i)), _ => {} }` -/
def updV (le : Option Rat → Option Rat → Bool) (st : ExtSt) (v : Option Rat) (i : Nat) : ExtSt :=
  if le v st.1 then (v, some i) else st

def upd (le : Option Rat → Option Rat → Bool) (g : Nat → Option Rat) (st : ExtSt) (i : Nat) : ExtSt :=
  updV le st (g i) i

/-- the rescan loop (cmp.rs:50-60): `min = uget(start); for i in start..=end { if uget(i) <= min {..} }` -/
def rescan (le : Option Rat → Option Rat → Bool) (g : Nat → Option Rat) (st : ExtSt)
    (start e : Nat) : ExtSt :=
  (List.range' start (e + 1 - start)).foldl (upd le g) (g start, st.2)

/-- the `(min, min_idx)` part of one closure call (cmp.rs:41-68) -/
def extStep (le : Option Rat → Option Rat → Bool) (g : Nat → Option Rat) (st : ExtSt)
    (start : Option Nat) (e : Nat) (v : Option Rat) : ExtSt :=
  let st : ExtSt := if v.isSome && st.2.isNone then (v, some e) else st
  if ltON st.2 start then
    match start with
    | some s => rescan le g st s e
    | none => st            -- unreachable: `x < None` is never true
  else updV le st v e

/-- closure state of the four extrema functions -/
structure CmpSt where
  ext : Option Rat
  idx : Option Nat
  n : Nat
deriving DecidableEq, Repr

/-- what an entry point returns from the cached pair -/
inductive Proj where
  | val        -- `ts_vmin` / `ts_vmax`: `min.cast()`
  | arg        -- `ts_vargmin` / `ts_vargmax` (repaired): `min.and(min_idx).map(|k| k - start.unwrap_or(0) + 1)`
  | argPinned  -- the pinned tree: `min_idx.map(..)` (an all-null window yields an offset, finding F24)
deriving DecidableEq, Repr

def optOut : Option Rat → Out
  | some q => .val q
  | none => .null

def offsetOut (start : Option Nat) : Option Nat → Out
  | some k => .val (((k - start.getD 0 + 1 : Nat) : Rat))
  | none => .null

def Proj.out (p : Proj) (m : ExtSt) (start : Option Nat) : Out :=
  match p with
  | .val => optOut m.1
  | .arg => offsetOut start (m.1.bind fun _ => m.2)
  | .argPinned => offsetOut start m.2

/-- one call of the closure: count, maintain the cached extreme, emit, forget the expiring
element (cmp.rs:38-81 and its three copies) -/
def cmpStep (le : Option Rat → Option Rat → Bool) (pj : Proj) (g : Nat → Option Rat) (mp : Nat)
    (st : CmpSt) (c : Option Nat × Nat × Option Rat) : CmpSt × Out :=
  let start := c.1
  let e := c.2.1
  let v := c.2.2
  let n1 := if v.isSome then st.n + 1 else st.n
  let m := extStep le g (st.ext, st.idx) start e v
  let out := if n1 ≥ mp then pj.out m start else .null
  let n2 := match start with
    | some s => if (g s).isSome then n1 - 1 else n1
    | none => n1
  (⟨m.1, m.2, n2⟩, out)

/-- `let window = min(self.len(), window); let min_periods = min_periods.unwrap_or(window / 2);`
(no clamp of an explicit `min_periods`, DESIGN 5.3) -/
def cmpMp (mp : Option Nat) (w len : Nat) : Nat := mp.getD (min len w / 2)

def tsCmp (le : Option Rat → Option Rat → Bool) (pj : Proj) (sh : Shape)
    (xs : List (Option Rat)) (w : Nat) (mp : Option Nat) : List Out :=
  runSt (cmpStep le pj (get xs) (cmpMp mp w xs.length)) ⟨none, none, 0⟩
    (idxCalls sh xs (min xs.length w))

def tsVmin := tsCmp leNL .val
def tsVmax := tsCmp geNL .val
def tsVargmin := tsCmp leNL .arg
def tsVargmax := tsCmp geNL .arg
/-- the pinned (pre-repair) arg functions, kept for the negation witnesses -/
def tsVargminPinned := tsCmp leNL .argPinned
def tsVargmaxPinned := tsCmp geNL .argPinned

/-! ### `ts_vrank` (cmp.rs:327-387): O(w) recount at every position -/

/-- body of the counting loop: `if a.not_none() { if a < v { rank += 1. } else if a == v { n_repeat += 1 } }` -/
def rankAcc (g : Nat → Option Rat) (v : Rat) (acc : Nat × Nat) (i : Nat) : Nat × Nat :=
  match g i with
  | some a => if a < v then (acc.1 + 1, acc.2) else if a = v then (acc.1, acc.2 + 1) else acc
  | none => acc

/-- the counting loop `for i in start.unwrap_or(0)..end`: (number of valid `a < v`, number of valid `a == v`) -/
def rankCount (g : Nat → Option Rat) (lo e : Nat) (v : Rat) : Nat × Nat :=
  (List.range' lo (e - lo)).foldl (rankAcc g v) (0, 0)

/-- one call: `rank = 1 + #less`, `n_repeat = 1 + #equal`; state = valid count `n` -/
def rankStep (g : Nat → Option Rat) (mp w_m1 : Nat) (pct rev : Bool)
    (n : Nat) (c : Option Nat × Nat × Option Rat) : Nat × Out :=
  let start := c.1
  let e := c.2.1
  let v := c.2.2
  let n1 := if v.isSome then n + 1 else n
  let out : Out :=
    match v with
    | none => .null                       -- `rank = NaN` propagates through every branch
    | some x =>
      if n1 ≥ mp then
        let cnt := rankCount g (start.getD 0) e x
        let rank : Rat := 1 + (cnt.1 : Rat)
        let nRepeat : Nat := 1 + cnt.2
        let half : Rat := (1 / 2) * ((nRepeat - 1 : Nat) : Rat)
        let res : Rat := if !rev then rank + half else ((n1 + 1 : Nat) : Rat) - rank - half
        if pct then .val (res / (n1 : Rat)) else .val res
      else .null
  -- `if end >= w_m1 && self.uget(start.unwrap()).not_none() { n -= 1 }`; `start` is `Some`
  -- exactly when `end >= w_m1` (theorem `vrank_unwrap_safe`), so the `none` arm is unreachable
  let n2 := if e ≥ w_m1 then
      (match start with
       | some s => if (g s).isSome then n1 - 1 else n1
       | none => n1)
    else n1
  (n2, out)

def tsVrank (sh : Shape) (xs : List (Option Rat)) (w : Nat) (mp : Option Nat)
    (pct rev : Bool) : List Out :=
  let w' := min xs.length w
  runSt (rankStep (get xs) (cmpMp mp w xs.length) (w' - 1) pct rev) 0 (idxCalls sh xs w')

end Tv.C03
