import Tv.Model.C15Val
/-!
  C15 — model of `tea-dtype/src/isnone.rs`: every `IsNone` instance as *data* (`NullRepr`),
  transcribed method by method (the overrides are kept separate from the default bodies:
  `not_none`, `as_opt`, `unwrap`, `map` are all written again by most instances), plus the
  provided methods `from_opt`, `map`, `vabs`, `sort_cmp`, `sort_cmp_rev` and `IntoCast`.
-/
namespace Tv.C15

/-- one `impl IsNone for Self` with `Inner = ι` -/
structure NullRepr (α ι : Type) where
  /-- `is_none` -/
  isNone : α → Bool
  /-- `not_none` as written by the instance (`self == self`, `is_some()`, `true`, or the default `!is_none`) -/
  notNone : α → Bool
  /-- `to_opt` -/
  toOpt : α → Option ι
  /-- `as_opt` (borrowed) -/
  asOpt : α → Option ι
  /-- `none()`; `panic` for the `impl_not_none!` types -/
  noneV : Res α
  /-- `from_inner` -/
  fromInner : ι → α
  /-- `unwrap` as written (`self` for the plain types, `to_opt().unwrap()` for `Option`) -/
  unwrap : α → Res ι
  /-- the value `map` hands to its closure (`none`: the closure is not called) -/
  mapArg : α → Option ι

namespace NullRepr

/-- provided method `from_opt`: `opt.map_or_else(Self::none, Self::from_inner)` -/
def fromOpt (R : NullRepr α ι) : Option ι → Res α
  | .none => R.noneV
  | .some v => .ok (R.fromInner v)

/-- `map::<F, U>`: the plain instances call `U::from_inner(f(self))` unconditionally, `Option`
maps and falls back to `U::none()`; `f` may panic (`abs`) -/
def map (R : NullRepr α ι) (S : NullRepr β κ) (f : ι → Res κ) (x : α) : Res β :=
  match R.mapArg x with
  | .some v => (f v).map S.fromInner
  | .none => S.noneV

/-- `vabs`: `self.map(|v| v.abs())` into `Self` -/
def vabs (R : NullRepr α ι) (abs : ι → Res ι) (x : α) : Res α := R.map R abs x

end NullRepr

/-! ### the instances -/

def isNanV : Val → Bool
  | .flt .nan => true
  | _ => false

/-- `impl IsNone for f32 / f64` -/
def floatRepr : NullRepr Val Val where
  isNone := isNanV                          -- `self != self`
  notNone := fun x => !isNanV x             -- `self == self`
  toOpt := fun x => if isNanV x then none else some x
  asOpt := fun x => if isNanV x then none else some x
  noneV := .ok (.flt .nan)
  fromInner := id
  unwrap := .ok
  mapArg := some

/-- `impl_not_none!(bool, u8, i32, i64, isize, u64, usize)` -/
def neverRepr : NullRepr Val Val where
  isNone := fun _ => false
  notNone := fun _ => true
  toOpt := some
  asOpt := some
  noneV := .panic                            -- `panic!("Cannot call none() on a non-float type")`
  fromInner := id
  unwrap := .ok
  mapArg := some

def isNoneStr : Val → Bool
  | .str s => s == "None"
  | _ => false

/-- `impl IsNone for String` and `for &str` -/
def strRepr : NullRepr Val Val where
  isNone := isNoneStr
  notNone := fun x => !isNoneStr x          -- default body
  toOpt := fun x => if isNoneStr x then none else some x
  asOpt := fun x => if isNoneStr x then none else some x
  noneV := .ok (.str "None")
  fromInner := id
  unwrap := .ok
  mapArg := some

/-- `is_nat` of `DateTime<U>` / `Time` (`self.0 == i64::MIN`) and of `TimeDelta` (`months == i32::MIN`) -/
def isNatV : Val → Bool
  | .int i => i == i64Min
  | .td m _ => m == i32Min
  | _ => false

/-- `impl IsNone for DateTime<U>`, `for Time` -/
def timeRepr : NullRepr Val Val where
  isNone := isNatV
  notNone := fun x => !isNatV x
  toOpt := fun x => if isNatV x then none else some x
  asOpt := fun x => if isNatV x then none else some x
  noneV := .ok (.int i64Min)
  fromInner := id
  unwrap := .ok
  mapArg := some

/-- `impl IsNone for TimeDelta` (`nat()` = `{ months: i32::MIN, inner: 0 }`) -/
def tdRepr : NullRepr Val Val := { timeRepr with noneV := .ok (.td i32Min 0) }

/-- `impl<T: IsNone<Inner = T>> IsNone for Option<T>` over the instance `R` of `T` -/
def optionRepr (R : NullRepr ι ι) : NullRepr (Option ι) ι where
  isNone := Option.isNone
  notNone := Option.isSome
  toOpt := id
  asOpt := id
  noneV := .ok none
  fromInner := fun v => if R.isNone v then none else some v
  unwrap := fun x => match x with | some v => .ok v | none => .panic   -- default `to_opt().unwrap()`
  mapArg := id

/-- the instance of a base type -/
def reprOf (b : Base) : NullRepr Val Val :=
  match b with
  | .f32 | .f64 => floatRepr
  | .str | .sref => strRepr
  | .dt | .time => timeRepr
  | .td => tdRepr
  | _ => neverRepr

/-! ### `IntoCast::into_cast::<T>()` = `T::inner_cast(self)`

`inner_cast` of a plain `T` is `Cast::<U>::cast(inner)` on `inner : U`, i.e. the identity impl;
of `Option<T>` it is `if inner.is_none() { None } else { Some(inner) }`. -/
def intoCastPlain (x : ι) : ι := x

def intoCastOpt (R : NullRepr ι ι) (x : ι) : Option ι := if R.isNone x then none else some x

/-! ### `sort_cmp` / `sort_cmp_rev` -/

/-- default body of `sort_cmp`; `pcmp` is `Inner::partial_cmp`, `innerNone` is `Inner::is_none` -/
def sortCmp (R : NullRepr α ι) (innerNone : ι → Bool) (pcmp : ι → ι → Option Ordering) (a b : α) : Ordering :=
  match R.asOpt a, R.asOpt b with
  | some va, some vb =>
    match pcmp va vb with
    | some o => o
    | none => if innerNone va then .gt else .lt
  | none, none => .eq
  | none, _ => .gt
  | _, none => .lt

/-- default body of `sort_cmp_rev` -/
def sortCmpRev (R : NullRepr α ι) (innerNone : ι → Bool) (pcmp : ι → ι → Option Ordering) (a b : α) : Ordering :=
  match R.asOpt a, R.asOpt b with
  | some va, some vb =>
    (match pcmp va vb with
     | some o => o
     | none => if innerNone va then .lt else .gt).swap
  | none, none => .eq
  | none, _ => .gt
  | _, none => .lt

/-- the `impl_not_none!` override of `sort_cmp`: `self.partial_cmp(&other).unwrap()` -/
def sortCmpNotNone (pcmp : α → α → Option Ordering) (a b : α) : Res Ordering :=
  match pcmp a b with
  | some o => .ok o
  | none => .panic

end Tv.C15
