import Tv.Model.C03Cmp
/-!
  Model of tea-rolling/src/norm.rs (`ts_vzscore`, `ts_vminmaxnorm`), transcribed from the
  code as written.

  * `ts_vzscore` is an add → emit → remove closure over `rolling_apply` (power sums `n`, `sum`,
    `sum2`); its result also reads the element just added, which the model keeps in the state.
  * `ts_vminmaxnorm` is index based (`rolling_apply_idx`): cached `max`/`max_idx` and
    `min`/`min_idx`, re-searched independently when their index has left the window
    (4-way match), the search running over `start..end` and the end element being folded
    in afterwards. The initial / reset values `T::Inner::min_()` and `T::Inner::max_()`
    (`T::MIN`, `T::MAX`) are modelled by `none` ("sentinel": `v >= sentinel` and
    `v <= sentinel` hold for every `v`); inputs stay away from the type extremes (DESIGN 5.2).
-/
namespace Tv.C03
open Tv

/-- `EPS` of tea-core/src/prelude.rs (tied to the source by `Generated.epsNum/epsDen`) -/
def EPS : Rat := 1 / 100000000000000

/-- `min_periods.unwrap_or(window / 2).min(window)` with the *requested* window -/
def normMp (mp : Option Nat) (w : Nat) : Nat := min (mp.getD (w / 2)) w

def sgn (q : Rat) : Int := if q < 0 then -1 else if q = 0 then 0 else 1

/-! ### `ts_vzscore` (norm.rs:23-73) -/

structure ZSt where
  n : Nat
  sum : Rat
  sum2 : Rat
  last : Option Rat      -- the `v` of the current call (read by the emit part)
deriving DecidableEq, Repr

def ZSt.add (s : ZSt) : Option Rat → ZSt
  | none => { s with last := none }
  | some v => ⟨s.n + 1, s.sum + v, s.sum2 + v * v, some v⟩

def ZSt.remove (s : ZSt) : Option Rat → ZSt
  | none => s
  | some v => ⟨s.n - 1, s.sum - v, s.sum2 - v * v, s.last⟩

/-- `(v - mean) / (var * n / (n - 1)).sqrt()` written as `sign(v-mean) * sqrt((v-mean)^2 / (var n/(n-1)))` -/
def zEmit (mp : Nat) (s : ZSt) : Out :=
  match s.last with
  | none => .null
  | some v =>
    if s.n ≥ mp then
      let n : Rat := s.n
      let mean := s.sum / n
      let var := s.sum2 / n - mean * mean
      if var > EPS then
        (if n - 1 = 0 then .degen
         else .root (sgn (v - mean)) ((v - mean) * (v - mean) / (var * n / (n - 1))))
      else .null
    else .null

def zRoll (mp : Nat) : Roll ZSt (Option Rat) Out :=
  { init := ⟨0, 0, 0, none⟩, add := ZSt.add, emit := zEmit mp, remove := ZSt.remove }

def tsVzscore (sh : Shape) (xs : List (Option Rat)) (w : Nat) (mp : Option Nat) : List Out :=
  (zRoll (normMp mp w)).run ⟨0, 0, 0, none⟩ (applyCalls sh xs w)

/-! ### `ts_vminmaxnorm` (norm.rs:93-187) -/

/-- cached extreme with sentinel: `(max, max_idx)`; `none` = `T::MIN` resp. `T::MAX` -/
abbrev SentSt := Option Rat × Nat

/-- `v >= max` resp. `v <= min` against a possibly-sentinel bound -/
def geS (v : Rat) : Option Rat → Bool
  | none => true
  | some m => decide (m ≤ v)
def leS (v : Rat) : Option Rat → Bool
  | none => true
  | some m => decide (v ≤ m)

/-- `if v.not_none() { if v >= max { (max, max_idx) = (v, i) } }` -/
def sUpd (cmp : Rat → Option Rat → Bool) (st : SentSt) (v : Option Rat) (i : Nat) : SentSt :=
  match v with
  | some x => if cmp x st.1 then (some x, i) else st
  | none => st

/-- `max = T::min_(); for i in start..end { .. }` -/
def sRescan (cmp : Rat → Option Rat → Bool) (g : Nat → Option Rat) (st : SentSt)
    (start e : Nat) : SentSt :=
  (List.range' start (e - start)).foldl (fun st i => sUpd cmp st (g i) i) (none, st.2)

structure MMSt where
  mx : SentSt
  mn : SentSt
  n : Nat
deriving DecidableEq, Repr

def mmStep (g : Nat → Option Rat) (mp : Nat) (st : MMSt)
    (c : Option Nat × Nat × Option Rat) : MMSt × Out :=
  let start := c.1
  let e := c.2.1
  let v := c.2.2
  -- the 4-way expiry match; the `(true, true)` arm runs both searches in one loop, which is
  -- the same as running them one after the other (they touch disjoint variables)
  let (mx, mn) : SentSt × SentSt :=
    match start with
    | some s =>
      match decide (st.mx.2 < s), decide (st.mn.2 < s) with
      | true, false => (sRescan geS g st.mx s e, st.mn)
      | false, true => (st.mx, sRescan leS g st.mn s e)
      | true, true => (sRescan geS g st.mx s e, sRescan leS g st.mn s e)
      | false, false => (st.mx, st.mn)
    | none => (st.mx, st.mn)
  -- the end element
  let n1 := if v.isSome then st.n + 1 else st.n
  let mx := sUpd geS mx v e
  let mn := sUpd leS mn v e
  let out : Out :=
    match v, mx.1, mn.1 with
    | some x, some hi, some lo =>
      if n1 ≥ mp ∧ hi ≠ lo then .val ((x - lo) / (hi - lo)) else .null
    | _, _, _ => .null     -- `v` null; (a valid `v` always leaves both caches non-sentinel)
  let n2 := match start with
    | some s => if (g s).isSome then n1 - 1 else n1
    | none => n1
  (⟨mx, mn, n2⟩, out)

def tsVminmaxnorm (sh : Shape) (xs : List (Option Rat)) (w : Nat) (mp : Option Nat) : List Out :=
  runSt (mmStep (get xs) (normMp mp w)) ⟨(none, 0), (none, 0), 0⟩ (idxCalls sh xs w)

end Tv.C03
