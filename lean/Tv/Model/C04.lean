import Tv.Model.Basic
import Tv.Model.Features
/-!
  Model of tea-rolling/src/binary.rs (`ts_vcov`, `ts_vcorr`) and tea-rolling/src/reg.rs
  (`ts_vreg`, `ts_vtsf`, `ts_vreg_slope`, `ts_vreg_intercept`, `ts_vreg_resid_mean`,
  `ts_vregx_alpha`, `ts_vregx_beta`, `ts_vregx_resid_mean/std/skew`, `ts_vregx_all`) and of the
  three aggregate helpers of tea-core/src/agg.rs the residual families call
  (`vmean`, `vstd(2)`, `vskew(3)`).

  Every closure keeps the Rust order  add → emit → remove.  The model is the code *after*
  the two `fix:` commits (F20: `ts_vcov` gets `.max(2)`; F21: `ts_vreg_resid_mean` uses `Σt²`,
  not `n·Σt²`, as the weight of `β²`); the pinned variants are kept as `…Pinned` for the
  witnesses in `Thm/C04.lean`.
-/
namespace Tv.C04
open Tv

/-- one position of a two-series input: `(self[i], other[i])` -/
abbrev Pair := Option Rat × Option Rat

/-! ### running cross sums over the pairwise-complete window (binary.rs, reg.rs `regx` family)

Each Rust closure keeps the subset of these sums it needs (`ts_vcov`: `sa sb sab`; `ts_vcorr`:
all five; `regx_*`: `sa sb sbb sab`; `regx_all`: all five); an `emit` below reads only the sums
its closure keeps, so one record serves all of them. -/
structure Cross where
  n : Nat
  sa : Rat
  sb : Rat
  sab : Rat
  saa : Rat
  sbb : Rat
deriving DecidableEq, Repr

def Cross.zero : Cross := ⟨0, 0, 0, 0, 0, 0⟩

/-- `if va.not_none() && vb.not_none() { n += 1; sum_a += va; ... }` -/
def Cross.add (s : Cross) : Pair → Cross
  | (some a, some b) => ⟨s.n + 1, s.sa + a, s.sb + b, s.sab + a * b, s.saa + a * a, s.sbb + b * b⟩
  | _ => s

def Cross.remove (s : Cross) : Pair → Cross
  | (some a, some b) => ⟨s.n - 1, s.sa - a, s.sb - b, s.sab - a * b, s.saa - a * a, s.sbb - b * b⟩
  | _ => s

/-- `(sum_ab - (sum_a * sum_b) / n) / (n - 1)`; `mp` already contains the `.max(2)` of the fix. -/
def emitCov (mp : Nat) (s : Cross) : Out :=
  if s.n ≥ mp then
    let n : Rat := s.n
    if n = 0 ∨ n - 1 = 0 then .degen else .val ((s.sab - s.sa * s.sb / n) / (n - 1))
  else .null

/-- pinned `ts_vcov` (no `.max(2)`): `(n - 1)` is computed in `usize` and underflows at `n = 0`
(debug profile: panic). `none` = panic. -/
def emitCovPinned (mp : Nat) (s : Cross) : Option Out :=
  if s.n ≥ mp then
    if s.n = 0 then none
    else
      let n : Rat := s.n
      some (if n - 1 = 0 then .degen else .val ((s.sab - s.sa * s.sb / n) / (n - 1)))
  else some .null

/-- `ts_vcorr`: `(exy - exey) / sqrt(var_a * var_b)` when both population variances exceed `EPS`,
NaN otherwise. Written as `sign(c) * sqrt(c² / (var_a var_b))`, `c = exy - exey`. -/
def emitCorr (mp : Nat) (s : Cross) : Out :=
  if s.n ≥ mp then
    let n : Rat := s.n
    if n = 0 then .degen else
      let meanA := s.sa / n
      let meanB := s.sb / n
      let varA := s.saa / n - meanA * meanA
      let varB := s.sbb / n - meanB * meanB
      if varA > EPS ∧ varB > EPS then
        let c := s.sab / n - s.sa * s.sb / (n * n)
        .root (sgn c) (c * c / (varA * varB))
      else .degen
  else .null

/-- `n Σx² - (Σx)²` (x = second series) -/
def Cross.den (s : Cross) : Rat := (s.n : Rat) * s.sbb - s.sb * s.sb
/-- `β = (n Σxy - Σx Σy) / (n Σx² - (Σx)²)` -/
def Cross.beta (s : Cross) : Rat := ((s.n : Rat) * s.sab - s.sa * s.sb) / s.den
/-- `α = (Σy - β Σx) / n` -/
def Cross.alpha (s : Cross) : Rat := (s.sa - s.beta * s.sb) / (s.n : Rat)
/-- `SSE = Σy² - α Σy - β Σxy` -/
def Cross.sse (s : Cross) : Rat := s.saa - s.alpha * s.sa - s.beta * s.sab

/-- a zero denominator anywhere in the closed forms (`n = 0` implies `den = 0`; kept explicit) -/
def Cross.degenerate (s : Cross) : Prop := s.den = 0 ∨ s.n = 0
instance (s : Cross) : Decidable s.degenerate := by unfold Cross.degenerate; infer_instance

def emitBeta (mp : Nat) (s : Cross) : Out :=
  if s.n ≥ mp then (if s.degenerate then .degen else .val s.beta) else .null
def emitAlpha (mp : Nat) (s : Cross) : Out :=
  if s.n ≥ mp then (if s.degenerate then .degen else .val s.alpha) else .null
def emitSse (mp : Nat) (s : Cross) : Out :=
  if s.n ≥ mp then (if s.degenerate then .degen else .val s.sse) else .null
/-- `ts_vregx_all` returns `(alpha, beta, sse)` per position -/
def emitAll (mp : Nat) (s : Cross) : Out × Out × Out := (emitAlpha mp s, emitBeta mp s, emitSse mp s)

def crossRoll (emit : Cross → β) : Roll Cross Pair β :=
  { init := Cross.zero, add := Cross.add, emit := emit, remove := Cross.remove }

/-! ### aggregate helpers of tea-core/src/agg.rs on a list of (valid) residuals

The residual closures map the window to `f64` residuals with NaN for incomplete pairs; the
aggregates skip NaN, so the model hands them the list of valid residuals. "NaN because there are
too few observations" is rendered `degen`: the residual statistic of `< k` observations is `0/0`. -/

/-- left fold, as `vfold_n` / `vapply_n` do -/
def msum (f : Rat → Rat) (l : List Rat) : Rat := l.foldl (fun acc v => acc + f v) 0

/-- `vmean`: `if n >= 1 { sum / n } else { NAN }` -/
def aggMean (l : List Rat) : Out :=
  if l.length ≥ 1 then .val (msum id l / (l.length : Rat)) else .degen

/-- `vstd(min_periods)` = `sqrt(vmean_var(min_periods).1)` -/
def aggStd (mp : Nat) (l : List Rat) : Out :=
  let n := l.length
  if n < mp ∨ n = 0 then .degen else
    let nf : Rat := n
    let m1 := msum id l / nf
    let m2 := msum (fun v => v * v) l / nf - m1 * m1
    if m2 ≤ EPS then .val 0
    else if n ≥ 2 then .root 1 (m2 * nf / (nf - 1))
    else .degen

/-- `vskew(min_periods)`: `adjust * (m3/std³ - 3 mean/std - (mean/std)³)`, `adjust = sqrt(n(n-1))/(n-2)`;
written as `sign(c) sqrt(n(n-1) c² / ((n-2)² var³))`, `c = m3 - 3 mean var - mean³`. -/
def aggSkew (mp : Nat) (l : List Rat) : Out :=
  let n := l.length
  if n < mp then .degen else
    if n ≥ 3 then
      let nf : Rat := n
      let m1 := msum id l / nf
      let m2 := msum (fun v => v * v) l / nf
      let var := m2 - m1 * m1
      if var ≤ EPS then .val 0 else
        let m3 := msum (fun v => v * v * v) l / nf
        let c := m3 - 3 * m1 * var - m1 * m1 * m1
        .root (sgn c) (nf * (nf - 1) * (c * c) / ((nf - 2) * (nf - 2) * (var * var * var)))
    else .degen

/-! ### the `rolling2_apply_idx` closures (residual mean / std / skew) -/

/-- `unsafe { (self.uget(j), other.uget(j)) }` -/
def ugetPair (xs ys : List (Option Rat)) (j : Nat) : Pair := (xs.getD j none, ys.getD j none)

/-- the pairs at positions `start.unwrap_or(0) ..= end` -/
def idxWindow (xs ys : List (Option Rat)) (st : Option Nat) (e : Nat) : List Pair :=
  (List.range' (st.getD 0) (e + 1 - st.getD 0)).map (ugetPair xs ys)

/-- `vy - alpha - beta * vx` on complete pairs (NaN, i.e. skipped by the aggregates, otherwise) -/
def resids (alpha beta : Rat) (q : List Pair) : List Rat :=
  q.filterMap fun p => match p with
    | (some y, some x) => some (y - alpha - beta * x)
    | _ => none

/-- emit of the three residual closures; a NaN `beta` (0/0) makes every residual NaN and every
aggregate of them NaN -/
def emitResid (agg : List Rat → Out) (mp : Nat) (xs ys : List (Option Rat))
    (s : Cross) (st : Option Nat) (e : Nat) : Out :=
  if s.n ≥ mp then
    if s.degenerate then .degen
    else agg (resids s.alpha s.beta (idxWindow xs ys st e))
  else .null

/-- a closure driven by `(start?, end, value)` calls that re-reads the element to remove through
`uget(start)` -/
def idxRun (rm : Nat → α) (add remove : σ → α → σ) (emit : σ → Option Nat → Nat → β) :
    σ → List (Option Nat × Nat × α) → List β
  | _, [] => []
  | s, (st, e, v) :: cs =>
    let s1 := add s v
    let s2 := match st with
      | some k => remove s1 (rm k)
      | none => s1
    emit s1 st e :: idxRun rm add remove emit s2 cs

/-! ### trend family (`rolling_apply`, regression of the valid values on 1..n) -/

structure Trend where
  n : Nat
  sum : Rat
  sxt : Rat
  sxx : Rat
deriving DecidableEq, Repr

def Trend.zero : Trend := ⟨0, 0, 0, 0⟩

/-- `n += 1; sum_xt += n * v; sum += v; sum_xx += v * v` -/
def Trend.add (s : Trend) : Option Rat → Trend
  | some v => ⟨s.n + 1, s.sum + v, s.sxt + ((s.n + 1 : Nat) : Rat) * v, s.sxx + v * v⟩
  | none => s

/-- `n -= 1; sum_xt -= sum; sum -= v_rm; sum_xx -= v_rm * v_rm` (the old `sum` is subtracted) -/
def Trend.remove (s : Trend) : Option Rat → Trend
  | some v => ⟨s.n - 1, s.sum - v, s.sxt - s.sum, s.sxx - v * v⟩
  | none => s

/-- `sum_t = (n*n + n) >> 1` -/
def Trend.sumT (s : Trend) : Rat := (((s.n * s.n + s.n) / 2 : Nat) : Rat)
/-- `n.f64() * ((n*n + n) * (2n + 1)).f64() / 6.`  — this is `n·Σt²` (after the F48 fix: the integer
product stops at `2n³`; before it was `(n * (n*n + n) * (2n + 1)).f64() / 6.`, a `usize` product of
about `2n⁴` that overflows from 55,109 observations on) -/
def Trend.nSumTT (s : Trend) : Rat := (s.n : Rat) * (((s.n * s.n + s.n) * (2 * s.n + 1) : Nat) : Rat) / 6
/-- `((n*n + n) * (2n + 1)) / 6.`  — `Σt²` (after the F21 fix) -/
def Trend.sumTT (s : Trend) : Rat := (((s.n * s.n + s.n) * (2 * s.n + 1) : Nat) : Rat) / 6
def Trend.divisor (s : Trend) : Rat := s.nSumTT - s.sumT * s.sumT
def Trend.slope (s : Trend) : Rat := ((s.n : Rat) * s.sxt - s.sumT * s.sum) / s.divisor
/-- `sum_t.mul_add(-slope, sum) / n` -/
def Trend.intercept (s : Trend) : Rat := (s.sumT * (-s.slope) + s.sum) / (s.n : Rat)

def Trend.degenerate (s : Trend) : Prop := s.divisor = 0 ∨ s.n = 0
instance (s : Trend) : Decidable s.degenerate := by unfold Trend.degenerate; infer_instance

def trendEmit (f : Trend → Rat) (mp : Nat) (s : Trend) : Out :=
  if s.n ≥ mp then (if s.degenerate then .degen else .val (f s)) else .null

/-- `slope.mul_add(n, intercept)` -/
def Trend.fitted (s : Trend) : Rat := s.slope * (s.n : Rat) + s.intercept
/-- `slope.mul_add(n + 1, intercept)` -/
def Trend.forecast (s : Trend) : Rat := s.slope * ((s.n + 1 : Nat) : Rat) + s.intercept

/-- repaired `ts_vreg_resid_mean`: `divisor = n * sum_tt - sum_t²` (the same number as
`Trend.divisor`), `resid_sum = Σx² - 2αΣx - 2βΣxt + α²n + 2αβΣt + β²Σt²`, result `resid_sum / n` -/
def Trend.divisor' (s : Trend) : Rat := (s.n : Rat) * s.sumTT - s.sumT * s.sumT
def Trend.beta' (s : Trend) : Rat := ((s.n : Rat) * s.sxt - s.sumT * s.sum) / s.divisor'
def Trend.alpha' (s : Trend) : Rat := (s.sumT * (-s.beta') + s.sum) / (s.n : Rat)
def Trend.msr (s : Trend) : Rat :=
  let a := s.alpha'
  let b := s.beta'
  (s.sxx - 2 * a * s.sum - 2 * b * s.sxt + a * a * (s.n : Rat) + 2 * a * b * s.sumT + b * b * s.sumTT)
    / (s.n : Rat)

def emitMsr (mp : Nat) (s : Trend) : Out :=
  if s.n ≥ mp then (if s.divisor' = 0 ∨ s.n = 0 then .degen else .val s.msr) else .null

/-- pinned `ts_vreg_resid_mean` (F21): `sum_tt` is `n·Σt²` and is used as the weight of `β²` -/
def Trend.msrPinned (s : Trend) : Rat :=
  let a := s.intercept
  let b := s.slope
  (s.sxx - 2 * a * s.sum - 2 * b * s.sxt + a * a * (s.n : Rat) + 2 * a * b * s.sumT + b * b * s.nSumTT)
    / (s.n : Rat)

def emitMsrPinned (mp : Nat) (s : Trend) : Out :=
  if s.n ≥ mp then (if s.degenerate then .degen else .val s.msrPinned) else .null

def trendRoll (emit : Trend → Out) : Roll Trend (Option Rat) Out :=
  { init := Trend.zero, add := Trend.add, emit := emit, remove := Trend.remove }

/-! ### entry points -/

inductive Fn2 where
  | cov | corr | alpha | beta | residMean | residStd | residSkew
deriving DecidableEq, Repr

/-- the `.max(k)` of each two-series entry point -/
def Fn2.minK : Fn2 → Nat
  | .cov => 2
  | _ => 0

/-- two-series entry points with one output per position -/
def ts2 (f : Fn2) (sh : Shape) (xs ys : List (Option Rat)) (w : Nat) (mp : Option Nat) : List Out :=
  let m := effMp mp w f.minK
  let resid (agg : List Rat → Out) : List Out :=
    idxRun (ugetPair xs ys) Cross.add Cross.remove (emitResid agg m xs ys) Cross.zero
      (idx2Calls sh xs ys w)
  match f with
  | .cov => (crossRoll (emitCov m)).run Cross.zero (apply2Calls sh xs ys w)
  | .corr => (crossRoll (emitCorr m)).run Cross.zero (apply2Calls sh xs ys w)
  | .alpha => (crossRoll (emitAlpha m)).run Cross.zero (apply2Calls sh xs ys w)
  | .beta => (crossRoll (emitBeta m)).run Cross.zero (apply2Calls sh xs ys w)
  | .residMean => resid aggMean
  | .residStd => resid (aggStd 2)
  | .residSkew => resid (aggSkew 3)

/-- `ts_vregx_all` -/
def tsRegxAll (sh : Shape) (xs ys : List (Option Rat)) (w : Nat) (mp : Option Nat) :
    List (Out × Out × Out) :=
  (crossRoll (emitAll (effMp mp w 0))).run Cross.zero (apply2Calls sh xs ys w)

inductive Fn1 where
  | reg | tsf | slope | intercept | residMean
deriving DecidableEq, Repr

def Fn1.emit (f : Fn1) (mp : Nat) : Trend → Out :=
  match f with
  | .reg => trendEmit Trend.fitted mp
  | .tsf => trendEmit Trend.forecast mp
  | .slope => trendEmit Trend.slope mp
  | .intercept => trendEmit Trend.intercept mp
  | .residMean => emitMsr mp

/-- the five trend entry points -/
def ts1 (f : Fn1) (sh : Shape) (xs : List (Option Rat)) (w : Nat) (mp : Option Nat) : List Out :=
  (trendRoll (f.emit (effMp mp w 0))).run Trend.zero (applyCalls sh xs w)

/-- pinned `ts_vreg_resid_mean` -/
def tsResidMeanPinned (sh : Shape) (xs : List (Option Rat)) (w : Nat) (mp : Option Nat) : List Out :=
  (trendRoll (emitMsrPinned (effMp mp w 0))).run Trend.zero (applyCalls sh xs w)

/-- pinned `ts_vcov`: `none` = the call panics (usize underflow of `n - 1`, debug profile) -/
def tsCovPinned (sh : Shape) (xs ys : List (Option Rat)) (w : Nat) (mp : Option Nat) :
    Option (List Out) :=
  ((crossRoll (emitCovPinned (effMp mp w 0))).run Cross.zero (apply2Calls sh xs ys w)).mapM id

end Tv.C04
