/-!
  C15 — vocabulary shared by the model and the spec of the null / cast algebra of `tea-dtype`:
  value classes of the element types and exact models of the *language-level* primitives the
  crate builds on (`as`, `to_string`, `str::parse`, `chrono::Duration::num_microseconds`).
  These describe Rust / std, not the repository; the correspondence run validates them against
  the language itself (second output group of `c15_cast`).  Core Lean only.
-/
namespace Tv.C15

/-- value class of an IEEE float (`f32` and `f64` share it; the sign of zero is not modelled) -/
inductive FV where
  | fin (q : Rat)
  | nan
  | inf (neg : Bool)
  deriving DecidableEq, Repr, Inhabited

/-- element types of the property (`dt` = `DateTime<_>`, `td` = `TimeDelta`, `sref` = `&str`) -/
inductive Base where
  | u8 | u64 | i64 | i32 | f32 | f64 | usize | isize | bool | str | sref | dt | td | time
  deriving DecidableEq, Repr, Inhabited

/-- `T` or `Option<T>` -/
structure Ty where
  base : Base
  opt : Bool
  deriving DecidableEq, Repr, Inhabited

/-- a value of a base type: integers (also the raw i64 of `DateTime` / `Time`), floats, bools,
strings, `TimeDelta { months, inner }` with `inner` in nanoseconds -/
inductive Val where
  | int (i : Int)
  | flt (v : FV)
  | bool (b : Bool)
  | str (s : String)
  | td (months nanos : Int)
  deriving DecidableEq, Repr, Inhabited

/-- a runtime value of type `T` (`v`) or `Option<T>` (`o`) -/
inductive XV where
  | v (x : Val)
  | o (x : Option Val)
  deriving DecidableEq, Repr, Inhabited

/-- outcome of a call: a value or an (unwinding) panic -/
inductive Res (α : Type) where
  | ok (a : α)
  | panic
  deriving DecidableEq, Repr, Inhabited

def Res.map (f : α → β) : Res α → Res β
  | .ok a => .ok (f a)
  | .panic => .panic

def Res.bind (r : Res α) (f : α → Res β) : Res β :=
  match r with
  | .ok a => f a
  | .panic => .panic

def Base.ofName : String → Option Base
  | "u8" => some .u8 | "u64" => some .u64 | "i64" => some .i64 | "i32" => some .i32
  | "f32" => some .f32 | "f64" => some .f64 | "usize" => some .usize | "isize" => some .isize
  | "bool" => some .bool | "str" => some .str | "sref" => some .sref
  | "dt" => some .dt | "td" => some .td | "time" => some .time
  | _ => none

def Base.name : Base → String
  | .u8 => "u8" | .u64 => "u64" | .i64 => "i64" | .i32 => "i32" | .f32 => "f32" | .f64 => "f64"
  | .usize => "usize" | .isize => "isize" | .bool => "bool" | .str => "str" | .sref => "sref"
  | .dt => "dt" | .td => "td" | .time => "time"

/-- `o<name>` is `Option<name>` -/
def Ty.ofName (s : String) : Option Ty :=
  match Base.ofName s with
  | some b => some ⟨b, false⟩
  | none =>
    match s.toList with
    | 'o' :: r => (Base.ofName (String.ofList r)).map (⟨·, true⟩)
    | _ => none

/-! ## integer and float formats -/

structure IntTy where
  bits : Nat
  signed : Bool
  deriving DecidableEq, Repr

/-- 64-bit target: `usize` / `isize` are 64 bits wide -/
def Base.intTy : Base → Option IntTy
  | .u8 => some ⟨8, false⟩ | .u64 => some ⟨64, false⟩ | .usize => some ⟨64, false⟩
  | .i32 => some ⟨32, true⟩ | .i64 => some ⟨64, true⟩ | .isize => some ⟨64, true⟩
  | _ => none

def IntTy.lo (t : IntTy) : Int := if t.signed then -(2 ^ (t.bits - 1)) else 0
def IntTy.hi (t : IntTy) : Int := if t.signed then 2 ^ (t.bits - 1) - 1 else 2 ^ t.bits - 1

def i64Ty : IntTy := ⟨64, true⟩
def i32Ty : IntTy := ⟨32, true⟩
def u8Ty : IntTy := ⟨8, false⟩
def i64Min : Int := -9223372036854775808
def i32Min : Int := -2147483648

structure FltTy where
  prec : Nat
  emin : Int
  emax : Int
  deriving DecidableEq, Repr

def f32Ty : FltTy := ⟨24, -126, 127⟩
def f64Ty : FltTy := ⟨53, -1022, 1023⟩

def Base.fltTy : Base → Option FltTy
  | .f32 => some f32Ty | .f64 => some f64Ty | _ => none

def Base.isNum (b : Base) : Bool := b.intTy.isSome || b.fltTy.isSome
def Base.isTime (b : Base) : Bool := b == .dt || b == .td || b == .time
def Base.isStr (b : Base) : Bool := b == .str || b == .sref

/-! ## `as` (Rust reference: numeric casts) -/

/-- int → int: truncate to the width, reinterpret (two's complement) -/
def wrapInt (t : IntTy) (i : Int) : Int :=
  let m := i % (2 ^ t.bits : Int)
  if t.signed && decide (m ≥ 2 ^ (t.bits - 1)) then m - 2 ^ t.bits else m

def pow2 (e : Int) : Rat := (2 : Rat) ^ e

/-- `⌊log₂ (n/d)⌋` for `n, d > 0` -/
def ilog2 (n d : Nat) : Int :=
  let k : Int := (Nat.log2 n : Int) - (Nat.log2 d : Int)
  let ge : Bool := if k ≥ 0 then decide (d * 2 ^ k.toNat ≤ n) else decide (d ≤ n * 2 ^ (-k).toNat)
  if ge then k else k - 1

/-- `n/d > 0` rounded to the nearest multiple of the format's quantum, ties to even -/
def roundMag (f : FltTy) (n d : Nat) : Rat :=
  let e := ilog2 n d
  let t : Int := max e f.emin - ((f.prec : Int) - 1)
  let num' := if t ≥ 0 then n else n * 2 ^ (-t).toNat
  let den' := if t ≥ 0 then d * 2 ^ t.toNat else d
  let fl := num' / den'
  let r := num' % den'
  let m := if 2 * r < den' then fl else if den' < 2 * r then fl + 1 else if fl % 2 = 0 then fl else fl + 1
  (m : Rat) * pow2 t

/-- overflow to ±inf -/
def fltOfMag (f : FltTy) (neg : Bool) (mag : Rat) : FV :=
  if pow2 (f.emax + 1) ≤ mag then .inf neg else .fin (if neg then -mag else mag)

/-- round to nearest, ties to even, in the format `f` (gradual underflow, overflow to ±inf) -/
def roundFlt (f : FltTy) (q : Rat) : FV :=
  if q = 0 then .fin 0 else fltOfMag f (decide (q.num < 0)) (roundMag f q.num.natAbs q.den)

/-- toward zero -/
def truncRat (q : Rat) : Int := if 0 ≤ q then q.floor else q.ceil

/-- float → int: NaN ↦ 0, saturating, toward zero -/
def fltToInt (t : IntTy) : FV → Int
  | .nan => 0
  | .inf neg => if neg then t.lo else t.hi
  | .fin q =>
    let z := truncRat q
    if z < t.lo then t.lo else if t.hi < z then t.hi else z

def fltToFlt (f : FltTy) : FV → FV
  | .fin q => roundFlt f q
  | x => x

/-- `v as d` for a numeric value class `v` and a numeric target `d` -/
def asNum (d : Base) (v : Val) : Val :=
  match v with
  | .int i =>
    match d.intTy, d.fltTy with
    | some t, _ => .int (wrapInt t i)
    | none, some f => .flt (roundFlt f i)
    | none, none => v
  | .flt x =>
    match d.intTy, d.fltTy with
    | some t, _ => .int (fltToInt t x)
    | none, some f => .flt (fltToFlt f x)
    | none, none => v
  | _ => v

/-- `abs` of `number.rs` (`impl_number!`): floats `f.abs()`, signed `i.abs()` (overflow panics in
the checked profile), unsigned identity -/
def absVal (b : Base) (v : Val) : Res Val :=
  match v with
  | .flt (.fin q) => .ok (.flt (.fin (if 0 ≤ q then q else -q)))
  | .flt (.inf _) => .ok (.flt (.inf false))
  | .flt .nan => .ok (.flt .nan)
  | .int i =>
    match b.intTy with
    | some t => if t.signed && i == t.lo then .panic else .ok (.int (if 0 ≤ i then i else -i))
    | none => .ok v
  | _ => .ok v

/-! ## `to_string` (Display) -/

/-- exact decimal expansion of a dyadic rational (`den = 2^k`); equals Rust's shortest
round-trip `Display` on the values the generators use (integers below 2^53 / 2^24, eighths) -/
def showDyadic (q : Rat) : String :=
  if q.den = 1 then toString q.num else
  let k := Nat.log2 q.den
  let digits := (toString (q.num.natAbs * 5 ^ k)).toList
  let padded := List.replicate (k + 1 - digits.length) '0' ++ digits
  let ip := padded.take (padded.length - k)
  let fp := padded.drop (padded.length - k)
  (if q.num < 0 then "-" else "") ++ String.ofList ip ++ "." ++ String.ofList fp

def displayVal : Val → String
  | .int i => toString i
  | .bool b => if b then "true" else "false"
  | .flt .nan => "NaN"
  | .flt (.inf false) => "inf"
  | .flt (.inf true) => "-inf"
  | .flt (.fin q) => showDyadic q
  | .str s => s
  | .td m n => s!"{m}m{n}"

/-! ## `str::parse` -/

def digitsToNat (cs : List Char) : Option Nat :=
  if cs.isEmpty || !cs.all Char.isDigit then none
  else some (cs.foldl (fun acc c => acc * 10 + (c.toNat - '0'.toNat)) 0)

/-- `<int>::from_str`: optional `+`, `-` only for signed types, at least one digit, in range -/
def parseIntLit (t : IntTy) (s : String) : Option Int :=
  let body : Option (Bool × List Char) :=
    match s.toList with
    | [] => none
    | '+' :: r => some (false, r)
    | '-' :: r => if t.signed then some (true, r) else none
    | r => some (false, r)
  match body with
  | none => none
  | some (neg, r) =>
    match digitsToNat r with
    | none => none
    | some n =>
      let i : Int := if neg then -(n : Int) else n
      if t.lo ≤ i ∧ i ≤ t.hi then some i else none

/-- result of reading a float literal before rounding -/
inductive FLit where
  | nan
  | inf (neg : Bool)
  | rat (q : Rat)

def lowerAscii (cs : List Char) : List Char := cs.map Char.toLower

/-- `<float>::from_str` grammar: `[+-]? (inf | infinity | nan | digits* [. digits*] [(e|E) [+-]? digits+])`
with at least one mantissa digit -/
def parseFltLit (s : String) : Option FLit :=
  let (neg, r) : Bool × List Char :=
    match s.toList with
    | '+' :: r => (false, r)
    | '-' :: r => (true, r)
    | r => (false, r)
  let lr := lowerAscii r
  if lr == "nan".toList then some .nan
  else if lr == "inf".toList || lr == "infinity".toList then some (.inf neg)
  else
    let ip := r.takeWhile Char.isDigit
    let r1 := r.dropWhile Char.isDigit
    let (fp, r2) : List Char × List Char :=
      match r1 with
      | '.' :: r' => (r'.takeWhile Char.isDigit, r'.dropWhile Char.isDigit)
      | _ => ([], r1)
    if ip.isEmpty && fp.isEmpty then none else
    let ex : Option Int :=
      match r2 with
      | [] => some 0
      | c :: r' =>
        if c == 'e' || c == 'E' then
          match r' with
          | '+' :: ds => (digitsToNat ds).map (fun n => (n : Int))
          | '-' :: ds => (digitsToNat ds).map (fun n => -(n : Int))
          | ds => (digitsToNat ds).map (fun n => (n : Int))
        else none
    match ex with
    | none => none
    | some e =>
      let mant : Nat := (ip ++ fp).foldl (fun acc c => acc * 10 + (c.toNat - '0'.toNat)) 0
      let q : Rat := (mant : Rat) * (10 : Rat) ^ (e - (fp.length : Int))
      some (.rat (if neg then -q else q))

def parseFlt (f : FltTy) (s : String) : Option FV :=
  match parseFltLit s with
  | none => none
  | some .nan => some .nan
  | some (.inf n) => some (.inf n)
  | some (.rat q) => some (roundFlt f q)

/-- `s.parse::<T>()` for the numeric types and bool -/
def parseVal (b : Base) (s : String) : Option Val :=
  match b.intTy, b.fltTy with
  | some t, _ => (parseIntLit t s).map .int
  | none, some f => (parseFlt f s).map .flt
  | none, none =>
    if b == .bool then (if s == "true" then some (.bool true) else if s == "false" then some (.bool false) else none)
    else none

end Tv.C15
