import Tv.Model.Basic
/-!
  Model of tea-rolling/src/features.rs (the 9 null-aware `ts_v*` closures; the 9 plain
  `ts_*` closures are the same closures with the `not_none` tests removed, i.e. the same
  model on null-free input — DESIGN 5.6) and of the two `rolling_custom` closures of
  tevec/src/rolling.rs (`ts_fdiff`, `ts_vfdiff`).

  Every closure keeps the Rust order  add → emit → remove.
-/
namespace Tv

/-- `EPS` of tea-core/src/prelude.rs (checked against the source by `Generated.eps`). -/
def EPS : Rat := 1 / 100000000000000


/-! ### additive power sums (sum, mean, std, var, skew, kurt) -/

structure Mom where
  n : Nat
  s1 : Rat
  s2 : Rat
  s3 : Rat
  s4 : Rat
deriving DecidableEq, Repr

def Mom.zero : Mom := ⟨0, 0, 0, 0, 0⟩

def Mom.add (s : Mom) : Option Rat → Mom
  | none => s
  | some v => ⟨s.n + 1, s.s1 + v, s.s2 + v * v, s.s3 + v * v * v, s.s4 + v * v * v * v⟩

def Mom.remove (s : Mom) : Option Rat → Mom
  | none => s
  | some v => ⟨s.n - 1, s.s1 - v, s.s2 - v * v, s.s3 - v * v * v, s.s4 - v * v * v * v⟩

def sgn (q : Rat) : Int := if q < 0 then -1 else if q = 0 then 0 else 1

def emitSum (mp : Nat) (s : Mom) : Out := if s.n ≥ mp then .val s.s1 else .null
def emitMean (mp : Nat) (s : Mom) : Out := if s.n ≥ mp then Out.div s.s1 s.n else .null

/-- population variance as the closures compute it: `sum2/n - (sum/n)^2` -/
def Mom.pvar (s : Mom) : Rat := s.s2 / s.n - (s.s1 / s.n) * (s.s1 / s.n)

def emitVar (mp : Nat) (s : Mom) : Out :=
  if s.n ≥ mp then
    if s.pvar > EPS then Out.div (s.pvar * s.n) ((s.n : Rat) - 1) else .val 0
  else .null

def emitStd (mp : Nat) (s : Mom) : Out :=
  if s.n ≥ mp then
    if s.pvar > EPS then
      (if (s.n : Rat) - 1 = 0 then .degen else .root 1 (s.pvar * s.n / ((s.n : Rat) - 1)))
    else .val 0
  else .null

/-- `adjust * (ex3/std^3 - 3*(mean/std) - (mean/std)^3)` with `adjust = sqrt(n(n-1))/(n-2)`;
written as `sign(m3) * sqrt(n(n-1) m3^2 / ((n-2)^2 var^3))`, `m3 = ex3 - 3 mean var - mean^3`. -/
def emitSkew (mp : Nat) (s : Mom) : Out :=
  if s.n ≥ mp then
    let var := s.pvar
    if var ≤ EPS then .val 0 else
      let n : Rat := s.n
      let mean := s.s1 / n
      let m3 := s.s3 / n - 3 * mean * var - mean * mean * mean
      if n - 2 = 0 then .degen else
        .root (sgn m3) (n * (n - 1) * (m3 * m3) / ((n - 2) * (n - 2) * (var * var * var)))
  else .null

def emitKurt (mp : Nat) (s : Mom) : Out :=
  if s.n ≥ mp then
    let var := s.pvar
    if var ≤ EPS then .val 0 else
      let n : Rat := s.n
      let mean := s.s1 / n
      let var2 := var * var
      let ex4 := s.s4 / n
      let ex3 := s.s3 / n
      let m2v := mean * mean / var
      let out := (ex4 - 4 * mean * ex3) / var2 + 6 * m2v + 3 * (m2v * m2v)
      if (n - 2) * (n - 3) = 0 then .degen else
        .val (1 / ((n - 2) * (n - 3)) * ((n * n - 1) * out - 3 * ((n - 1) * (n - 1))))
  else .null

def momRoll (emit : Mom → Out) : Roll Mom (Option Rat) Out :=
  { init := Mom.zero, add := Mom.add, emit := emit, remove := Mom.remove }

/-! ### exponentially weighted mean (`ts_vewm`) -/

structure Ewm where
  n : Nat
  qx : Rat
deriving DecidableEq, Repr

/-- `alpha = 2 / window` uses the *requested* window (not the clamped one). -/
def ewmRoll (w mp : Nat) : Roll Ewm (Option Rat) Out :=
  let alpha : Rat := 2 / (w : Rat)
  let oma : Rat := 1 - alpha
  { init := ⟨0, 0⟩
    add := fun s v => match v with
      | none => s
      | some v => ⟨s.n + 1, s.qx + (v - alpha * s.qx)⟩
    emit := fun s => if s.n ≥ mp then Out.div (s.qx * alpha) (1 - oma ^ s.n) else .null
    remove := fun s v => match v with
      | none => s
      | some v => ⟨s.n - 1, s.qx - v * oma ^ (s.n - 1)⟩ }

/-! ### linearly weighted mean (`ts_vwma`) -/

structure Wma where
  n : Nat
  sum : Rat
  sxt : Rat
deriving DecidableEq, Repr

def wmaRoll (mp : Nat) : Roll Wma (Option Rat) Out :=
  { init := ⟨0, 0, 0⟩
    add := fun s v => match v with
      | none => s
      | some v => ⟨s.n + 1, s.sum + v, s.sxt + ((s.n + 1 : Nat) : Rat) * v⟩
    emit := fun s => if s.n ≥ mp then Out.div s.sxt (((s.n * (s.n + 1)) / 2 : Nat) : Rat) else .null
    remove := fun s v => match v with
      | none => s
      | some v => ⟨s.n - 1, s.sum - v, s.sxt - s.sum⟩ }

/-! ### entry points: closure run over the callback arguments of the driver -/


def tsFeat (f : Feat) (sh : Shape) (xs : List (Option Rat)) (w : Nat) (mp : Option Nat) : List Out :=
  let m := effMp mp w f.minK
  let calls := applyCalls sh xs w
  match f with
  | .sum => (momRoll (emitSum m)).run Mom.zero calls
  | .mean => (momRoll (emitMean m)).run Mom.zero calls
  | .std => (momRoll (emitStd m)).run Mom.zero calls
  | .var => (momRoll (emitVar m)).run Mom.zero calls
  | .skew => (momRoll (emitSkew m)).run Mom.zero calls
  | .kurt => (momRoll (emitKurt m)).run Mom.zero calls
  | .ewm => (ewmRoll w m).run ⟨0, 0⟩ calls
  | .wma => (wmaRoll m).run ⟨0, 0, 0⟩ calls

/-! ### fractional differencing -/

/-- generalized binomial `C(d,k) = Π_{j<k} (d-j)/(j+1)` (what `ffi::binom(d, k)` computes for
integral `k ≥ 0`) -/
def gbinom (d : Rat) : Nat → Rat
  | 0 => 1
  | k + 1 => gbinom d k * (d - k) / ((k : Rat) + 1)

/-- `fdiff_coef(d, window)`: `(0..window).rev().map(|v| { sign = -sign; binom(d, v) * sign })`
with `sign` starting at `+1` for even windows, `-1` for odd ones. The element produced for
`v` therefore carries sign `(-1)^v`. -/
def fdiffCoef (d : Rat) (w : Nat) : List Rat :=
  ((List.range w).reverse.foldl
      (fun (acc : Rat × List Rat) v => let s := -acc.1; (s, acc.2 ++ [gbinom d v * s]))
      ((if w % 2 = 0 then 1 else -1 : Rat), [])).2

def dot (xs cs : List Rat) : Rat := ((xs.zip cs).map fun p => p.1 * p.2).foldl (· + ·) 0

/-- one term of the null-skipping accumulation `if v.not_none() { acc + v * c } else { acc }` -/
def optMul (p : Option Rat × Rat) : Rat :=
  match p.1 with
  | some v => v * p.2
  | none => 0

/-- `ts_vfdiff` closure on one window slice -/
def vfdiffEmit (d : Rat) (w mp : Nat) (arr : List (Option Rat)) : Out :=
  let n := (valid arr).length
  if n = w then
    .val (((arr.zip (fdiffCoef d w)).map optMul).foldl (· + ·) 0)
  else if n ≥ mp then .val (dot (valid arr) (fdiffCoef d n))
  else .null

def tsVfdiff (sh : Shape) (d : Rat) (xs : List (Option Rat)) (w : Nat) (mp : Option Nat) : List Out :=
  (customCalls sh xs w).map (vfdiffEmit d w (effMp mp w 0))

/-- `ts_fdiff` closure (plain; input assumed null-free): zip from the newest element
backwards (`rev`) so that the newest element always meets coefficient `C(d,0)`. -/
def fdiffEmit (d : Rat) (w : Nat) (arr : List Rat) : Out :=
  .val (dot arr.reverse (fdiffCoef d w).reverse)

def tsFdiff (sh : Shape) (d : Rat) (xs : List Rat) (w : Nat) : List Out :=
  (customCalls sh xs w).map (fdiffEmit d w)

end Tv
