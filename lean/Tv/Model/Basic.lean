/-
  Core vocabulary of the executable model (core Lean only, no Mathlib: everything
  here is linked into the `tvmodel` driver).

  * series element  = `Option Rat`   (`none` is the canonical null: NaN / None)
  * rolling output  = `Out`          (null / degenerate / exact value / signed root)
  * windows, the add-emit-remove closure shape, the index-level models of the
    eight rolling drivers of tea-core/src/vec_core/cores/view.rs
-/
namespace Tv

/-- Result slot of a numeric kernel. `null` is what a mask produces (NaN / None);
`degen` is a zero denominator (Rust gives NaN or ±inf, both accepted);
`root s q` denotes `s * sqrt q` (the model never takes square roots). -/
inductive Out where
  | null
  | degen
  | val (q : Rat)
  | root (sign : Int) (sq : Rat)
deriving DecidableEq, Repr, Inhabited

/-- Exact division that is never totalised. -/
def Out.div (a b : Rat) : Out := if b = 0 then .degen else .val (a / b)

/-- The window of `xs` ending at position `i` (inclusive) of size at most `w`:
positions `max(0,i+1-w) ..= i`. -/
def window (xs : List α) (i w : Nat) : List α := (xs.take (i+1)).drop (i+1-w)

/-- The `w-1` elements before position `i`. -/
def pre (xs : List α) (i w : Nat) : List α := (xs.take i).drop (i-(w-1))

/-- non-null elements, in order -/
def valid (l : List (Option α)) : List α := l.filterMap id

/-- non-null elements of the window ending at `i` -/
def vwin (xs : List (Option α)) (i w : Nat) : List α := valid (window xs i w)

/-! ### Rolling closures: add the new element, emit, then remove the expiring one -/

structure Roll (σ α β : Type) where
  init : σ
  add : σ → α → σ
  emit : σ → β
  remove : σ → α → σ

def Roll.step (r : Roll σ α β) (s : σ) (rm : Option α) (v : α) : σ × β :=
  let s1 := r.add s v
  (match rm with | some x => r.remove s1 x | none => s1, r.emit s1)

/-- run the closure over the list of `(removed, added)` callback arguments -/
def Roll.run (r : Roll σ α β) : σ → List (Option α × α) → List β
  | _, [] => []
  | s, (rm, v) :: cs => let p := r.step s rm v; p.2 :: r.run p.1 cs

/-! ### Index-level model of the drivers

`toIdx len w` is the sequence of `(start?, end)` pairs visited by the two-phase
`*_to` loops (view.rs: `rolling_apply_to`, `rolling2_apply_to`, `rolling_apply_idx_to`,
`rolling2_apply_idx_to`, `rolling_custom_to`): clamp `w' = min w len`, return early on
`w' = 0`, warm-up `0..w'-1` with nothing to remove, then `enumerate(w'-1..len)`.
The position written by each callback is its `end`.

`iterIdx len w` is the sequence produced by the default (iterator) bodies:
`repeat_n(None, w-1).chain((0..len).map(Some))` zipped with `0..len`. -/

def toIdx (len w : Nat) : List (Option Nat × Nat) :=
  let w' := min w len
  if w' = 0 then [] else
    (List.range (w' - 1)).map (fun i => (none, i)) ++
    (List.range (len - (w' - 1))).map (fun s => (some s, s + (w' - 1)))

def iterIdx (len w : Nat) : List (Option Nat × Nat) :=
  (List.replicate (w - 1) none ++ (List.range len).map some).zip (List.range len)

/-- which of the two shapes a backend uses (vec.rs / ndarray.rs override the
returned path with `*_to` on a fresh uninit buffer; VecDeque, Polars, OptIter use the
default bodies; an `out` buffer always goes through `*_to`). -/
inductive Shape where
  | to
  | iter
deriving DecidableEq, Repr

def Shape.idx : Shape → Nat → Nat → List (Option Nat × Nat)
  | .to, len, w => toIdx len w
  | .iter, len, w => iterIdx len w

/-- specification of the start index at position `i` for window `w` -/
def startAt (w i : Nat) : Option Nat := if w - 1 ≤ i then some (i - (w - 1)) else none

/-! #### the eight drivers as maps over the index sequence -/

/-- `rolling_apply` / `rolling_apply_to`: callback arguments `(removed?, added)` -/
def applyCalls (sh : Shape) (xs : List α) (w : Nat) : List (Option α × α) :=
  (sh.idx xs.length w).filterMap fun (s, e) =>
    match xs[e]? with
    | none => none
    | some v => some (s.bind (xs[·]?), v)

/-- `rolling_apply_idx(_to)`: `(start?, end, value)` -/
def idxCalls (sh : Shape) (xs : List α) (w : Nat) : List (Option Nat × Nat × α) :=
  (sh.idx xs.length w).filterMap fun (s, e) => xs[e]?.map fun v => (s, e, v)

/-- `rolling2_apply(_to)` -/
def apply2Calls (sh : Shape) (xs : List α) (ys : List β) (w : Nat) :
    List (Option (α × β) × (α × β)) :=
  (sh.idx xs.length w).filterMap fun (s, e) =>
    match xs[e]?, ys[e]? with
    | some a, some b => some (s.bind (fun k => match xs[k]?, ys[k]? with
                                        | some x, some y => some (x, y) | _, _ => none), (a, b))
    | _, _ => none

/-- `rolling2_apply_idx(_to)` -/
def idx2Calls (sh : Shape) (xs : List α) (ys : List β) (w : Nat) :
    List (Option Nat × Nat × (α × β)) :=
  (sh.idx xs.length w).filterMap fun (s, e) =>
    match xs[e]?, ys[e]? with
    | some a, some b => some (s, e, (a, b))
    | _, _ => none

/-- `rolling_custom(_to)` / `rolling_custom_iter`: the slice `start.getD 0 .. end+1` -/
def customCalls (sh : Shape) (xs : List α) (w : Nat) : List (List α) :=
  (sh.idx xs.length w).map fun (s, e) => xs.extract (s.getD 0) (e + 1)

/-- `rolling2_custom` -/
def custom2Calls (sh : Shape) (xs : List α) (ys : List β) (w : Nat) : List (List α × List β) :=
  (sh.idx xs.length w).map fun (s, e) =>
    (xs.extract (s.getD 0) (e + 1), ys.extract (s.getD 0) (e + 1))

/-- the output slots written, in order -/
def writes (sh : Shape) (len w : Nat) : List Nat := (sh.idx len w).map (·.2)

/-- every unchecked element read performed by the `*_to` loops -/
def reads (sh : Shape) (len w : Nat) : List Nat :=
  (sh.idx len w).flatMap fun (s, e) => (s.toList ++ [e])

/-- `min_periods.unwrap_or(window / 2).min(window).max(k)` (k = 0 when there is no `.max`) -/
def effMp (mp : Option Nat) (w k : Nat) : Nat := max (min (mp.getD (w / 2)) w) k

/-- the eight rolling moment / weighted-average statistics of features.rs -/
inductive Feat where
  | sum | mean | ewm | wma | std | var | skew | kurt
deriving DecidableEq, Repr

/-- the `.max(k)` of each entry point (checked against the source by `Generated.maskTable`) -/
def Feat.minK : Feat → Nat
  | .std => 2 | .var => 2 | .skew => 3 | .kurt => 4 | _ => 0

/-- an arbitrary *stateful* user callback driven over a call list: results in call order -/
def runSt (f : σ → γ → σ × β) : σ → List γ → List β
  | _, [] => []
  | s, c :: cs => let p := f s c; p.2 :: runSt f p.1 cs

end Tv
