/-!
  C18 — model of the text parsers of `tea-time`.

  * `TimeDelta::parse` (tea-time/src/timedelta.rs): the hand-written scanner, transcribed
    statement by statement.  A Rust `&str` is modelled as a `List Char`; byte offsets are the
    UTF-8 offsets the code sees through `char_indices` (`Char.utf8Size`).  Every operation
    that can panic in Rust is a `Res.panic`:
      `duration[start..i]`      → `slice` (fails off a char boundary / `start > i` / out of range)
      `.parse::<i64>().unwrap()`→ `parseI64` (Rust's `i64::from_str`) then `unwrap`
      `n * K`, `+=`             → checked against the i64 / i32 range (debug profile, overflow checks on)
      `n as i32`                → wrapping truncation (`wrapI32`)
      `Duration::seconds`, `+`  → chrono's bounds (± `i64::MAX` milliseconds)
    `Version.pinned` is the code of the pinned tree, `Version.repaired` the code after the
    `fix:` commit (errors instead of `unwrap`, checked arithmetic); the driver runs `repaired`.
  * `DateTime::parse` (datetime.rs): the format list `TIME_RULE_VEC` tried in order over an
    abstract chrono parser (a parameter), then the conversion to the unit's `i64`.
  * `Time::parse` (time.rs): chrono's `NaiveTime` parser (parameter), then nanoseconds of day.
-/
namespace Tv.C18

/-! ## integer ranges -/

def i64Min : Int := -9223372036854775808
def i64Max : Int := 9223372036854775807
def i32Min : Int := -2147483648
def i32Max : Int := 2147483647

def inI64 (x : Int) : Bool := decide (i64Min ≤ x) && decide (x ≤ i64Max)
def inI32 (x : Int) : Bool := decide (i32Min ≤ x) && decide (x ≤ i32Max)

/-- Rust `x as i32` for an `i64` (two's complement truncation) -/
def wrapI32 (x : Int) : Int := (x + 2147483648) % 4294967296 - 2147483648

/-! ## outcomes -/

inductive PanicKind
  | sliceIndex      -- `duration[start..i]` not on char boundaries / out of range
  | unwrapParse     -- `.parse::<i64>().unwrap()` on an `Err`
  | mulOverflow     -- `n * K` (overflow checks)
  | addOverflow     -- `acc += v` (overflow checks)
  | durationBounds  -- `Duration::seconds` out of bounds / `Duration + Duration` overflowed
  | expectNanos     -- `timestamp_nanos_opt().expect(..)` in `From<chrono::DateTime<Utc>>`
  deriving DecidableEq, Repr

inductive ErrKind
  | num       -- the text before a unit is not an `i64`
  | nounit    -- "expected a unit in the duration string"
  | badunit   -- "unit: '..' not supported"
  | overflow  -- accumulated value out of range
  | parse     -- chrono could not parse the text (date-time / time of day)
  | range     -- parsed instant not representable in the unit
  deriving DecidableEq, Repr

/-- result of `TimeDelta::parse`: months and the fixed part in nanoseconds -/
inductive Res
  | ok (months : Int) (nanos : Int)
  | err (k : ErrKind)
  | panic (k : PanicKind)
  deriving DecidableEq, Repr

def Res.isPanic : Res → Bool
  | .panic _ => true
  | _ => false

inductive Version
  | pinned
  | repaired
  deriving DecidableEq, Repr

/-! ## `&str` primitives -/

/-- `str::len()` (bytes) -/
def utf8Len : List Char → Nat
  | [] => 0
  | c :: cs => c.utf8Size + utf8Len cs

/-- the suffix starting at byte offset `n`; `none` if `n` is not a char boundary of the string -/
def dropBytes : List Char → Nat → Option (List Char)
  | s, 0 => some s
  | [], _ + 1 => none
  | c :: cs, n + 1 => if c.utf8Size ≤ n + 1 then dropBytes cs (n + 1 - c.utf8Size) else none

/-- the prefix of byte length `n`; `none` if `n` is not a char boundary of the string -/
def takeBytes : List Char → Nat → Option (List Char)
  | _, 0 => some []
  | [], _ + 1 => none
  | c :: cs, n + 1 =>
    if c.utf8Size ≤ n + 1 then (takeBytes cs (n + 1 - c.utf8Size)).map (c :: ·) else none

/-- `s[a..b]`; `none` = the indexing panics -/
def slice (s : List Char) (a b : Nat) : Option (List Char) :=
  if a ≤ b then (dropBytes s a).bind (takeBytes · (b - a)) else none

/-- value of a run of ASCII digits accumulated left to right; `none` on a non-digit -/
def digitsAcc (acc : Nat) : List Char → Option Nat
  | [] => some acc
  | c :: cs => if c.isDigit then digitsAcc (acc * 10 + (c.toNat - 48)) cs else none

/-- Rust `i64::from_str`: optional single `+`/`-`, at least one ASCII digit, value in range -/
def parseI64 (cs : List Char) : Option Int :=
  match cs with
  | [] => none
  | c :: ds =>
    let neg := c = '-'
    let body := if c = '-' ∨ c = '+' then ds else c :: ds
    match body with
    | [] => none
    | _ :: _ =>
      match digitsAcc 0 body with
      | none => none
      | some v =>
        let x : Int := if neg then -(v : Int) else (v : Int)
        if inI64 x then some x else none

/-! ## the scanner of `TimeDelta::parse` -/

/-- the three accumulators and the `start` cursor -/
structure St where
  nsecs : Int := 0
  secs : Int := 0
  months : Int := 0
  start : Nat := 0
  deriving DecidableEq, Repr

inductive Field
  | nsecs
  | secs
  | months
  deriving DecidableEq, Repr

/-- the `match unit.as_str()` table: unit, accumulator, multiplier -/
def unitTable : List (List Char × Field × Int) := [
  (['n', 's'], .nsecs, 1),
  (['u', 's'], .nsecs, 1000),
  (['m', 's'], .nsecs, 1000000),
  (['s'], .secs, 1),
  (['m'], .secs, 60),
  (['h'], .secs, 3600),
  (['d'], .secs, 86400),
  (['w'], .secs, 604800),
  (['m', 'o'], .months, 1),
  (['y'], .months, 12)]

def lookupUnit (unit : List Char) : Option (Field × Int) :=
  (unitTable.find? (·.1 = unit)).map (·.2)

/-- repaired `add_scaled`: `n.checked_mul(scale).and_then(|v| acc.checked_add(v))` -/
def addScaled (acc n scale : Int) : Option Int :=
  if inI64 (n * scale) then
    if inI64 (acc + n * scale) then some (acc + n * scale) else none
  else none

/-- repaired `add_months`: `i32::try_from(n)`, `checked_mul`, `checked_add` -/
def addMonths (acc n scale : Int) : Option Int :=
  if inI32 n then
    if inI32 (n * scale) then
      if inI32 (acc + n * scale) then some (acc + n * scale) else none
    else none
  else none

/-- one arm of the `match unit.as_str()` of the repaired code -/
def applyRepaired (st : St) (n : Int) (f : Field) (k : Int) : Except Res St :=
  match f with
  | .nsecs => match addScaled st.nsecs n k with
    | some v => .ok { st with nsecs := v }
    | none => .error (.err .overflow)
  | .secs => match addScaled st.secs n k with
    | some v => .ok { st with secs := v }
    | none => .error (.err .overflow)
  | .months => match addMonths st.months n k with
    | some v => .ok { st with months := v }
    | none => .error (.err .overflow)

/-- pinned `acc += n * K` on `i64` with overflow checks (for `K = 1` the code has no
    multiplication; `n * 1` never overflows) -/
def addPinned64 (acc n k : Int) : Except Res Int :=
  if !inI64 (n * k) then .error (.panic .mulOverflow)
  else if !inI64 (acc + n * k) then .error (.panic .addOverflow)
  else .ok (acc + n * k)

/-- pinned `months += n as i32 [* 12]` -/
def addPinned32 (acc n k : Int) : Except Res Int :=
  let v := wrapI32 n
  if !inI32 (v * k) then .error (.panic .mulOverflow)
  else if !inI32 (acc + v * k) then .error (.panic .addOverflow)
  else .ok (acc + v * k)

def applyPinned (st : St) (n : Int) (f : Field) (k : Int) : Except Res St :=
  match f with
  | .nsecs => (addPinned64 st.nsecs n k).map fun v => { st with nsecs := v }
  | .secs => (addPinned64 st.secs n k).map fun v => { st with secs := v }
  | .months => (addPinned32 st.months n k).map fun v => { st with months := v }

/-- the unit match: unknown unit → `tbail!` -/
def applyUnit (v : Version) (st : St) (n : Int) (unit : List Char) : Except Res St :=
  match lookupUnit unit with
  | none => .error (.err .badunit)
  | some (f, k) =>
    match v with
    | .repaired => applyRepaired st n f k
    | .pinned => applyPinned st n f k

/-- chrono: `Duration::seconds` accepts `|secs| ≤ i64::MAX / 1000` -/
def durMaxSecs : Int := 9223372036854775
/-- chrono: a `Duration` holds at most `i64::MAX` milliseconds, in nanoseconds -/
def durMaxNanos : Int := 9223372036854775807000000

/-- `Duration::seconds(secs) + Duration::nanoseconds(nsecs)` (pinned: both steps panic out of
    bounds; repaired: `try_seconds(..).and_then(checked_add)` → ParseError) -/
def finish (v : Version) (st : St) : Res :=
  let bad : Res := match v with
    | .pinned => .panic .durationBounds
    | .repaired => .err .overflow
  if st.secs < -durMaxSecs ∨ durMaxSecs < st.secs then bad
  else
    let total := st.secs * 1000000000 + st.nsecs
    if total < -durMaxNanos ∨ durMaxNanos < total then bad
    else .ok st.months total

/-- the inner `loop`: `ch` is the current character, `(off, rest)` the `CharIndices` iterator
    (front offset, remaining chars).  Returns `(unit, start, off, rest)` after the loop. -/
def unitLoop (ch : Char) (unit : List Char) (start off : Nat) :
    List Char → List Char × Nat × Nat × List Char
  | [] => if ch.isAlpha then (unit ++ [ch], start, off, []) else (unit, start, off, [])
  | c :: cs =>
    if ch.isAlpha then unitLoop c (unit ++ [ch]) off (off + c.utf8Size) cs
    else (unit, start, off, c :: cs)

theorem unitLoop_length (ch : Char) (unit : List Char) (start off : Nat) (rest : List Char) :
    (unitLoop ch unit start off rest).2.2.2.length ≤ rest.length := by
  induction rest generalizing ch unit start off with
  | nil => simp only [unitLoop]; split <;> simp
  | cons c cs ih =>
    simp only [unitLoop]
    split
    · exact Nat.le_trans (ih ..) (by simp)
    · simp

/-- the `while let Some((i, ch)) = iter.next()` loop; `s` is the whole string -/
def scan (v : Version) (s : List Char) (st : St) (off : Nat) (rest : List Char) : Res :=
  match rest with
  | [] => finish v st
  | ch :: cs =>
    if !ch.isDigit && off != 0 then
      match slice s st.start off with
      | none => .panic .sliceIndex
      | some num =>
        match parseI64 num with
        | none => (match v with
          | .pinned => .panic .unwrapParse
          | .repaired => .err .num)
        | some n =>
          match _h : unitLoop ch [] st.start (off + ch.utf8Size) cs with
          | (unit, start', off', rest') =>
            if unit.isEmpty then .err .nounit
            else
              match applyUnit v st n unit with
              | .error e => e
              | .ok st' => scan v s { st' with start := start' } off' rest'
    else scan v s st (off + ch.utf8Size) cs
termination_by rest.length
decreasing_by
  · have := unitLoop_length ch [] st.start (off + ch.utf8Size) cs
    rw [_h] at this
    simp only [List.length_cons]
    exact Nat.lt_succ_of_le this
  · simp

/-- `TimeDelta::parse(duration)` -/
def tdParse (v : Version) (s : List Char) : Res := scan v s {} 0 s

/-! ## `DateTime::parse` -/

/-- a chrono `NaiveDateTime` read as UTC: seconds since the epoch and nanoseconds of the second -/
structure Instant where
  secs : Int
  nanos : Nat
  deriving DecidableEq, Repr

inductive DUnit
  | s
  | ms
  | us
  | ns
  deriving DecidableEq, Repr

/-- ticks of the unit per second -/
def DUnit.perSec : DUnit → Nat
  | .s => 1
  | .ms => 1000
  | .us => 1000000
  | .ns => 1000000000

/-- result of `DateTime::<U>::parse`: the `i64` tick count -/
inductive DtRes
  | ok (ticks : Int)
  | err (k : ErrKind)
  | panic (k : PanicKind)
  deriving DecidableEq, Repr

def DtRes.isPanic : DtRes → Bool
  | .panic _ => true
  | _ => false

/-- `From<chrono::DateTime<Utc>> for DateTime<U>`: `timestamp()`, `timestamp_millis()`,
    `timestamp_micros()`, `timestamp_nanos_opt().expect(..)`; the repaired `parse` tests
    `timestamp_nanos_opt()` first and bails -/
def fromCr (v : Version) (u : DUnit) (x : Instant) : DtRes :=
  let ticks : Int := match u with
    | .s => x.secs   -- `timestamp()`: a leap second's extra nanoseconds (`nanos ≥ 10^9`) are dropped
    | _ => x.secs * u.perSec + (x.nanos / (1000000000 / u.perSec) : Nat)
  match u with
  | .ns =>
    if inI64 ticks then .ok ticks
    else (match v with
      | .pinned => .panic .expectNanos
      | .repaired => .err .range)
  | _ => .ok ticks

/-- `TIME_RULE_VEC` -/
def timeRuleVec : List String := [
  "%Y-%m-%d %H:%M:%S",
  "%Y-%m-%d %H:%M:%S.%f",
  "%Y-%m-%d",
  "%Y%m%d",
  "%Y%m%d %H%M%S",
  "%d/%m/%Y",
  "%d/%m/%Y H%M%S",
  "%Y%m%d%H%M%S",
  "%d/%m/%YH%M%S",
  "%Y/%m/%d",
  "%Y/%m/%d %H:%M:%S"]

/-- chrono's two parsers applied to the fixed input text: for a format,
    `NaiveDateTime::parse_from_str(s, fmt).ok()` and `NaiveDate::parse_from_str(s, fmt).ok()`
    (the date as days since the epoch) -/
structure Chrono where
  dateTime : String → Option Instant
  date : String → Option Int

/-- one `if let Ok(..) .. else if let Ok(..)` step -/
def tryFmt (c : Chrono) (fmt : String) : Option Instant :=
  match c.dateTime fmt with
  | some x => some x
  | none => (c.date fmt).map fun d => ⟨d * 86400, 0⟩

/-- the `for fmt in TIME_RULE_VEC.iter()` loop: first format that parses -/
def firstFmt (c : Chrono) : List String → Option Instant
  | [] => none
  | f :: fs => match tryFmt c f with
    | some x => some x
    | none => firstFmt c fs

/-- the chrono value `DateTime::parse` converts: the explicit format, or the first listed
    format that parses -/
def chosen (c : Chrono) (fmt : Option String) : Option Instant :=
  match fmt with
  | some f => tryFmt c f
  | none => firstFmt c timeRuleVec

/-- `DateTime::<U>::parse(s, fmt)` -/
def dtParse (v : Version) (u : DUnit) (c : Chrono) (fmt : Option String) : DtRes :=
  match chosen c fmt with
  | some x => fromCr v u x
  | none => .err .parse

/-- `TryFrom<DateTime<U>> for chrono::DateTime<Utc>` (`from_timestamp*`: Euclidean split);
    chrono's own range check is not modelled (instants are taken inside chrono's range) -/
def toCr (u : DUnit) (ticks : Int) : Instant :=
  ⟨ticks / u.perSec, (ticks % u.perSec).toNat * (1000000000 / u.perSec)⟩

/-! ## `Time::parse` -/

/-- chrono's `NaiveTime` result: seconds from midnight and nanosecond; then
    `num_seconds_from_midnight() as i64 * NANOS_PER_SEC + nanosecond() as i64` -/
def timeParse (chrono : Option (Nat × Nat)) : DtRes :=
  match chrono with
  | some (secs, nanos) => .ok ((secs : Int) * 1000000000 + (nanos : Int))
  | none => .err .parse

end Tv.C18
