/-
  C17 — executable model of the date-time / duration / time-of-day arithmetic of `tea-time`
  (core Lean only; linked into `tvmodel`).

  Transcribed from
    tea-time/src/impls/impl_ops.rs      operators `DateTime ± TimeDelta`, `DateTime − DateTime`,
                                        `TimeDelta` `+ − neg * i32`, `Time ± TimeDelta`
    tea-time/src/impls/impl_datetime.rs `TryFrom<DateTime<U>> for chrono::DateTime<Utc>` / `From<…>`
    tea-time/src/datetime.rs            `as_cr`, `duration_trunc` (repaired: fix commit for F9; the
                                        pinned body is kept as `durationTruncPinned`)
    tea-time/src/time.rs, impls/impl_time.rs   `Time` constructors, `as_cr`, `from_cr`, getters
    tea-time/src/timedelta.rs           NaT encoding of `TimeDelta`

  Conventions: every i64 / i32 is an `Int` with explicit range checks; Rust `/` and `%` are
  `Int.tdiv` / `Int.tmod`; `div_euclid` / `rem_euclid` by a positive number are Lean's `/` and `%`.
  A chrono `DateTime<Utc>` is modelled by its instant in nanoseconds since the epoch (an
  unbounded `Int` inside chrono's supported range); its calendar fields are obtained with
  `civilFromDays`, dates are turned back into instants with `daysFromCivil` (chrono's own
  field arithmetic is *observed* through the correspondence run, not verified).
  Panics are outcomes (`Res.panic`), never defaults.
-/
namespace Tv.C17

/-- outcome of an operation that may panic -/
inductive Res (α : Type) where
  | ok (v : α)
  | panic
deriving DecidableEq, Repr, Inhabited

@[inline] def Res.bind (r : Res α) (f : α → Res β) : Res β :=
  match r with
  | .ok v => f v
  | .panic => .panic

def i64Min : Int := -9223372036854775808
def i64Max : Int := 9223372036854775807
def i32Min : Int := -2147483648
def i32Max : Int := 2147483647

def inI64 (x : Int) : Bool := decide (i64Min ≤ x) && decide (x ≤ i64Max)
def inI32 (x : Int) : Bool := decide (i32Min ≤ x) && decide (x ≤ i32Max)

/-- the four supported precisions of `DateTime<U>` -/
inductive TUnit where
  | s | ms | us | ns
deriving DecidableEq, Repr, Inhabited

/-- nanoseconds per unit -/
def TUnit.mult : TUnit → Int
  | .s => 1000000000
  | .ms => 1000000
  | .us => 1000
  | .ns => 1

/-- `DateTime::nat()`, `Time::nat()` -/
def nat64 : Int := i64Min

def nsPerSec : Int := 1000000000
def nsPerDay : Int := 86400000000000

/-! ### Calendar (proleptic Gregorian, days counted from 1970-01-01) -/

def isLeap (y : Int) : Bool := (decide (y % 4 = 0) && decide (y % 100 ≠ 0)) || decide (y % 400 = 0)

def daysInMonth (y m : Int) : Int :=
  if m = 2 then (if isLeap y then 29 else 28)
  else if m = 4 ∨ m = 6 ∨ m = 9 ∨ m = 11 then 30 else 31

/-- days since 1970-01-01 of the civil date `y-m-d` -/
def daysFromCivil (y m d : Int) : Int :=
  let y' := if m ≤ 2 then y - 1 else y
  let era := y' / 400
  let yoe := y' - era * 400
  let mp := (m + 9) % 12
  let doy := (153 * mp + 2) / 5 + d - 1
  let doe := yoe * 365 + yoe / 4 - yoe / 100 + doy
  era * 146097 + doe - 719468

/-- civil date `(y, m, d)` of day number `z` -/
def civilFromDays (z : Int) : Int × Int × Int :=
  let z := z + 719468
  let era := z / 146097
  let doe := z - era * 146097
  let yoe := (doe - doe / 1460 + doe / 36524 - doe / 146096) / 365
  let y := yoe + era * 400
  let doy := doe - (365 * yoe + yoe / 4 - yoe / 100)
  let mp := (5 * doy + 2) / 153
  let d := doy - (153 * mp + 2) / 5 + 1
  let m := if mp < 10 then mp + 3 else mp - 9
  (if m ≤ 2 then y + 1 else y, m, d)

/-- chrono `NaiveDate::diff_months`: month index arithmetic with end-of-month clamping -/
def addMonthsCivil (c : Int × Int × Int) (k : Int) : Int × Int × Int :=
  let total := c.1 * 12 + (c.2.1 - 1) + k
  let y := total / 12
  let m := total % 12 + 1
  (y, m, min c.2.2 (daysInMonth y m))

/-- chrono's supported years (`NaiveDate::MIN.year() ..= NaiveDate::MAX.year()`) -/
def crMinYear : Int := -262143
def crMaxYear : Int := 262142
/-- `DateTime::<Utc>::MIN_UTC` / `MAX_UTC` as nanosecond instants -/
def crMin : Int := daysFromCivil crMinYear 1 1 * nsPerDay
def crMax : Int := (daysFromCivil crMaxYear 12 31 + 1) * nsPerDay - 1
def inCr (t : Int) : Bool := decide (crMin ≤ t) && decide (t ≤ crMax)

/-! ### `DateTime<U>` ⇄ chrono -/

/-- `DateTime::<U>::as_cr` : `None` for NaT and outside chrono's range -/
def asCr (u : TUnit) (x : Int) : Option Int :=
  if x = nat64 then none
  else
    let t := x * u.mult
    if inCr t then some t else none

/-- `From<CrDateTime<Utc>> for DateTime<U>` : `timestamp()`, `timestamp_millis()`,
`timestamp_micros()` floor toward the past; `timestamp_nanos_opt().expect(..)` panics
outside the i64 nanosecond range -/
def fromCr (u : TUnit) (t : Int) : Res Int :=
  match u with
  | .ns => if inI64 t then .ok t else .panic
  | u => .ok (t / u.mult)

/-- `dt ± Months::new(|k|)` (`checked_add_months(..).expect(..)`): the date part moves by
`k` months with end-of-month clamping, the time of day is kept -/
def addMonthsCr (t k : Int) : Res Int :=
  if k = 0 then .ok t
  else
    let c := civilFromDays (t / nsPerDay)
    if !inI32 (c.1 * 12 + (c.2.1 - 1) + k) then .panic
    else
      let c' := addMonthsCivil c k
      if c'.1 < crMinYear ∨ crMaxYear < c'.1 then .panic
      else .ok (daysFromCivil c'.1 c'.2.1 c'.2.2 * nsPerDay + t % nsPerDay)

/-- `dt + TimeDelta` of chrono (`checked_add_signed(..).expect(..)`) -/
def addDurCr (t n : Int) : Res Int :=
  if inCr (t + n) then .ok (t + n) else .panic

/-! ### `TimeDelta` -/

/-- `TimeDelta { months: i32, inner: chrono::Duration }`, `inner` in nanoseconds -/
structure TD where
  months : Int
  inner : Int
deriving DecidableEq, Repr, Inhabited

def TD.nat : TD := ⟨i32Min, 0⟩
def TD.isNat (d : TD) : Bool := decide (d.months = i32Min)
def TD.zero : TD := ⟨0, 0⟩

/-- chrono `TimeDelta::MAX` = `i64::MAX` milliseconds, in nanoseconds (`MIN = -MAX`) -/
def durMax : Int := i64Max * 1000000
def inDur (n : Int) : Bool := decide (-durMax ≤ n) && decide (n ≤ durMax)

/-- `Neg for TimeDelta` -/
def tdNeg (d : TD) : TD := if !d.isNat then ⟨-d.months, -d.inner⟩ else d

/-- `Add for TimeDelta` (debug profile: `i32` overflow panics; chrono panics on overflow) -/
def tdAdd (a b : TD) : Res TD :=
  if !a.isNat && !b.isNat then
    if inI32 (a.months + b.months) && inDur (a.inner + b.inner) then
      .ok ⟨a.months + b.months, a.inner + b.inner⟩
    else .panic
  else .ok TD.nat

/-- `Sub for TimeDelta` -/
def tdSub (a b : TD) : Res TD :=
  if !a.isNat && !b.isNat then
    if inI32 (a.months - b.months) && inDur (a.inner - b.inner) then
      .ok ⟨a.months - b.months, a.inner - b.inner⟩
    else .panic
  else .ok TD.nat

/-- chrono `TimeDelta::checked_mul` only requires the whole seconds of the product to lie
strictly inside the `i64` range (it does not re-check the `i64::MAX` ms bound) -/
def mulOk (n k : Int) : Bool := decide (i64Min < n * k / nsPerSec) && decide (n * k / nsPerSec < i64Max)

/-- `Mul<i32> for TimeDelta` -/
def tdMul (a : TD) (k : Int) : Res TD :=
  if !a.isNat then
    if inI32 (a.months * k) && mulOk a.inner k then .ok ⟨a.months * k, a.inner * k⟩
    else .panic
  else .ok TD.nat

/-! ### `DateTime<U>` operators (impl_ops.rs) -/

/-- `Add<TimeDelta> for DateTime<U>` -/
def dtAdd (u : TUnit) (x : Int) (d : TD) : Res Int :=
  if x ≠ nat64 ∧ !d.isNat then
    match asCr u x with
    | none => .panic
    | some t =>
      (addMonthsCr t d.months).bind fun t1 =>
      (addDurCr t1 d.inner).bind fun t2 => fromCr u t2
  else .ok nat64

/-- `Sub<TimeDelta> for DateTime<U>` -/
def dtSub (u : TUnit) (x : Int) (d : TD) : Res Int :=
  if x ≠ nat64 ∧ !d.isNat then
    match asCr u x with
    | none => .panic
    | some t =>
      (addMonthsCr t (-d.months)).bind fun t1 =>
      (addDurCr t1 (-d.inner)).bind fun t2 => fromCr u t2
  else .ok nat64

/-- `Sub<DateTime<U>> for DateTime<U>` -/
def dtDiff (u : TUnit) (a b : Int) : Res TD :=
  if a ≠ nat64 ∧ b ≠ nat64 then
    match asCr u a, asCr u b with
    | some ta, some tb => .ok ⟨0, ta - tb⟩
    | _, _ => .panic
  else .ok TD.nat

/-! ### `duration_trunc` -/

/-- chrono `DurationRound::duration_trunc(span).expect("Rounding Error")` on an instant -/
def chronoTrunc (t span : Int) : Res Int :=
  if !inI64 span then .panic            -- `num_nanoseconds()` is `None`
  else if span ≤ 0 then .panic          -- `DurationExceedsLimit`
  else if !inI64 t then .panic          -- `TimestampExceedsLimit`
  else
    let dd := t.tmod span
    if dd = 0 then .ok t
    else if dd > 0 then addDurCr t (-dd)
    else addDurCr t (-(span - dd.natAbs))

/-- `DateTime::<U>::duration_trunc` after the F9 repair -/
def durationTrunc (u : TUnit) (x : Int) (d : TD) : Res Int :=
  if x = nat64 then .ok x
  else
    match asCr u x with
    | none => .panic
    | some t =>
      let dm := d.months
      if dm ≠ 0 then
        if dm < 0 then .panic
        else
          let c := civilFromDays (t / nsPerDay)
          let dtMonth := c.1 * 12 + (c.2.1 - 1)
          let start := dtMonth - dtMonth % dm
          let y := start / 12
          let m := start % 12 + 1
          if y < crMinYear ∨ crMaxYear < y then .panic
          else
            let t1 := daysFromCivil y m 1 * nsPerDay
            if d.inner = 0 then fromCr u t1
            else (chronoTrunc t1 d.inner).bind (fromCr u)
      else (chronoTrunc t d.inner).bind (fromCr u)

/-- the pinned body of `duration_trunc` (before the repair): 1-based month index, remainder by
truncating `%`, `dt - Months(remainder)` keeps the day (clamped) and the time of day -/
def durationTruncPinned (u : TUnit) (x : Int) (d : TD) : Res Int :=
  if x = nat64 then .ok x
  else
    match asCr u x with
    | none => .panic
    | some t =>
      let dm := d.months
      if dm ≠ 0 then
        let c := civilFromDays (t / nsPerDay)
        if dm < 0 then .panic
        else
          let dtMonth := if c.1 ≥ 1 then c.1 * 12 + c.2.1 else (1 - c.1) * (-12) + c.2.1
          let dd := dtMonth.tmod dm
          let r := if dd = 0 then .ok t
                   else if dd > 0 then addMonthsCr t (-dd)
                   else addMonthsCr t (-(dm - dd.natAbs))
          r.bind fun t1 =>
            if d.inner = 0 then fromCr u t1
            else (chronoTrunc t1 d.inner).bind (fromCr u)
      else (chronoTrunc t d.inner).bind (fromCr u)

/-! ### `Time` (nanoseconds since midnight) -/

/-- checked i64 arithmetic of the debug profile -/
def chk (x : Int) : Res Int := if inI64 x then .ok x else .panic

/-- `Time::from_hms` -/
def timeFromHms (h m s : Int) : Res Int :=
  (chk (h * 3600)).bind fun a => (chk (m * 60)).bind fun b => (chk (a + b)).bind fun c =>
  (chk (c + s)).bind fun secs => chk (secs * nsPerSec)

/-- `Time::from_hms_milli / _micro / _nano` with `k` nanoseconds per sub-second unit -/
def timeFromHmsSub (k h m s f : Int) : Res Int :=
  (timeFromHms h m s).bind fun t => (chk (f * k)).bind fun n => chk (t + n)

/-- `Time::from_num_seconds_from_midnight` -/
def timeFromSecs (secs nano : Int) : Res Int :=
  (chk (secs * nsPerSec)).bind fun a => chk (a + nano)

def two32 : Int := 4294967296

/-- `Time::as_cr` : `(secs, frac)` of the `NaiveTime`; the `as u32` casts wrap -/
def timeAsCr (x : Int) : Option (Int × Int) :=
  let secs := (x.tdiv nsPerSec) % two32
  let nanos := (x.tmod nsPerSec) % two32
  if secs ≥ 86400 ∨ nanos ≥ 2000000000 ∨ (nanos ≥ 1000000000 ∧ secs % 60 ≠ 59) then none
  else some (secs, nanos)

/-- `Time::from_cr` -/
def timeFromCr (p : Int × Int) : Int := p.1 * nsPerSec + p.2

/-- `Timelike for Time`: `(hour, minute, second, nanosecond)`; each getter unwraps `as_cr` -/
def timeFields (x : Int) : Res (Int × Int × Int × Int) :=
  match timeAsCr x with
  | none => .panic
  | some (secs, frac) => .ok (secs / 60 / 60, secs / 60 % 60, secs % 60, frac)

/-- `Add<TimeDelta> for Time` (`neg = false`) and `Sub<TimeDelta> for Time` (`neg = true`);
the left operand is assumed not to be NaT (NaT on the left is C16's subject, finding F8) -/
def timeShift (neg : Bool) (t : Int) (d : TD) : Res Int :=
  if !d.isNat then
    if d.months ≠ 0 then .panic
    else if inI64 d.inner then chk (if neg then t - d.inner else t + d.inner)
    else .ok nat64
  else .ok nat64

end Tv.C17
