/-!
  C14 — model of `MapValidBasic::vcut` (tea-map/src/valid_iter.rs), transcribed from the code
  as written *after* the `fix:` commit for F15 (`vcut`), plus the pinned variant `vcutPinned`.

  Element type: `Int`, with the element type's extremes as explicit parameters `MIN MAX`
  (`T::Inner::min_()` / `max_()`); `none` is the null of the value type. Labels are an
  arbitrary type `L`. Outcomes per element: `Ok(label)`, `Ok(T2::none())`, `Err(not in bins)`;
  the whole call can fail with the label-count error (`none` here, token `E:labels`).
  The label type is assumed to have a null (`T2::none()` panics for `i32`-like label types:
  known finding F34, recorded in known_findings.json, not modelled).
-/
namespace Tv.C14

/-- outcome of `vcut` for one element -/
inductive Item (L : Type) where
  /-- `Ok(label.clone())` -/
  | label (l : L)
  /-- `Ok(T2::none())` for a null value -/
  | null
  /-- `Err("value not in bins")` -/
  | outside
  deriving DecidableEq, Repr

/-- lines 400-424: the edge vector the code materialises; `none` = `tbail!` (label count) -/
def edgesOf (MIN MAX : Int) (bins : List Int) (nLabels : Nat) (addBounds : Bool) : Option (List Int) :=
  if addBounds then
    if nLabels ≠ bins.length + 1 then none
    else some (MIN :: (bins ++ [MAX]))          -- vec![min_()].chain(bins).chain(vec![max_()])
  else
    if nLabels + 1 ≠ bins.length then none
    else some bins

/-- `tuple_windows::<(T, T)>()` -/
def windows : List Int → List (Int × Int)
  | a :: b :: t => (a, b) :: windows (b :: t)
  | _ => []

/-- the `for (i, (bound, label)) in ….enumerate() { if test { out = Some(label); break } }` loop -/
def firstMatch {L : Type} (test : Nat → Int × Int → Bool) : Nat → List ((Int × Int) × L) → Option L
  | _, [] => none
  | i, (b, l) :: t => if test i b then some l else firstMatch test (i + 1) t

/-- the bin test of the repaired code (both `if right` arms):
`above = (add_bounds && i == 0) || lo < v` (`<=` when left-closed),
`below = (add_bounds && i == last_bin) || v <= hi` (`<` when left-closed) -/
def binTest (right addBounds : Bool) (lastBin : Nat) (v : Int) (i : Nat) (b : Int × Int) : Bool :=
  let above := (addBounds && i == 0) || (if right then decide (b.1 < v) else decide (b.1 ≤ v))
  let below := (addBounds && i == lastBin) || (if right then decide (v ≤ b.2) else decide (v < b.2))
  above && below

/-- the bin test of the pinned code: the outer bounds are ordinary edges -/
def binTestPinned (right : Bool) (v : Int) (_i : Nat) (b : Int × Int) : Bool :=
  if right then decide (b.1 < v) && decide (v ≤ b.2) else decide (b.1 ≤ v) && decide (v < b.2)

/-- the closure mapped over the values -/
def cutItem {L : Type} (test : Int → Nat → Int × Int → Bool) (edges : List Int) (labels : List L) :
    Option Int → Item L
  | none => .null
  | some v =>
    match firstMatch (test v) 0 ((windows edges).zip labels) with
    | some l => .label l
    | none => .outside

/-- `vcut` (repaired tree). `none` = the call itself returns `Err` (label count). -/
def vcut {L : Type} (MIN MAX : Int) (xs : List (Option Int)) (bins : List Int) (labels : List L)
    (right addBounds : Bool) : Option (List (Item L)) :=
  (edgesOf MIN MAX bins labels.length addBounds).map fun edges =>
    let lastBin := edges.length - 2            -- bins.len().saturating_sub(2)
    xs.map (cutItem (binTest right addBounds lastBin) edges labels)

/-- `vcut` as in the pinned tree (finding F15) -/
def vcutPinned {L : Type} (MIN MAX : Int) (xs : List (Option Int)) (bins : List Int) (labels : List L)
    (right addBounds : Bool) : Option (List (Item L)) :=
  (edgesOf MIN MAX bins labels.length addBounds).map fun edges =>
    xs.map (cutItem (binTestPinned right) edges labels)

end Tv.C14
