import Tv.Model.C15Null
/-!
  C15 — `partial_cmp` of the inner types and the comparators `sort_cmp` / `sort_cmp_rev` of every
  instance (`isnone.rs:223-288` default bodies, `:534-539` the `impl_not_none!` override), plus
  `slice::sort_by` (stable) driven by them.
-/
namespace Tv.C15

def ratCmp (a b : Rat) : Ordering := if a < b then .lt else if a = b then .eq else .gt

/-- `f32::partial_cmp` / `f64::partial_cmp` on value classes -/
def fvPcmp : FV → FV → Option Ordering
  | .nan, _ => none
  | _, .nan => none
  | .inf a, .inf b => some (if a == b then .eq else if a then .lt else .gt)
  | .inf a, .fin _ => some (if a then .lt else .gt)
  | .fin _, .inf b => some (if b then .gt else .lt)
  | .fin p, .fin q => some (ratCmp p q)

/-- `Inner::partial_cmp`: integers, floats, bool, strings (lexicographic), `DateTime` / `Time`
(derived on the stored i64), `TimeDelta` (`impl_timedelta.rs`: `None` when `self` is NaT, otherwise
months first, then the duration) -/
def pcmpVal : Val → Val → Option Ordering
  | .int a, .int b => some (compare a b)
  | .flt a, .flt b => fvPcmp a b
  | .bool a, .bool b => some (compare a b)
  | .str a, .str b => some (compare a b)
  | .td m n, .td m' n' =>
    if m == i32Min then none
    else if m != m' then some (compare m m') else some (compare n n')
  | _, _ => none

/-- is `b` one of the `impl_not_none!` types (they override `sort_cmp`)? -/
def Base.notNoneImpl (b : Base) : Bool := b.intTy.isSome || b == .bool

/-- `sort_cmp` of the type `T` (`opt = false`) or `Option<T>` -/
def sortCmpTy (t : Ty) (a b : XV) : Res Ordering :=
  match t.opt, a, b with
  | false, .v x, .v y =>
    if t.base.notNoneImpl then sortCmpNotNone pcmpVal x y
    else .ok (sortCmp (reprOf t.base) (reprOf t.base).isNone pcmpVal x y)
  | true, .o x, .o y => .ok (sortCmp (optionRepr (reprOf t.base)) (reprOf t.base).isNone pcmpVal x y)
  | _, _, _ => .panic

/-- `sort_cmp_rev` (never overridden) -/
def sortCmpRevTy (t : Ty) (a b : XV) : Res Ordering :=
  match t.opt, a, b with
  | false, .v x, .v y => .ok (sortCmpRev (reprOf t.base) (reprOf t.base).isNone pcmpVal x y)
  | true, .o x, .o y => .ok (sortCmpRev (optionRepr (reprOf t.base)) (reprOf t.base).isNone pcmpVal x y)
  | _, _, _ => .panic

/-- `v.sort_by(cmp)`: stable; a panicking comparison aborts the sort -/
def sortBy (cmp : α → α → Res Ordering) (l : List α) : Res (List α) :=
  if l.any (fun a => l.any fun b => match cmp a b with | .panic => true | _ => false) then .panic
  else .ok (l.mergeSort fun a b => match cmp a b with | .ok .gt => false | _ => true)

end Tv.C15
