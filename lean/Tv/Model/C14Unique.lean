/-!
  C14 — model of `vsorted_unique_idx(Keep::First | Keep::Last)` and `vsorted_unique`
  (tea-map/src/valid_iter.rs), transcribed from the code as written *after* the `fix:` commit
  for F14; `lastStepPinned` / `uniqueIdxLastPinned` keep the pinned behaviour.

  An element is `Option Int` (`none` = null). Every function is an `enumerate().filter_map(..)`
  with a captured mutable state: `run step s i xs` threads the state, `step` returns the new
  state and the optional emitted item.
-/
namespace Tv.C14

/-- `iter.enumerate().filter_map(move |(i, v)| …)` with captured mutable state `s`; `i` = first index -/
def run {σ α β : Type} (step : σ → Nat → α → σ × Option β) : σ → Nat → List α → List β
  | _, _, [] => []
  | s, i, x :: t =>
    match (step s i x).2 with
    | some b => b :: run step (step s i x).1 (i + 1) t
    | none => run step (step s i x).1 (i + 1) t

/-- Keep::First closure: state `last_value` -/
def firstStep (last : Option Int) (i : Nat) (v : Option Int) : Option Int × Option Nat :=
  match v with
  | some a => if last = some a then (last, none) else (some a, some i)
  | none => (last, none)

/-- `vsorted_unique_idx(Keep::First)` -/
def uniqueIdxFirst (xs : List (Option Int)) : List Nat := run firstStep none 0 xs

/-- Keep::Last closure (repaired): a change of value closes a run only if `last_value` is `Some`
(`last_value.replace(v).map(|_| i)`); a null closes the run if there is one -/
def lastStep (last : Option Int) (i : Nat) (v : Option Int) : Option Int × Option Nat :=
  match v with
  | some a => if last = some a then (last, none) else (some a, last.map fun _ => i)
  | none => (none, if last.isSome then some i else none)

/-- Keep::Last closure of the pinned tree: emits `i` on every change of value (F14) -/
def lastStepPinned (last : Option Int) (i : Nat) (v : Option Int) : Option Int × Option Nat :=
  match v with
  | some a => if last = some a then (last, none) else (some a, some i)
  | none => (none, if last.isSome then some i else none)

/-- `vsorted_unique_idx(Keep::Last)`: the first element seeds `last_value`, the rest of the
iterator is chained with one sentinel `None` and enumerated from 0 (one-element look-ahead) -/
def uniqueIdxLast (xs : List (Option Int)) : List Nat :=
  run lastStep xs.head?.join 0 (xs.tail ++ [none])

def uniqueIdxLastPinned (xs : List (Option Int)) : List Nat :=
  run lastStepPinned xs.head?.join 0 (xs.tail ++ [none])

/-- `vsorted_unique` closure: state `value` -/
def valStep (value : Option Int) (_i : Nat) (v : Option Int) : Option Int × Option (Option Int) :=
  match v with
  | some a =>
    match value with
    | some l => if a ≠ l then (some a, some (some a)) else (value, none)
    | none => (some a, some (some a))
  | none => (value, none)

/-- `vsorted_unique` (items are `T::from_inner(v)`, i.e. never null) -/
def uniqueVals (xs : List (Option Int)) : List (Option Int) := run valStep none 0 xs

end Tv.C14
