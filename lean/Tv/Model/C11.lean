import Tv.Model.Basic
/-!
  C11 — executable model of the aggregation traits, transcribed from the Rust as written:

  * `IterBasic`      (tea-core/src/vec_core/iter_traits.rs): `vfold`, `vfold_n`, `vapply_n`
  * `Number`         (tea-dtype/src/number.rs): `min_with`, `max_with`
  * `AggValidBasic`  (tea-core/src/agg.rs): null-skipping aggregations
  * `AggBasic`       (tea-core/src/agg.rs): plain aggregations (null-free input, DESIGN 5.6)
  * `AggValidExt`    (tea-agg/src/lib.rs): masked sum / mean, kurtosis

  Series elements are `Option Rat` (`none` = NaN / `None`), boolean series `Option Bool`.
  Every Rust `fold` / `for_each` is a `List.foldl` with the same state and the same branch
  order. Explicit `NaN` / `None` results are `Out.null`. Two model-level conventions
  (DESIGN §3): a division whose denominator is zero is `Out.degen` (only `0/0` occurs here:
  `vmean_var`/`vmean_filter` with `min_periods = 0` on zero observations, and the
  zero-variance guard of `vcorr_pearson`, which is the code's own handling of the zero
  denominator), and `x / sqrt(d)` is carried as sign and square (`Out.root`).
-/
namespace Tv.C11
open Tv

/-- `EPS` of tea-core/src/prelude.rs -/
def EPS : Rat := 1 / 100000000000000

def sgn (q : Rat) : Int := if q < 0 then -1 else if q = 0 then 0 else 1

/-! ### iter_traits.rs -/

/-- one step of `IterBasic::vfold`: `if v.not_none() { f(acc, v) } else { acc }` -/
def vfoldStep (f : β → α → β) (acc : β) : Option α → β
  | some x => f acc x
  | none => acc

/-- `IterBasic::vfold`: `fold(init, |acc, v| if v.not_none() { f(acc, v) } else { acc })` -/
def vfold (f : β → α → β) (init : β) (xs : List (Option α)) : β :=
  xs.foldl (vfoldStep f) init

/-- one step of `IterBasic::vfold_n`: `n += 1; f(acc, v.unwrap())` on a valid element -/
def vfoldNStep (f : β → α → β) (p : Nat × β) : Option α → Nat × β
  | some x => (p.1 + 1, f p.2 x)
  | none => p

/-- `IterBasic::vfold_n`: also counts the valid elements -/
def vfoldN (f : β → α → β) (init : β) (xs : List (Option α)) : Nat × β :=
  xs.foldl (vfoldNStep f) (0, init)

/-! ### number.rs -/

/-- `min_with`: `if other < self { other } else { self }` -/
def minWith (self other : Rat) : Rat := if other < self then other else self

/-- `max_with`: `if other > self { other } else { self }` -/
def maxWith (self other : Rat) : Rat := if other > self then other else self

/-- `usize::max_with` (used for `min_periods.max_with(2)`) -/
def maxWithNat (self other : Nat) : Nat := if other > self then other else self

/-! ### AggValidBasic -/

/-- `count_valid` (and the deprecated `count`): `vfold_n((), |(), _| {}).0` -/
def countValid (xs : List (Option α)) : Nat := (vfoldN (fun (_ : Unit) (_ : α) => ()) () xs).1

/-- `vfirst`: `into_iter().find(|v| v.not_none())` -/
def vfirst (xs : List (Option α)) : Option (Option α) := xs.find? (·.isSome)

/-- `vlast`: `into_iter().rev().find(|v| v.not_none())` -/
def vlast (xs : List (Option α)) : Option (Option α) := xs.reverse.find? (·.isSome)

/-- `count_none`: `for_each(|v| if v.is_none() { n += 1 })` -/
def countNone (xs : List (Option α)) : Nat :=
  xs.foldl (fun n v => if v.isNone then n + 1 else n) 0

/-- `vcount_value` -/
def vcountValue [DecidableEq α] (value : Option α) (xs : List (Option α)) : Nat :=
  match value with
  | some c => vfold (fun acc x => if x = c then acc + 1 else acc) 0 xs
  | none => xs.foldl (fun acc x => if x.isNone then acc + 1 else acc) 0

/-- `vany`: `vfold(false, |acc, x| acc || x)` -/
def vany (xs : List (Option Bool)) : Bool := vfold (fun acc x => acc || x) false xs

/-- `vall`: `vfold(true, |acc, x| acc && x)` -/
def vall (xs : List (Option Bool)) : Bool := vfold (fun acc x => acc && x) true xs

/-- `vsum`: `if n >= 1 { Some(sum) } else { None }` -/
def vsum (xs : List (Option Rat)) : Out :=
  let p := vfoldN (· + ·) (0 : Rat) xs
  if p.1 ≥ 1 then .val p.2 else .null

/-- `vmean`: `if n >= 1 { sum / n } else { NaN }` -/
def vmean (xs : List (Option Rat)) : Out :=
  let p := vfoldN (· + ·) (0 : Rat) xs
  if p.1 ≥ 1 then .val (p.2 / (p.1 : Rat)) else .null

/-- the running power sums of the `vapply_n` closures (`m1 += v; m2 += v*v; m3 += v2*v;
m4 += v2*v2`) together with the count returned by `vapply_n` -/
structure Pow where
  n : Nat
  s1 : Rat
  s2 : Rat
  s3 : Rat
  s4 : Rat
deriving DecidableEq, Repr

def Pow.zero : Pow := ⟨0, 0, 0, 0, 0⟩

def Pow.step (s : Pow) : Option Rat → Pow
  | none => s
  | some v => ⟨s.n + 1, s.s1 + v, s.s2 + v * v, s.s3 + v * v * v, s.s4 + (v * v) * (v * v)⟩

def pows (xs : List (Option Rat)) : Pow := xs.foldl Pow.step Pow.zero

/-- population variance as computed: `m2/n - (m1/n)^2` -/
def Pow.pvar (s : Pow) : Rat := s.s2 / s.n - (s.s1 / s.n) * (s.s1 / s.n)

/-- `vmean_var` as in the pinned tree: the `m2 <= EPS` branch is tested before `n >= 2`, so
exactly one observation yields `(mean, 0)` (finding F10). With `n = 0` (only reachable with
`min_periods = 0`) both `m1` and `m2` are `0/0`, every comparison is false and the last branch
returns `(NaN, NaN)`. -/
def vmeanVarPinned (mp : Nat) (xs : List (Option Rat)) : Out × Out :=
  let s := pows xs
  if s.n < mp then (.null, .null)
  else if s.n = 0 then (.null, .null)
  else if s.pvar ≤ EPS then (.val (s.s1 / s.n), .val 0)
  else if s.n ≥ 2 then (.val (s.s1 / s.n), .val (s.pvar * s.n / ((s.n - 1 : Nat) : Rat)))
  else (.null, .null)

/-- `vmean_var` after the repair: `if n < 2 { (m1, NaN) } else if m2 <= EPS { (m1, 0.) } else
{ (m1, m2 * n / (n - 1)) }`. `m1 = sum / n` is `0/0` for `n = 0`. -/
def vmeanVar (mp : Nat) (xs : List (Option Rat)) : Out × Out :=
  let s := pows xs
  if s.n < mp then (.null, .null)
  else
    let m1 := Out.div s.s1 s.n
    if s.n < 2 then (m1, .null)
    else if s.pvar ≤ EPS then (m1, .val 0)
    else (m1, .val (s.pvar * s.n / ((s.n - 1 : Nat) : Rat)))

/-- `vvar`: `vmean_var(min_periods).1` -/
def vvar (mp : Nat) (xs : List (Option Rat)) : Out := (vmeanVar mp xs).2

def vvarPinned (mp : Nat) (xs : List (Option Rat)) : Out := (vmeanVarPinned mp xs).2

/-- `f64::sqrt` on a result slot (NaN stays NaN) -/
def sqrtOut : Out → Out
  | .val q => .root 1 q
  | o => o

/-- `vstd`: `vvar(min_periods).sqrt()` -/
def vstd (mp : Nat) (xs : List (Option Rat)) : Out := sqrtOut (vvar mp xs)

def vstdPinned (mp : Nat) (xs : List (Option Rat)) : Out := sqrtOut (vvarPinned mp xs)

/-- `vskew`. With `std = sqrt(var)` the expression
`m3/std^3 - 3*(m1/std) - (m1/std)^3` equals `c3 / std^3`, `c3 = m3 - 3*m1*var - m1^3`; the guard
`res != 0` is `c3 ≠ 0`, and `res * sqrt(n(n-1))/(n-2)` is carried as sign and square. -/
def vskew (mp : Nat) (xs : List (Option Rat)) : Out :=
  let s := pows xs
  if s.n < mp then .null
  else if s.n ≥ 3 then
    let n : Rat := s.n
    let m1 := s.s1 / n
    let var := s.pvar
    if var ≤ EPS then .val 0
    else
      let m3 := s.s3 / n
      let c3 := m3 - 3 * m1 * var - m1 * m1 * m1
      if c3 ≠ 0 then
        .root (sgn c3) (c3 * c3 / (var * var * var) * (n * (n - 1)) / ((n - 2) * (n - 2)))
      else .val 0
  else .null

/-- `vmax`: `vfold(None, |acc, x| match acc { None => Some(x), Some(v) => Some(v.max_with(x)) })` -/
def vmax (xs : List (Option Rat)) : Option Rat :=
  vfold (fun acc x => match acc with
    | none => some x
    | some v => some (maxWith v x)) none xs

def vmin (xs : List (Option Rat)) : Option Rat :=
  vfold (fun acc x => match acc with
    | none => some x
    | some v => some (minWith v x)) none xs

/-- state of the arg-extremum loops: `(best value, best index, current_idx)` -/
structure ArgSt where
  best : Option Rat
  idx : Option Nat
  cur : Nat
deriving DecidableEq, Repr

/-- `vargmax` loop body: replace only on `partial_cmp == Greater` (first maximum wins);
`current_idx` advances on every element, null or not -/
def vargmaxStep (s : ArgSt) (v : Option Rat) : ArgSt :=
  match v with
  | some v =>
    match s.best with
    | some m => if v > m then ⟨some v, some s.cur, s.cur + 1⟩ else ⟨s.best, s.idx, s.cur + 1⟩
    | none => ⟨some v, some s.cur, s.cur + 1⟩
  | none => ⟨s.best, s.idx, s.cur + 1⟩

def vargminStep (s : ArgSt) (v : Option Rat) : ArgSt :=
  match v with
  | some v =>
    match s.best with
    | some m => if v < m then ⟨some v, some s.cur, s.cur + 1⟩ else ⟨s.best, s.idx, s.cur + 1⟩
    | none => ⟨some v, some s.cur, s.cur + 1⟩
  | none => ⟨s.best, s.idx, s.cur + 1⟩

def vargmax (xs : List (Option Rat)) : Option Nat := (xs.foldl vargmaxStep ⟨none, none, 0⟩).idx
def vargmin (xs : List (Option Rat)) : Option Nat := (xs.foldl vargminStep ⟨none, none, 0⟩).idx

/-- running sums over the pairwise-complete pairs of `zip` -/
structure Pair where
  n : Nat
  sa : Rat
  sb : Rat
  sab : Rat
  saa : Rat
  sbb : Rat
deriving DecidableEq, Repr

def Pair.zero : Pair := ⟨0, 0, 0, 0, 0, 0⟩

def Pair.step (s : Pair) : Option Rat × Option Rat → Pair
  | (some a, some b) => ⟨s.n + 1, s.sa + a, s.sb + b, s.sab + a * b, s.saa + a * a, s.sbb + b * b⟩
  | _ => s

def pairs (xs ys : List (Option Rat)) : Pair := (xs.zip ys).foldl Pair.step Pair.zero

/-- `vcov`: `min_periods.max_with(2)`; `(sum_ab - sum_a*sum_b/n) / (n-1)` -/
def vcov (mp : Nat) (xs ys : List (Option Rat)) : Out :=
  let s := pairs xs ys
  let mp := maxWithNat mp 2
  if s.n ≥ mp then .val ((s.sab - s.sa * s.sb / s.n) / ((s.n - 1 : Nat) : Rat)) else .null

/-- `vcorr_pearson`: `(exy - exey) / sqrt(var_a * var_b)` when both variances exceed `EPS`,
otherwise NaN (the zero denominator: `Out.degen`) -/
def vcorr (mp : Nat) (xs ys : List (Option Rat)) : Out :=
  let s := pairs xs ys
  let mp := maxWithNat mp 2
  if s.n ≥ mp then
    let n : Rat := s.n
    let meanA := s.sa / n
    let meanB := s.sb / n
    let varA := s.saa / n - meanA * meanA
    let varB := s.sbb / n - meanB * meanB
    if varA > EPS ∧ varB > EPS then
      let exy := s.sab / n
      let exey := s.sa * s.sb / (n * n)
      let c := exy - exey
      .root (sgn c) (c * c / (varA * varB))
    else .degen
  else .null

/-! ### AggBasic (plain; null-free input). Names carry a `P` suffix (plain) so that they do not
shadow `max`, `min`, `sum`, … inside this namespace. -/

def countValueP [DecidableEq α] (value : α) (xs : List α) : Nat :=
  xs.foldl (fun acc x => if x = value then acc + 1 else acc) 0

def anyP (xs : List Bool) : Bool := xs.any id
def allP (xs : List Bool) : Bool := xs.all id

def firstP (xs : List α) : Option α := xs.head?

/-- `last`: `into_iter().rev().first()` -/
def lastP (xs : List α) : Option α := firstP xs.reverse

/-- `n_sum` -/
def nSumP (xs : List Rat) : Nat × Out :=
  let p := xs.foldl (fun (p : Nat × Rat) x => (p.1 + 1, p.2 + x)) (0, 0)
  if p.1 ≥ 1 then (p.1, .val p.2) else (p.1, .null)

def sumP (xs : List Rat) : Out := (nSumP xs).2

/-- `mean`: `sum.map(|v| v.cast() / len as f64)` -/
def meanP (xs : List Rat) : Out :=
  match nSumP xs with
  | (n, .val s) => .val (s / (n : Rat))
  | (_, o) => o

def maxP (xs : List Rat) : Option Rat :=
  xs.foldl (fun acc x => match acc with
    | none => some x
    | some v => some (maxWith v x)) none

def minP (xs : List Rat) : Option Rat :=
  xs.foldl (fun acc x => match acc with
    | none => some x
    | some v => some (minWith v x)) none

def argmaxStepP (s : ArgSt) (v : Rat) : ArgSt :=
  match s.best with
  | some m => if v > m then ⟨some v, some s.cur, s.cur + 1⟩ else ⟨s.best, s.idx, s.cur + 1⟩
  | none => ⟨some v, some s.cur, s.cur + 1⟩

def argminStepP (s : ArgSt) (v : Rat) : ArgSt :=
  match s.best with
  | some m => if v < m then ⟨some v, some s.cur, s.cur + 1⟩ else ⟨s.best, s.idx, s.cur + 1⟩
  | none => ⟨some v, some s.cur, s.cur + 1⟩

def argmaxP (xs : List Rat) : Option Nat := (xs.foldl argmaxStepP ⟨none, none, 0⟩).idx
def argminP (xs : List Rat) : Option Nat := (xs.foldl argminStepP ⟨none, none, 0⟩).idx

/-! ### AggValidExt (tea-agg/src/lib.rs) -/

/-- the `filter_map` closure of `n_vsum_filter`: keep `v` where the flag is valid and true -/
def keepFlag (p : Option Rat × Option Bool) : Option (Option Rat) :=
  match p.2 with
  | some flag => if flag then some p.1 else none
  | none => none

/-- `n_vsum_filter`: zip with the mask, `filter_map`, then `vfold_n(0, +)` -/
def nVsumFilter (xs : List (Option Rat)) (mask : List (Option Bool)) : Nat × Rat :=
  vfoldN (· + ·) (0 : Rat) ((xs.zip mask).filterMap keepFlag)

/-- `n_sum_filter`: `if n > 0 { Some(sum) } else { None }` -/
def nSumFilter (xs : List (Option Rat)) (mask : List (Option Bool)) : Out :=
  let p := nVsumFilter xs mask
  if p.1 > 0 then .val p.2 else .null

/-- `vmean_filter`: `if n >= min_periods { sum / n } else { NaN }` -/
def vmeanFilter (mp : Nat) (xs : List (Option Rat)) (mask : List (Option Bool)) : Out :=
  let p := nVsumFilter xs mask
  if p.1 ≥ mp then Out.div p.2 p.1 else .null

/-- `vkurt`; the guard `res != 0` as written -/
def vkurt (mp : Nat) (xs : List (Option Rat)) : Out :=
  let s := pows xs
  if s.n < mp then .null
  else if s.n ≥ 4 then
    let n : Rat := s.n
    let m1 := s.s1 / n
    let var := s.pvar
    if var ≤ EPS then .val 0
    else
      let var2 := var * var
      let m4 := s.s4 / n
      let m3 := s.s3 / n
      let mean2Var := m1 * m1 / var
      let res := (m4 - 4 * m1 * m3) / var2 + 6 * mean2Var + 3 * (mean2Var * mean2Var)
      if res ≠ 0 then
        .val (1 / ((((s.n - 2) * (s.n - 3) : Nat)) : Rat)
              * ((((s.n ^ 2 - 1 : Nat)) : Rat) * res - (((3 * (s.n - 1) ^ 2 : Nat)) : Rat)))
      else .val 0
  else .null

/-- the observation counts hard-wired in the bodies modelled above (`n >= 1`, `n < 2`, `n >= 3`,
`n >= 4`, `min_periods.max_with(2)`, `n > 0`); `agg_min_obs_matches` ties this table to the
table regenerated from the Rust sources on every run -/
def minObsTable : List (String × String) := [
  ("n_sum_filter", "1"),
  ("vcorr_pearson", "2"),
  ("vcov", "2"),
  ("vkurt", "4"),
  ("vmean", "1"),
  ("vmean_var", "2"),
  ("vskew", "3"),
  ("vsum", "1")
]

end Tv.C11
