import Tv.Model.C15Null
/-!
  C15 — model of `tea-dtype/src/cast.rs`, impl by impl.

  * the four arms of `impl_numeric_cast!(@ T => impl U)`, the `Option<T> → T` arm, the two blanket
    impls (`Cast<T> for T`, `Cast<Option<T>> for T`);
  * `@common_impl`: the bool, `String` and time (`DateTime<U>`, `TimeDelta`, `Time`) arms;
  * the hand-written bool impls, `impl_time_cast!`, the `i64` / `Option<i64>` impls of the time
    types, `impl_cast_from_string!`.

  `pinned = true` selects the bodies of the pinned tree for the five arms repaired by the `fix:`
  commits (see `Tv/Thm/C15.lean`, `*_pinned_wrong`); the driver uses `pinned = false`.
-/
namespace Tv.C15

/-- `<U as IsNone>::none()` -/
def noneOf (d : Base) : Res Val := (reprOf d).noneV

def isNoneOf (s : Base) (x : Val) : Bool := (reprOf s).isNone x

/-! ### `impl_numeric_cast!(@ $T => impl $U)` -/

/-- `impl Cast<$U> for $T { self as $U }` -/
def arm1 (d : Base) (x : Val) : Val := asNum d x

/-- `impl Cast<Option<$U>> for $T { if self.is_none() { None } else { Some(self as $U) } }` -/
def arm2 (s d : Base) (x : Val) : Option Val := if isNoneOf s x then none else some (asNum d x)

/-- `impl Cast<Option<$U>> for Option<$T> { self.map(|v| v.cast()) }` -/
def arm3 (d : Base) (x : Option Val) : Option Val := x.map (arm1 d)

/-- `impl Cast<$U> for Option<$T> { self.map(|v| v as $U).unwrap_or_else(<$U as IsNone>::none) }` -/
def arm4 (d : Base) (x : Option Val) : Res Val :=
  match x.map (asNum d) with
  | some v => .ok v
  | none => noneOf d

/-- `impl<T: IsNone> Cast<Option<T>> for T` -/
def blanketOpt (s : Base) (x : Val) : Option Val := if isNoneOf s x then none else some x

/-- `impl Cast<$T> for Option<$T> { self.unwrap_or_else(<$T as IsNone>::none) }` -/
def mainArm (s : Base) (x : Option Val) : Res Val :=
  match x with
  | some v => .ok v
  | none => noneOf s

/-! ### bool arms of `@common_impl` -/

/-- `impl Cast<bool> for $T`: through `Cast::<i32>::cast(self)`; 0 ↦ false, 1 ↦ true, else panic -/
def toBool (s : Base) (x : Val) : Res Val :=
  let value := if s == .i32 then x else asNum .i32 x
  match value with
  | .int 0 => .ok (.bool false)
  | .int 1 => .ok (.bool true)
  | _ => .panic

def toOptBool (s : Base) (x : Val) : Res (Option Val) :=
  if isNoneOf s x then .ok none else (toBool s x).map some

/-- `self.expect("can not cast None to bool").cast()` -/
def optToBool (s : Base) (x : Option Val) : Res Val :=
  match x with
  | none => .panic
  | some v => toBool s v

def optToOptBool (s : Base) (x : Option Val) : Res (Option Val) :=
  match x with
  | none => .ok none
  | some v => (toBool s v).map some

/-- `impl Cast<$T> for bool { (self as u8).cast() }` -/
def boolTo (d : Base) (b : Val) : Val :=
  let u : Val := match b with | .bool true => .int 1 | _ => .int 0
  if d == .u8 then u else asNum d u

def optBoolTo (d : Base) (x : Option Val) : Res Val :=
  match x with
  | some v => .ok (boolTo d v)
  | none => noneOf d

/-! ### String arms -/

/-- `impl Cast<String> for $T`; repaired: a null gives the null string -/
def toStr (pinned : Bool) (s : Base) (x : Val) : Val :=
  if !pinned && isNoneOf s x then .str "None" else .str (displayVal x)

/-- `impl Cast<String> for Option<$T> { self.map(|v| v.to_string()).unwrap_or("None") }` -/
def optToStr (x : Option Val) : Val :=
  match x with
  | some v => .str (displayVal v)
  | none => .str "None"

/-- `impl Cast<String> for Option<bool>`; pinned: `format!("{:?}", self)` -/
def optBoolToStr (pinned : Bool) (x : Option Val) : Val :=
  if pinned then
    match x with
    | some v => .str ("Some(" ++ displayVal v ++ ")")
    | none => .str "None"
  else optToStr x

/-- `impl Cast<$T> for String / &str { self.parse().expect(..) }` -/
def strTo (d : Base) (x : Val) : Res Val :=
  match x with
  | .str s => match parseVal d s with | some v => .ok v | none => .panic
  | _ => .panic

def strToOpt (d : Base) (x : Val) : Res (Option Val) :=
  match x with
  | .str s => if s == "None" then .ok none else (strTo d x).map some
  | _ => .panic

/-! ### time arms -/

/-- `DateTime::nat()`, `Time::nat()`, `TimeDelta::nat()` -/
def natOf (d : Base) : Val := if d == .td then .td i32Min 0 else .int i64Min

/-- `i64.into()`: `DateTime::new`, `Time::from_i64`, `TimeDelta::from(i64)` (nanoseconds, `i64::MIN` ↦ NaT) -/
def fromRaw (d : Base) (raw : Int) : Val :=
  if d == .td then (if raw == i64Min then .td i32Min 0 else .td 0 raw) else .int raw

/-- `Cast::<i64>::cast(self)` of a numeric value -/
def raw64 (s : Base) (x : Val) : Int :=
  match (if s == .i64 then x else asNum .i64 x) with
  | .int i => i
  | _ => 0

/-- `impl Cast<DateTime<U> | TimeDelta | Time> for $T`; repaired: a null gives NaT -/
def toTime (pinned : Bool) (s d : Base) (x : Val) : Val :=
  if !pinned && isNoneOf s x then natOf d else fromRaw d (raw64 s x)

/-- `impl Cast<..> for Option<$T> { self.map(|v| v.cast()).unwrap_or(nat()) }` -/
def optToTime (pinned : Bool) (s d : Base) (x : Option Val) : Val :=
  match x with
  | some v => toTime pinned s d v
  | none => natOf d

/-- `impl Cast<i64> for DateTime<U> / Time` (the stored integer) and `for TimeDelta` (whole
microseconds; panics when `months != 0`, which includes NaT) -/
def timeToI64 (x : Val) : Res Int :=
  match x with
  | .td m n => if m != 0 then .panic else .ok (Int.tdiv n 1000)
  | .int i => .ok i
  | _ => .panic

/-- `impl Cast<Option<i64>> for DateTime<U> / Time / TimeDelta`; pinned `TimeDelta`: the `months`
test comes first, so NaT panics -/
def timeToOptI64 (pinned : Bool) (x : Val) : Res (Option Int) :=
  match x with
  | .td m n =>
    if !pinned && isNatV x then .ok none
    else if m != 0 then .panic else .ok (some (Int.tdiv n 1000))
  | .int i => if i == i64Min then .ok none else .ok (some i)
  | _ => .panic

/-- `.cast()` of an `i64` into a target of `impl_time_cast!` -/
def i64To (d : Base) (raw : Int) : Res Val :=
  if d == .bool then toBool .i64 (.int raw)
  else if d == .i64 then .ok (.int raw)
  else .ok (arm1 d (.int raw))

/-- `.cast()` of an `Option<i64>` into a target of `impl_time_cast!` -/
def optI64To (d : Base) (o : Option Int) : Res Val :=
  if d == .bool then optToBool .i64 (o.map .int)
  else if d == .i64 then mainArm .i64 (o.map .int)
  else arm4 d (o.map .int)

/-- `impl_time_cast!`: `impl Cast<$T> for DateTime<U> / TimeDelta / Time`.
pinned: `Cast::<i64>::cast(self).cast()`; repaired: NaT gives `f64::NAN.cast()`, everything else as before -/
def timeTo (pinned : Bool) (d : Base) (x : Val) : Res Val :=
  if d == .i64 then (timeToI64 x).map .int
  else if pinned then (timeToI64 x).bind (i64To d)
  else if isNatV x then
    -- repaired: `if self.is_none() { f64::NAN.cast() }` — NaT casts like a null number
    (if d == .bool then toBool .f64 (.flt .nan) else .ok (arm1 d (.flt .nan)))
  else (timeToI64 x).bind (i64To d)

/-- `if self.is_none() { None } else { Some(self.cast()) }`; `Option<i64>` is hand-written -/
def timeToOpt (pinned : Bool) (d : Base) (x : Val) : Res (Option Val) :=
  if d == .i64 then (timeToOptI64 pinned x).map (·.map .int)
  else if isNatV x then .ok none else (timeTo pinned d x).map some

/-! ### dispatch: which impl the compiler selects for `(S, D)` -/

/-- `T == U` numeric: `Cast<T> for T`, `Cast<Option<T>> for T`, `Option<T>` identity, `Cast<T> for Option<T>` -/
def castSame (sb : Base) (so dopt : Bool) (x : XV) : Res XV :=
  match so, dopt, x with
  | false, false, .v a => .ok (.v a)
  | false, true, .v a => .ok (.o (blanketOpt sb a))
  | true, true, .o a => .ok (.o a)
  | true, false, .o a => (mainArm sb a).map .v
  | _, _, _ => .panic

/-- `T ≠ U` numeric: the four arms of `impl_numeric_cast!(@ T => impl U)` -/
def castNumNum (sb db : Base) (so dopt : Bool) (x : XV) : Res XV :=
  match so, dopt, x with
  | false, false, .v a => .ok (.v (arm1 db a))
  | false, true, .v a => .ok (.o (arm2 sb db a))
  | true, true, .o a => .ok (.o (arm3 db a))
  | true, false, .o a => (arm4 db a).map .v
  | _, _, _ => .panic

/-- numeric → bool arms of `@common_impl` -/
def castNumBool (sb : Base) (so dopt : Bool) (x : XV) : Res XV :=
  match so, dopt, x with
  | false, false, .v a => (toBool sb a).map .v
  | false, true, .v a => (toOptBool sb a).map .o
  | true, true, .o a => (optToOptBool sb a).map .o
  | true, false, .o a => (optToBool sb a).map .v
  | _, _, _ => .panic

/-- bool → numeric arms of `@common_impl` -/
def castBoolNum (db : Base) (so dopt : Bool) (x : XV) : Res XV :=
  match so, dopt, x with
  | false, false, .v a => .ok (.v (boolTo db a))
  | false, true, .v a => .ok (.o (some (boolTo db a)))
  | true, true, .o a => .ok (.o (a.map (boolTo db)))
  | true, false, .o a => (optBoolTo db a).map .v
  | _, _, _ => .panic

/-- bool ↔ bool: identity, blanket, `impl Cast<bool> for Option<bool>` (`None` panics) -/
def castBoolBool (so dopt : Bool) (x : XV) : Res XV :=
  match so, dopt, x with
  | false, false, .v a => .ok (.v a)
  | false, true, .v a => .ok (.o (blanketOpt .bool a))
  | true, true, .o a => .ok (.o a)
  | true, false, .o a => (match a with | some v => .ok (.v v) | none => .panic)
  | _, _, _ => .panic

/-- numeric → String arms -/
def castNumStr (pinned : Bool) (sb : Base) (so : Bool) (x : XV) : Res XV :=
  match so, x with
  | false, .v a => .ok (.v (toStr pinned sb a))
  | true, .o a => .ok (.v (optToStr a))
  | _, _ => .panic

/-- bool → String: `impl Cast<String> for bool`, `for Option<bool>` -/
def castBoolStr (pinned : Bool) (so : Bool) (x : XV) : Res XV :=
  match so, x with
  | false, .v a => .ok (.v (.str (displayVal a)))
  | true, .o a => .ok (.v (optBoolToStr pinned a))
  | _, _ => .panic

/-- numeric → DateTime / TimeDelta / Time arms -/
def castNumTime (pinned : Bool) (sb db : Base) (so : Bool) (x : XV) : Res XV :=
  match so, x with
  | false, .v a => .ok (.v (toTime pinned sb db a))
  | true, .o a => .ok (.v (optToTime pinned sb db a))
  | _, _ => .panic

/-- String / &str → String: identity, blanket, `&str::to_string` -/
def castStrStr (so dopt : Bool) (x : XV) : Res XV :=
  match so, dopt, x with
  | false, false, .v a => .ok (.v a)
  | false, true, .v a => .ok (.o (blanketOpt .str a))
  | true, true, .o a => .ok (.o a)
  | _, _, _ => .panic

/-- `impl_cast_from_string!` -/
def castStrNum (db : Base) (dopt : Bool) (x : XV) : Res XV :=
  match dopt, x with
  | false, .v a => (strTo db a).map .v
  | true, .v a => (strToOpt db a).map .o
  | _, _ => .panic

/-- `impl_time_cast!` and the hand-written `i64` impls -/
def castTimeNum (pinned : Bool) (db : Base) (dopt : Bool) (x : XV) : Res XV :=
  match dopt, x with
  | false, .v a => (timeTo pinned db a).map .v
  | true, .v a => (timeToOpt pinned db a).map .o
  | _, _ => .panic

/-! ### dispatch: which impl the compiler selects for `(S, D)` -/

def castModelAt (pinned : Bool) (s d : Ty) (x : XV) : Res XV :=
  let sb := s.base
  let db := d.base
  if sb.isNum then
    if db.isNum then
      if sb == db then castSame sb s.opt d.opt x else castNumNum sb db s.opt d.opt x
    else if db == .bool then castNumBool sb s.opt d.opt x
    else if db == .str && !d.opt then castNumStr pinned sb s.opt x
    else if db.isTime && !d.opt then castNumTime pinned sb db s.opt x
    else .panic
  else if sb == .bool then
    if db.isNum then castBoolNum db s.opt d.opt x
    else if db == .bool then castBoolBool s.opt d.opt x
    else if db == .str && !d.opt then castBoolStr pinned s.opt x
    else .panic                                      -- `panic!("Should not cast bool to datetime")`
  else if sb.isStr then
    if db == .str then castStrStr s.opt d.opt x
    else if (db.isNum || db == .bool) && !s.opt then castStrNum db d.opt x
    else .panic
  else if sb.isTime && !s.opt && (db.isNum || db == .bool) then castTimeNum pinned db d.opt x
  else .panic

/-- the model of the (repaired) tree -/
def castModel (s d : Ty) (x : XV) : Res XV := castModelAt false s d x

/-- the cast lattice `impl_numeric_cast!` is invoked on, in source order -/
def numTys : List String := ["u8", "u64", "i64", "i32", "f32", "f64", "usize", "isize"]

def castTargets : String → List String
  | "u8" => ["u64", "f32", "f64", "i32", "i64", "usize", "isize"]
  | "u64" => ["u8", "f32", "f64", "i32", "i64", "usize", "isize"]
  | "i64" => ["u8", "f32", "f64", "i32", "u64", "usize", "isize"]
  | "i32" => ["u8", "f32", "f64", "i64", "u64", "usize", "isize"]
  | "f32" => ["u8", "f64", "i32", "i64", "u64", "usize", "isize"]
  | "f64" => ["u8", "f32", "i32", "i64", "u64", "usize", "isize"]
  | "usize" => ["u8", "f32", "f64", "i32", "i64", "u64", "isize"]
  | "isize" => ["u8", "f32", "f64", "i32", "i64", "u64", "usize"]
  | _ => []

def castPairs : List (String × String) := numTys.flatMap fun t => (castTargets t).map fun u => (t, u)

/-- `impl_not_none!(...)` -/
def notNoneTypes : List String := ["bool", "u8", "i32", "i64", "isize", "u64", "usize"]

/-- `impl_time_cast!(...)` -/
def timeCastTypes : List String := ["u8", "u64", "f32", "f64", "i32", "usize", "isize", "bool"]

end Tv.C15
