import Tv.Handlers.C01
import Tv.Handlers.C02
import Tv.Handlers.Cross
import Tv.Handlers.C04
import Tv.Handlers.C16
import Tv.Handlers.C15
import Tv.Handlers.C11
import Tv.Handlers.C20
import Tv.Handlers.C18
import Tv.Handlers.C17
import Tv.Handlers.C12
import Tv.Handlers.C13
import Tv.Handlers.C09
import Tv.Handlers.C03
import Tv.Handlers.C14
import Tv.Handlers.C19
import Tv.Handlers.C10
import Tv.Handlers.C07
open Tv Tv.Proto Tv.Handlers

/-- per-function handlers -/
def baseHandlers : List Handler := [c01, c02, c10, c07, c19, c14, c03, c09, c13, c12, c17, c18, c20, c11, c15, c16, c04]

def handlers : List Handler := baseHandlers ++ [c06 baseHandlers, c08 baseHandlers]

def respond (line : String) : String :=
  let (fn, r) := parseReq line
  match handlers.findSome? (fun h => h fn r) with
  | some (m, s) => m ++ " | " ++ s
  | none => "?unknown"

partial def loop (h : IO.FS.Stream) (out : IO.FS.Stream) : IO Unit := do
  let line ← h.getLine
  if line.isEmpty then return ()
  out.putStrLn (respond line)
  loop h out

def main : IO Unit := do
  let out ← IO.getStdout
  loop (← IO.getStdin) out
  out.flush
