#!/usr/bin/env python3
"""Rewrites the numbers of DESIGN.md that come from the last run: the §14.2 table, the total of
audited theorems in the status line, and the line counts of §14.1. Run after all 20 quick checks."""
import json, re, subprocess, os
ROOT = os.path.dirname(os.path.dirname(os.path.abspath(__file__)))
rows, total = [], 0
for i in range(1, 21):
    d = json.load(open(f"{ROOT}/evidence/C{i:02d}.json"))
    c = d["coverage"]
    assert d["tier"] == "quick" and c["obligations"] == c["discharged"], (i, d["tier"], c["obligations"], c["discharged"])
    total += c["obligations"]
    rows.append(f"| C{i:02d} | {c['obligations']} | {c['evaluations']:,} | {c['distinct_nontrivial']:,} | "
                f"{'yes' if c.get('exhaustive') else 'no'} | {d['wall_s']} |")
table = ("| prop | theorems audited | cases | distinct non-trivial | enumerated part exhaustive | wall s |\n"
         "|------|------------------|-------|----------------------|----------------------------|--------|\n" + "\n".join(rows) + "\n")
p = f"{ROOT}/DESIGN.md"
s = open(p).read()
s = re.sub(r"\| prop \| theorems audited \|.*?\n(?:\|.*\n)+", table, s, count=1)
s = re.sub(r"every check passes on the\nrepaired tree, \d+ property theorems are kernel-checked and audited",
           f"every check passes on the\nrepaired tree, {total} property theorems are kernel-checked and audited", s)


def loc(paths, exts):
    n = 0
    for base in paths:
        for dp, _, fs in os.walk(os.path.join(ROOT, base)):
            if ".lake" in dp or "/target" in dp:
                continue
            for f in fs:
                if f.endswith(exts):
                    n += sum(1 for _ in open(os.path.join(dp, f), errors="replace"))
    return n


model = loc(["lean/Tv/Model", "lean/Tv/Spec"], (".lean",))
proofs = loc(["lean/Tv/Lemmas", "lean/Tv/Thm"], (".lean",))
harness = loc(["harness/src"], (".rs",))
trans = loc(["translator"], (".py",))
s = re.sub(r"\(core Lean only; ≈[\d.]+ kLOC\)", f"(core Lean only; ≈{model/1000:.1f} kLOC)", s)
s = re.sub(r"property theorems \(≈[\d.]+ kLOC;", f"property theorems (≈{proofs/1000:.1f} kLOC;", s)
s = re.sub(r"crate `tvh` \(≈[\d.]+ kLOC Rust\)", f"crate `tvh` (≈{harness/1000:.1f} kLOC Rust)", s)
open(p, "w").write(s)
print(f"total audited theorems {total}; model {model} lines, proofs {proofs}, harness {harness}, translators {trans}")
