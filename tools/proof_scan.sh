#!/bin/bash
# proof_scan.sh <worker-id> <ids...>: for each stored seeded change, apply it to a scratch worktree,
# re-run the six translators into a scratch copy of the Lean project and rebuild the theorem
# modules of the change's own property (no harness run). Prints "<id> BUILD-OK|BUILD-BROKEN".
# Scratch directories live under /tmp and are removed at the end. Not part of `check`.
W=$1; shift
WT=/tmp/scanwt$W; LP=/tmp/scanlean$W
rm -rf $LP; cp -r /verif/lean $LP
git -C /repo worktree add -f --detach $WT HEAD >/dev/null 2>&1
for ID in "$@"; do
  P=${ID:0:3}
  git -C $WT checkout -q -- . ; git -C $WT clean -fdq
  git -C $WT apply /verif/seeded/$ID/patch.diff 2>/dev/null || { echo "$ID PATCH-FAILED"; continue; }
  for t in extract:Generated closures:GenClosures aggs:GenAgg maps:GenMap drivers:GenDrv gens:GenLin parts:GenPart fdiff:GenFd finals:GenFin quant:GenQuant ranks:GenRank reads:GenReads; do
    python3 /verif/translator/${t%%:*}.py $WT $LP/Tv/${t##*:}.lean >/dev/null 2>&1
  done
  T="Tv.Thm.$P"; for s in GenA GenB GenC Gen; do [ -f $LP/Tv/Thm/$P$s.lean ] && T="$T Tv.Thm.$P$s"; done
  if (cd $LP && lake build $T >/dev/null 2>&1); then echo "$ID BUILD-OK"; else echo "$ID BUILD-BROKEN"; fi
done
git -C /repo worktree remove --force $WT >/dev/null 2>&1; git -C /repo worktree prune
rm -rf $LP
