#!/usr/bin/env python3
"""apply only the non-test hunks of an agent's commit to /repo and commit with its message"""
import re, subprocess, sys
agent, sha = sys.argv[1], sys.argv[2]
R = f"/scratch/agents/{agent}/repo"
def sh(*a, cwd="/repo", inp=None): return subprocess.run(a, cwd=cwd, text=True, capture_output=True, input=inp)
msg = sh("git", "log", "-1", "--format=%B", sha, cwd=R).stdout.strip()
diff = sh("git", "show", "--format=", sha, cwd=R).stdout
files = re.split(r"(?m)^(?=diff --git )", diff)
out = ""
for f in files:
    if not f.strip(): continue
    head, *hunks = re.split(r"(?m)^(?=@@ )", f)
    keep = []
    for h in hunks:
        first = h.split("\n")[0]
        body_added = [l for l in h.split("\n")[1:] if l.startswith("+")]
        if "mod test" in first or "fn test_" in first or any("#[cfg(test)]" in l or "#[test]" in l for l in body_added):
            continue
        keep.append(h)
    if keep: out += head + "".join(keep)
r = sh("git", "apply", "--recount", "-", inp=out)
if r.returncode != 0:
    print("APPLY FAILED", r.stderr); sys.exit(1)
sh("git", "commit", "-qam", msg)
print(sh("git", "log", "--oneline", "-1").stdout.strip())
