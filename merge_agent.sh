#!/bin/sh
# copy an agent's property-specific files into /verif and show what it changed in shared files
BASE=685efd60994cec48306d9fccc41220294a5cae11
a=$1; A=/scratch/agents/$a/verif
cd $A
for f in $(find lean/Tv lean/Main.lean lean/Tv.lean harness/src harness/Cargo.toml corpus translator known_findings.json mkmanifest.py check -type f 2>/dev/null | grep -v "\.lake"); do
  if git -C /verif cat-file -e $BASE:$f 2>/dev/null; then
    git -C /verif show $BASE:$f > /tmp/base_file
    if ! cmp -s $f /tmp/base_file; then
      if [ "$f" = "harness/Cargo.toml" ]; then continue; fi
      echo "AGENT-MODIFIED $f"; diff /tmp/base_file $f | grep '^[<>]' | head -${2:-30}
    fi
  else
    if [ ! -e /verif/$f ]; then mkdir -p /verif/$(dirname $f); cp $f /verif/$f; echo "NEW  $f";
    elif ! cmp -s $f /verif/$f; then echo "CONFLICT-NEW $f"; fi
  fi
done
