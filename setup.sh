#!/bin/sh
# offline build of the framework from files on disk only
set -e
cd "$(dirname "$0")"
export CARGO_NET_OFFLINE=true
python3 translator/extract.py ${TV_REPO:-/repo} lean/Tv/Generated.lean
python3 translator/closures.py ${TV_REPO:-/repo} lean/Tv/GenClosures.lean
python3 translator/aggs.py ${TV_REPO:-/repo} lean/Tv/GenAgg.lean
python3 translator/maps.py ${TV_REPO:-/repo} lean/Tv/GenMap.lean
python3 translator/drivers.py ${TV_REPO:-/repo} lean/Tv/GenDrv.lean
python3 translator/gens.py ${TV_REPO:-/repo} lean/Tv/GenLin.lean
python3 translator/parts.py ${TV_REPO:-/repo} lean/Tv/GenPart.lean
python3 translator/fdiff.py ${TV_REPO:-/repo} lean/Tv/GenFd.lean
python3 translator/finals.py ${TV_REPO:-/repo} lean/Tv/GenFin.lean
python3 translator/quant.py ${TV_REPO:-/repo} lean/Tv/GenQuant.lean
python3 translator/ranks.py ${TV_REPO:-/repo} lean/Tv/GenRank.lean
python3 translator/reads.py ${TV_REPO:-/repo} lean/Tv/GenReads.lean
(cd lean && lake build Tv tvmodel)
(cd harness && cargo build --features polars)
