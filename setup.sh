#!/bin/sh
# offline build of the framework from files on disk only
set -e
cd "$(dirname "$0")"
export CARGO_NET_OFFLINE=true
python3 translator/extract.py ${TV_REPO:-/repo} lean/Tv/Generated.lean
(cd lean && lake build Tv tvmodel)
(cd harness && cargo build)
