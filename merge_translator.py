#!/usr/bin/env python3
"""splice an agent's additive translator block into /verif/translator/extract.py"""
import sys
a=sys.argv[1]
src=open(f"/scratch/agents/{a}/verif/translator/extract.py").read()
mine=open("/verif/translator/extract.py").read()
END='out.append("\\nend Tv.Generated")'
start_marker='out.append("]")\n'
i=src.index(start_marker)+len(start_marker)
j=src.index(END)
block=src[i:j].strip("\n")
tag=f"# ==== block merged from property {a.upper()} ===="
if tag in mine:
    print("already merged"); sys.exit(0)
if not block.strip():
    print("no block"); sys.exit(0)
k=mine.index(END)
mine=mine[:k]+tag+"\n"+block+"\n\n"+mine[k:]
open("/verif/translator/extract.py","w").write(mine)
print("merged",len(block.splitlines()),"lines")
